#!/bin/bash
# re-run every claimed check on the unchanged tree and validate evidence + manifest (run before committing evidence)
cd "$(dirname "$0")/.."
python3 tools/mk_manifest.py >/dev/null
ids=$(.venv/bin/python -c "import json; print(' '.join(c['property_id'] for c in json.load(open('MANIFEST.json'))['checks']))")
extra="$@"
rc=0
for p in $ids $extra; do
  ./check $p --tier quick | tail -3; r=${PIPESTATUS[0]}
  [ "$r" != "0" ] && { echo "!! $p exit $r"; rc=1; }
done
.venv/bin/python - <<'PY'
import json, jsonschema, glob
sch = json.load(open('/root/.vp/EVIDENCE.schema.json'))
for f in sorted(glob.glob('evidence/*.json')):
    ev = json.load(open(f)); jsonschema.validate(ev, sch)
    c = ev['coverage']
    print(f, c['obligations'], c['discharged'], 'OK' if c['obligations'] == c['discharged'] else '!! MISMATCH')
jsonschema.validate(json.load(open('MANIFEST.json')), json.load(open('/root/.vp/MANIFEST.schema.json')))
print('manifest valid')
PY
exit $rc
