#!/usr/bin/env python3
"""Writes /verif/MANIFEST.json from the table below (kept in one place so that claims and reasons stay in sync)."""
import json
import os

HERE = os.path.dirname(os.path.dirname(os.path.abspath(__file__)))

BASE_NOTE = ("Trusted base: the assumed library models named in the evidence file (numpy / builtins), Python ints as mathematical "
             "integers, floats as mathematical reals, z3 as the deciding back end, the pyvc symbolic executor itself (guarded by the "
             "CPython differential cross-check and native contract evaluation on sampled inputs, reported in the evidence).")

CLAIMED = {
    # id: (technique, level text, design ref, extra note)
}

NOT_APPLICABLE = {
}

ALL = ["C%02d" % i for i in range(1, 21)]


def main():
    from manifest_table import CLAIMED as C, NOT_APPLICABLE as NA   # noqa
    checks = []
    for pid in ALL:
        if pid in C:
            tech, text, ref, note = C[pid]
            checks.append({
                "property_id": pid,
                "quick_cmd": "./check %s --tier quick" % pid,
                "thorough_cmd": "./check %s --tier thorough" % pid,
                "evidence_file": "evidence/%s.json" % pid,
                "replay_cmd_template": "./check --replay {path}",
                "engine": "pyvc",
                "level_claimed": {"category": "proof", "text": text, "design_ref": ref},
                "level_note": BASE_NOTE + " " + note,
                "technique": tech,
            })
    na = [{"property_id": pid, "reason": NA[pid]} for pid in ALL if pid not in C]
    m = {
        "version": 1,
        "setup_cmd": "./check --setup",
        "hooks": {
            "guard": "PYERRORS_VERIF",
            "enable": "none needed: the checks read the source text of /repo and import the unmodified package for replay; no hook code was added to /repo",
            "baseline_off_cmd": "cd /repo && /venv/bin/python -m pytest -ra -q -p no:cacheprovider --timeout=900 --continue-on-collection-errors",
            "source_commits": [],
            "add_only": True,
        },
        "engines": [{
            "name": "pyvc", "path": "pyvc/",
            "serves_properties": [c["property_id"] for c in checks],
            "kind_free_text": "contract-based deductive verifier written for this task: parses the current text of /repo on every run, executes the "
                              "functions named by the sidecar contracts (contracts/*.py) symbolically over a stated Python/numpy subset, cuts loops at "
                              "contract-supplied invariants, replaces callees by their contracts, and discharges one SMT query per path x clause with z3",
        }],
        "checks": checks,
        "not_applicable": na,
        "notes": "Exit codes of ./check: 0 held, 1 VIOLATION (replayed input, or no-failing-input-found), 2 UNDECIDED (solver unknown only; never a VIOLATION line), "
                 "3 CHECKER-ERROR (unsupported construct, contract no longer binds, crash).  VERIF_SEED only seeds the native input sampling "
                 "(vacuity guard, CPython cross-check, search for an input to attach); no verdict depends on it.",
    }
    with open(os.path.join(HERE, "MANIFEST.json"), "w") as fh:
        json.dump(m, fh, indent=1)
    print("wrote MANIFEST.json: %d checks, %d not applicable" % (len(checks), len(na)))


if __name__ == "__main__":
    import sys
    sys.path.insert(0, os.path.dirname(os.path.abspath(__file__)))
    main()
