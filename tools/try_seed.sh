#!/bin/bash
# usage: tools/try_seed.sh <patch.diff> <PROP> [<PROP> ...]   -- runs the checks against a scratch copy of /repo with the patch applied
patch="$(realpath "$1")"; shift
d=$(mktemp -d /tmp/seedrun.XXXX)
cp -r /repo/pyerrors "$d/"; mkdir -p "$d/tests"; 
( cd "$d" && git init -q . 2>/dev/null; git apply --whitespace=nowarn "$patch" ) || { echo "patch does not apply"; rm -rf "$d"; exit 9; }
cd "$(dirname "$0")/.."
for p in "$@"; do
  PYVC_REPO="$d" PYVC_EVIDENCE_DIR="$d/evidence" ./check $p --tier quick | tail -4
  echo "exit=${PIPESTATUS[0]}"
done
rm -rf "$d"
