#!/bin/bash
# usage: tools/confirm_seed.sh <seed dir with patch.diff demo.py meta.json> <dest name> <pytest args...>
# confirms in a fresh scratch worktree: demo passes clean, fails with the patch, tests pass with the patch; then stores under /verif/seeded/<dest>
src="$(realpath "$1")"; dest="$2"; shift 2
wt=$(mktemp -d /tmp/cs.XXXX); rmdir "$wt"
git -C /repo worktree add -q "$wt" HEAD || exit 9
cp "$src/demo.py" "$wt/_demo.py"
( cd "$wt" && /venv/bin/python _demo.py >/dev/null 2>&1 ); clean=$?
( cd "$wt" && git apply --whitespace=nowarn "$src/patch.diff" ) || { echo "patch does not apply"; git -C /repo worktree remove --force "$wt"; exit 9; }
( cd "$wt" && /venv/bin/python _demo.py >/dev/null 2>&1 ); patched=$?
( cd "$wt" && timeout 1500 /venv/bin/python -m pytest -q -p no:cacheprovider "$@" 2>&1 | tail -2 ) > /tmp/cs_tests.txt; 
tests=$(grep -c "failed" /tmp/cs_tests.txt)
echo "demo clean exit=$clean  demo patched exit=$patched  tests: $(tail -1 /tmp/cs_tests.txt)"
git -C /repo worktree remove --force "$wt"
if [ "$clean" = "0" ] && [ "$patched" != "0" ] && [ "$tests" = "0" ]; then
  d="$(realpath "$(dirname "$0")/..")/seeded/$dest"; mkdir -p "$d"; [ "$src" != "$d" ] && cp "$src/patch.diff" "$src/demo.py" "$src/meta.json" "$d/"
  echo "CONFIRMED -> seeded/$dest"
else
  echo "NOT CONFIRMED"
fi
