"""Which properties are claimed (and how), which are not (and why).  Edited by hand as the build proceeds."""

NOT_BUILT = "contracts for the functions this property depends on are not built yet (build in progress, see DESIGN.md section 9); nothing is claimed"

CLAIMED = {
    "C20": ("exact finite evaluation of the AST tables + symbolic execution with z3 (all integers) + vjp identity over an uninterpreted K_n",
            "Proof. The module-level gamma matrices are read from the AST as exact Gaussian rationals and all Clifford / hermiticity / gamma5 "
            "relations and all 16 Grid_gamma branches are decided by exact arithmetic (finite domain, exhaustive). epsilon_tensor and "
            "epsilon_tensor_rank4 are executed symbolically and their postcondition (permutation sign, ValueError outside the domain) is "
            "discharged by z3 for ALL integer arguments. The vjp lambda of kn is executed symbolically and proved equal to "
            "-g/2 (K_{n-1}+K_{n+1}) with K uninterpreted.",
            "DESIGN.md section 6 C20",
            "Assumed: scipy.special.kn computes K_n; K_{-m} = K_m; the Bessel recurrence d/dx K_n = -(K_{n-1}+K_{n+1})/2 is the mathematical "
            "derivative (DLMF 10.29); autograd's defvjp mechanism; the re-exported autograd.scipy.special functions are not examined (not decided)."),
}

NOT_APPLICABLE = {("C%02d" % i): NOT_BUILT for i in range(1, 21)}
for _k in CLAIMED:
    NOT_APPLICABLE.pop(_k, None)
