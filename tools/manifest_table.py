"""Which properties are claimed (and how), which are not (and why).  Edited by hand as the build proceeds."""

NOT_BUILT = "contracts for the functions this property depends on are not built yet (build in progress, see DESIGN.md section 9); nothing is claimed"

CLAIMED = {
}

NOT_APPLICABLE = {("C%02d" % i): NOT_BUILT for i in range(1, 21)}
