"""Which properties are claimed (and how), which are not (and why).  Edited by hand as the build proceeds."""

NOT_BUILT = "contracts for the functions this property depends on are not built yet (build in progress, see DESIGN.md section 9); nothing is claimed"

CLAIMED = {
    "C01": ("symbolic execution of the alignment kernel with loop invariants and ghost inductions + z3/cvc5; symbolic differentiation of every hand-written gradient",
            "Proof of the parts of the propagation that pyerrors itself implements: (1) _merge_idx: the result is the strictly increasing union of "
            "the operands' configuration lists, held as a range exactly when equally spaced (1..3 operand lists, any lengths, any kinds); "
            "(2) _expand_deltas_for_merge: for EVERY configuration of the union the result carries the operand's fluctuation on that configuration "
            "number times len(union)/len(own) times the scale factor, and zero where the operand was not measured; (3) the missing-replica scale "
            "factor closure of derived_observable on enumerated chain layouts (ensembles grouped by the text before '|'); (4) for each of the 70 "
            "man_grad entries and value lambdas of Obs / CObs: man_grad[i] == d(lambda)/dx_i by symbolic differentiation + z3 over the reals; "
            "(5) derived_observable (scalar mode) as three statement slices on enumerated operand layouts (1 or 2 operands; same chain, "
            "range/list mixes, operand lacking a replica, two ensembles): central value = f(values), replica means = f(replica means), result "
            "lists = union; the accumulation loop: for EVERY configuration of the union the result's fluctuation is the sum over the inputs of "
            "deriv[j] x (input's fluctuation on that configuration number, zero if not measured) x union/own x missing-replica factor; result assembly.",
            "DESIGN.md section 6 C01",
            "NOT decided by this check: the code between the slices (choice of man_grad / autograd / num_grad, final_result plumbing), more than "
            "two operands, covobs gradients, array_mode, CObs operators as a whole, independence of how an expression is split (composition "
            "lemma), autograd / num_grad exactness. Derivative rule table is part of the trusted base; transcendental functions uninterpreted."),
    "C02": ("symbolic execution of the Gamma-method building blocks (functions and statement slices of gamma_method) with loop invariants; z3 + cvc5; ACORR as a shared uninterpreted sum",
            "Proof of the parts of Wolff's estimator that are index / window logic in pyerrors: _expand_deltas (zero filling on the lattice of "
            "the common spacing, for every configuration), _determine_gap (minimal spacing), _calc_gamma (Gamma(t) = sum of products t steps "
            "apart on the gap-filled chain, identical postcondition for the direct and the FFT branch incl. even padding >= N + lags), "
            "_compute_drho (Luescher's formula rho(i+k)+rho(|i-k|)-2rho(i)rho(k) from the three-way slice, for all w_max and i), the automatic "
            "window (first lag with g_W < 0 or w_max-1; bias factor (1+(2W+1)/N)/(1+1/N); dvalue; ddvalue), the tau_exp window (first lag with "
            "rho - N_sigma drho < 0 or the cap; tail tau_exp |rho(W+1)|; rejection below 8 samples), S = 0 (naive standard error), replica "
            "extents in units of the spacing.",
            "DESIGN.md section 6 C02",
            "Assumed: irfft(|rfft(x,P)|^2) is the linear autocorrelation for even P and lags <= P - len(x); transcendental functions uninterpreted. "
            "Also proved: the accumulation of Gamma over the replicas of an ensemble and the pair-count normalisation (sum over replicas divided by "
            "max(1, number of pairs), each replica with its own configuration list; one and two replicas), the vanishing-variance guard, "
            "rho = Gamma/Gamma(0), the cumulative tau_int with its clamp and dtau_int (eq. 42). A native harness compares rho(t) of the real "
            "gamma_method with an independent pair-counting evaluation. The totals: per ensemble the squares are accumulated, errors of "
            "covariance-defined inputs are sqrt(errsq) with zero error of the error, the total error is the quadrature sum and ddvalue = "
            "sqrt(sum) / dvalue (0 for dvalue = 0). NOT decided: the norm step of _compute_drho."),
    "C03": ("lemmas over the C02 contracts + frame obligations on the gamma_method slices + _parse_kwarg precedence",
            "Proof: (1) FFT on/off: both branches of _calc_gamma satisfy the same postcondition; (2) relabelling i -> a*i+b: the extent of every "
            "replica in units of the common spacing is the relabelling-invariant quantity (postcondition of the r_length slice; the invariance "
            "itself is a separate arithmetic lemma discharged by z3) - this obligation failed on the original tree and was fixed; (3) the window "
            "slices write only the result attributes of the analysis (frame: value, deltas, idl, names, r_values, shape are frozen); "
            "(4) _parse_kwarg: explicit argument over per-ensemble dictionary over global default, negative values rejected.",
            "DESIGN.md section 6 C03",
            "(5) frame.read: the three derived_observable slices read only data attributes of their inputs (names, idl, deltas, r_values, shape, value, "
            "covobs, reweighted), never a result of an earlier analysis. "
            "(6) history: the accumulators of the total error are reset at entry; natively the complete analysis is run twice with different "
            "parameters on one object and compared with a fresh copy, and the class-level parameter dictionary must stay untouched. NOT decided: "
            "invariance under adding a constant / scaling with |c|, tau_int >= 1/2 and finiteness, replica renaming / reordering."),
    "C04": ("symbolic execution of Obs.__init__ over enumerated name lists (well-formed and malformed) with symbolic samples and configuration lists",
            "Proof for the constructor: every malformed request listed in the property (duplicate / non-string names, unsorted or duplicate "
            "configuration numbers, length mismatches, fewer than five samples, several ensembles, wrong idl type) raises exactly the stated "
            "exception class and nothing well-formed is rejected (raises clauses are iff); every accepted request yields an object with sorted "
            "names, idl equal to the given numbers and held as a range exactly when equally spaced (induction ghost), shape == len(idl) == "
            "len(deltas), r_values / deltas / value as defined, N == sum of the chain lengths.",
            "DESIGN.md section 6 C04",
            "Also proved: the result assembly of derived_observable (scalar mode) and import_jackknife construct through Obs.__init__(means=...) "
            "and return a well-formed object (names, idl kinds, lengths, N, flag); closure of arithmetic: every operator method of Obs "
            "(+ - * / ** neg and reflected) and of CObs (+ - * / and reflected) executed for partner kinds Obs / CObs / int / float / complex "
            "returns a real observable or a complex observable with real parts (defect for complex partners found and fixed). NOT decided by this "
            "check: fits / roots / importers / readers, ndarray partners, complex powers. Covobs._set_cov (covariance as number / two variances / 2 x 2 "
            "matrix) rejects exactly the non-symmetric or not positive semi-definite inputs; a descending range as idl is rejected "
            "(defect found and fixed)."),
    "C05": ("symbolic execution of reweight / correlate / merge_obs / _reduce_deltas over enumerated chain layouts with symbolic data; counting argument by ghost induction",
            "Proof: _reduce_deltas gathers by configuration number (never by position) and raises ValueError iff a requested configuration is "
            "missing (pigeonhole argument supplied as three ghost inductions); reweight builds numerator and denominator from the weight's "
            "samples on the observable's configuration NUMBERS, in both normalisation modes, sets the flag, and raises iff chains / ensembles / "
            "configurations do not fit; correlate is the observable of per-configuration products and raises iff chains or lists differ; merge_obs "
            "is the disjoint union of the chains with samples preserved, flag = or of the inputs as a Python bool (defect found and fixed); "
            "Corr.reweight lifts timeslice-wise and passes the normalisation mode on.",
            "DESIGN.md section 6 C05",
            "Chain layouts (1..3 replicas, two ensembles) are enumerated, lengths / configuration numbers / samples symbolic. NOT decided: covariance "
            "inputs (rejection), Corr.correlate, qtop_projection, inheritance of the flag through derived_observable (that is its result assembly)."),
    "C06": ("symbolic execution with loop invariants over a 2-D array model (matrix of symbolic dimension) + callee contracts + sum extensionality; z3 / cvc5",
            "Proof of what pyerrors itself implements of the covariance: (1) covariance(): the double loop fills exactly the upper triangle with "
            "the pairwise elements, the symmetrisation / normalisation / rescaling give, for EVERY i, j and every list length, "
            "cov[i][j] = dvalue_i * c(i,j)/sqrt(c(i,i) c(j,j)) * dvalue_j with c the pairwise element; hence symmetric, diagonal = squared "
            "errors, unit diagonal of the correlation matrix (postconditions, not tests); (2) _covariance_element: for enumerated chain "
            "layouts (one chain, two replicas, a replica missing in one operand, disjoint ensembles, an extra ensemble) and symbolic "
            "configuration lists / fluctuations: 0 without a common chain, an exception iff an operand was not analysed, otherwise the Pearson "
            "form sum_r sum_{common c} d1 d2 / sum_r sqrt(sum d1^2 sum d2^2) over the configurations common to both (gathered by configuration "
            "NUMBER through the proved contracts of _intersection_idx / _reduce_deltas); (3) sort_corr: for every block pair the re-sorted "
            "matrix entry equals the original entry at the permuted position (key lists enumerated, block sizes and dimension unbounded).",
            "DESIGN.md section 6 C06",
            "Assumed: real square root axioms, SUM extensionality (equal summands give equal sums), the numpy 2-D array model of pyvc/lib_mat.py. "
            "NOT decided: |rho| <= 1 and positive semi-definiteness (consequences of the Pearson form, Cauchy-Schwarz not mechanised), "
            "covariance inputs (J1 Sigma J2^T), _smooth_eigenvalues (trace), invert_corr_cov_cholesky, error_band, the rank warning, "
            "permutation equivariance as such (it follows from (1): entries depend only on the pair)."),
    "C09": ("symbolic execution with the user function uninterpreted, symbolic differentiation (chain rule with D<i>_F symbols) for autograd.jacobian, an uninterpreted exact integral for scipy's quadrature; z3; native end-to-end harness",
            "Proof for an ARBITRARY differentiable user function: find_root(d, func) returns derived_observable(value -> root, [d], man_grad = "
            "[-(dG/dd)/(dG/dx)]) with G(root, d) = 0 (the inverse-function rule); quad(func, p, a, b) (parameter list enumerated over "
            "Obs / float patterns of length 1..3, each limit Obs or float) returns scipy's integral when nothing is an observable and "
            "otherwise an observable with central value INT_a^b F(p, x) dx, operands = observable parameters followed by observable limits, "
            "and gradients = INT dF/dp_i dx for each observable parameter, -F(p, a) for an observable lower limit, +F(p, b) for an observable "
            "upper limit, in the order of the operands.",
            "DESIGN.md section 6 C09",
            "Assumed: autograd.jacobian is the exact derivative, scipy.integrate.quad the exact integral (abserr ignored), fsolve converged; "
            "what derived_observable does with operands and gradients is C01 (stub that records them). NOT decided: vector-valued d in "
            "find_root, integration kwargs, agreement with the explicitly inverted function beyond first order."),
    "C10": ("symbolic execution over an abstract (non-commutative) matrix ring: matrices are elements of an uninterpreted sort with ring / transposition axioms; cvc5 and z3 as external processes; native end-to-end harness through matmul on complex observables",
            "Proof of the algebra pyerrors itself implements for matrix products: the nested multi_dot of matmul's complex branch returns, for "
            "2 and 3 complex operands given as real and imaginary parts, exactly the fully expanded real resp. imaginary part of the ordered "
            "complex matrix product (any dimension: the ring is abstract); the real branch multiplies the operands in the given order; "
            "_scalar_mat_op (det) rebuilds the matrix from the raveled list row by row before applying the operation (dimensions 1..3, "
            "entries symbolic, operation uninterpreted).",
            "DESIGN.md section 6 C10",
            "Assumed: ring axioms (associativity, distributivity, transposition). NOT decided: everything numerical - inverse, Cholesky, "
            "determinant, eigen-decompositions, pinv, svd identities are properties of numpy / autograd, the propagation through "
            "derived_observable(array_mode=True) is C01 territory and not built; _mat_mat_op's real block representation, jack_matmul / einsum."),
    "C12": ("symbolic execution of the selection statements of the dobs reader and of the table-cell statements of the writer (statement slices, exact filter-loop summaries, loop invariant) + z3; native execution of the same slices compiled from the source",
            "Proof (reader, import_dobs_string): for one chain and one observable with symbolic table column, configuration list and mean, "
            "the configurations that come back are exactly those whose stored number is not the marker 0, in increasing order, each with "
            "sample = stored number + mean; the chain is dropped iff no configuration is marked as measured. This obligation failed on the "
            "original tree (a sample of exactly 0.0 was dropped) and was fixed. Writer (create_dobs_string): the cell written for a "
            "configuration on which the observable was measured is the number fluctuation + replica offset and the position counter "
            "advances correctly; the clause `never the marker 0` fails exactly when that number is 0 (sample == central value): recorded "
            "known finding, inherent in the format. Covariance inputs: observable i receives column i of the stored gradient table "
            "(the single column when only one is stored), for 2 and 3 observables and any number of covariance entries.",
            "DESIGN.md section 6 C12",
            "NOT decided: the XML assembly / parsing around these statements (_import_array, _import_rdata, _import_cdata, dict_to_xml), "
            "several observables / chains in one table (alignment by the counters across rows), the pobs format, the "
            "replica-separator handling, text formatting accuracy of '%1.16e'."),
    "C13": ("symbolic execution of export_jackknife / import_jackknife (structured-matrix model of ones - (n-1) identity) + arithmetic lemmas",
            "Proof: export_jackknife returns [value, (n value - x_i)/(n-1)] for every i and rejects observables with more than one chain; "
            "import_jackknife returns a well-formed single-chain observable with value jacks[0], the given configuration list and samples "
            "sum(jacks[1:]) - (n-1) jacks[1+j]; lemmas (z3, real arithmetic): these are the leave-one-out means and import(export) restores every "
            "sample whenever n value equals the sum of the samples.",
            "DESIGN.md section 6 C13",
            "The invariant n*value == sum of samples of single-chain observables is a precondition of the lemmas, not re-proved here. export_bootstrap: only the "
            "single-chain guard is a discharged obligation; the resampling identities (sample s = mean of the data resampled with row s, "
            "default table usable, import inverts export for a full-rank table) are checked by NATIVE SAMPLING ONLY (bounded, listed under "
            "`bounded` in the evidence). NOT decided: jackknife variance == squared S=0 error, the jackknife helpers of linalg.py."),
    "C14": ("symbolic execution of the Corr methods with exact loop summaries + z3, contracts over all T and all undefined-slice patterns",
            "Proof (N = 1, real content). Each operator method (__add__, __sub__, __mul__, __truediv__, __neg__, __pow__, __abs__, reflected "
            "variants), each elementary function (log, exp, 12 functions through _apply_func_to_corr) and the index transformations reverse, "
            "thin, symmetric are executed symbolically from the current source for a correlator of symbolic length T with a symbolic "
            "pattern of undefined slices and partner kinds Corr / Obs / int / float; the postcondition states for EVERY timeslice that the "
            "result is undefined iff an operand is, and equals the operation on the operands' entries otherwise; writes to self, partners and "
            "arguments are frame obligations (this is how the print_range mutation of __repr__ was found and fixed).",
            "DESIGN.md section 6 C14",
            "Observables are abstracted by their central value (an identity of real functions lifts to observables by C01, assumed here); "
            "Obs objects are truthy; np.roll / Hankel / projected / trace / item / matrix_symmetric / T_symmetry / anti_symmetric, matrix-valued "
            "content (N > 1), complex content and complex or ndarray partners are NOT decided by this check; Corr.__init__ is an assumed contract; "
            "NaN filtering is vacuous over the reals."),
    "C15": ("symbolic execution of deriv / second_deriv with exact loop summaries + z3 over all T and undefined-slice patterns",
            "Proof (N = 1). deriv (symmetric, forward, backward, improved) and second_deriv (symmetric, big_symmetric, improved) are executed "
            "symbolically for symbolic T and a symbolic pattern of undefined slices; postcondition for every t: undefined iff a slice the "
            "documented formula references is undefined, otherwise equal to the documented finite-difference formula (linear real arithmetic), "
            "padding undefined, ValueError iff every output slice is undefined, and no TypeError on interior undefined slices (safe obligations; "
            "this is how the second_deriv defect was found and fixed).",
            "DESIGN.md section 6 C15",
            "Same abstraction as C14. NOT decided by this check: the log variants (composition through np.log and Corr multiplication), m_eff "
            "(all variants), plateau and fit; identity of fluctuations rests on C01."),
    "C16": ("symbolic execution of _GEVP_solver over an abstract matrix ring with the defining equations of Cholesky factor, inverse and (generalised) symmetric eigen-decomposition as axioms; cvc5 / z3 as external processes; native numerical harness",
            "Proof: for both methods (`eigh`: scipy.linalg.eigh(Gt, G0); `cholesky`: L L^T = G0, eigenvectors of L^-1 Gt L^-T mapped back by "
            "L^-T) and with or without a precomputed inverse Cholesky factor, the rows of the returned array satisfy the generalised "
            "eigen-equation in matrix form G(t) V = G(t0) V Lambda with Lambda the eigenvalues in DESCENDING order (state 0 = largest), for "
            "symmetric positive definite G(t0); any dimension (the ring is abstract). Corr.prune: every entry of the pruned matrix is "
            "(v_i, G(t) v_j) for ALL i, j (no symmetry assumed; T in {1, 2}, Ntrunc = 2 unrolled). Corr.GEVP (sort by eigenvalue; T = 4, N = 3, t0 in "
            "{0, 1}, patterns of undefined timeslices enumerated): the result is arranged [state][time]; entries are undefined exactly for "
            "t <= t0 and for undefined timeslices, and otherwise row `state` of the solver applied to (central values of G(t), central values "
            "of G(t0)); with sort=None the single problem G(ts) against G(t0) is solved, ValueError iff ts <= t0 or the timeslice is undefined.",
            "DESIGN.md section 6 C16",
            "Assumed: numpy / scipy return eigenvalues in ascending order and satisfy the defining equations of the decompositions. NOT "
            "decided: Corr.GEVP with sort='Eigenvector' (_sort_vectors), the symmetrisation branch, Eigenvalue / projected, "
            "the Obs-valued branch, exact-exponential spectra, matrix_pencil_method (numerical statements outside the reach of contracts)."),
    "C17": ("symbolic execution of the configuration-selection statements of read_rwms (statement slice, filter / map summaries, ghost induction) and of check_idl + z3; native execution of the same slice",
            "Proof for read_rwms (one replica, one factor; lengths, configuration numbers, r_start / r_stop / r_step symbolic): the stored "
            "configuration numbers are divided by the measurement spacing (and shifted so that the first is 1 after thermalisation), for "
            "equally spaced files they become first + position (induction), r_start / r_stop are located by NUMBER (exception iff absent), "
            "and the factors kept are exactly every r_step-th one from the start to the stop position (count and elements). check_idl "
            "returns a string on every path (the UnboundLocalError for a complete list was found by this obligation and fixed). _read_flow_obs: "
            "configuration number = trajectory // steps // dtr_cnfg (first one moved to 1), r_start / r_stop located by number.",
            "DESIGN.md section 6 C17",
            "NOT decided: file discovery and ordering (_find_files, sort_names: regular expressions), the binary decoding of the factors "
            "(record loop: C18), openQCD 2.0 arrays, gradient-flow / ms5_xsf / sfcf / hadrons readers, several replicas and factors, that "
            "range(new[start], new[stop] + 1, r_step) has as many elements as factors were kept (needs a div/mod bound the lemma library "
            "does not provide)."),
    "C18": ("symbolic execution of the record loops as statement slices with the file length universally quantified; loop invariants over (position, records accepted)",
            "Proof for four record loops: _extract_flowed_energy_density, both branches (openQCD, sfqcd) of _read_flow_obs, and read_rwms "
            "(1.4/1.6, one factor), with the byte length L of the "
            "file a free symbol (every truncation offset at once): on normal exit every accepted record lies completely before the cut "
            "(pos0 + k*recsize <= L), fewer than 4 unread bytes remain, and a cut inside a record ends exceptionally. The invariant is "
            "position == pos0 + k*recsize; it failed for _extract_flowed_energy_density (unchecked last block) and for the sfqcd loop (blocks after "
            "`obspos` unchecked; ncs / iobs / obspos enumerated, tmax symbolic); both were fixed.",
            "DESIGN.md section 6 C18",
            "Assumed file model: read(n) returns min(n, remaining) bytes, struct.unpack raises unless the buffer has exactly calcsize bytes. NOT "
            "decided: read_rwms for openQCD 2.0 and several factors, read_ms5_xsf, read_pbp, sfcf text formats, json.gz / xml.gz / csv.gz archives; "
            "that an uncut file is read without an exception."),
    "C19": ("symbolic execution over a structured-string model of number formatting (which number, how many decimals, which flags) + z3; native parsing of the real strings",
            "Proof: _format_uncertainty(value, error, significance) renders the value with D = max(0, significance - 1 - floor(log10(error))) "
            "decimals and the error at the same decimal place (as integer error * 10^D or with D decimals), the plain value when the error is "
            "zero, TypeError / ValueError exactly for a non-int / non-positive significance (all reals, all integers); Obs.__str__ / __repr__ "
            "are that text with two significant digits; Obs.__format__ (enumerated specs) takes the significance from the spec and the '+' / ' ' "
            "flag only adds a leading character when the value is not negative; CObs.__str__ / __format__ print both parts this way; "
            "__lt__/__le__/__gt__/__ge__, __float__ and is_zero_within_error are exactly the stated functions of central value and error.",
            "DESIGN.md section 6 C19",
            "Assumed (pyvc/lib_fmt.py): CPython renders '{:.Nf}' correctly rounded and the first character of a rendering is '-' iff the "
            "number is negative; log10 uninterpreted, floor exact. NOT decided: _extract_val_and_dval / _construct_prior_obs (string parsing), "
            "Corr.plottable, is_zero itself, NaN / inf / negative-zero inputs, half-unit read-back accuracy (it is the correct rounding assumed above)."),
    "C20": ("exact finite evaluation of the AST tables + symbolic execution with z3 (all integers) + vjp identity over an uninterpreted K_n",
            "Proof. The module-level gamma matrices are read from the AST as exact Gaussian rationals and all Clifford / hermiticity / gamma5 "
            "relations and all 16 Grid_gamma branches are decided by exact arithmetic (finite domain, exhaustive). epsilon_tensor and "
            "epsilon_tensor_rank4 are executed symbolically and their postcondition (permutation sign, ValueError outside the domain) is "
            "discharged by z3 for ALL integer arguments. The vjp lambda of kn is executed symbolically and proved equal to "
            "-g/2 (K_{n-1}+K_{n+1}) with K uninterpreted.",
            "DESIGN.md section 6 C20",
            "Assumed: scipy.special.kn computes K_n; K_{-m} = K_m; the Bessel recurrence d/dx K_n = -(K_{n-1}+K_{n+1})/2 is the mathematical "
            "derivative (DLMF 10.29); autograd's defvjp mechanism; the re-exported autograd.scipy.special functions are not examined (not decided)."),
}

REASONS = {
    "C07": "The property is about the estimator least_squares returns: it is computed by iterative scipy / iminuit minimisers and by "
           "autograd Hessians inside one 500-line function whose result is only defined through those numerical procedures. A contract "
           "within reach of the verifier could state plumbing (degrees of freedom, ordering of keys) but not that the returned parameters "
           "equal the closed-form GLS solution - that needs convergence of the minimiser, which no pre/postcondition on the pyerrors code "
           "expresses or decides. No contract was built; nothing is claimed.",
    "C08": "Stationarity of the returned parameters and the implicit-function sensitivities depend on the convergence of the numerical "
           "minimiser / ODR and on autograd's exact Hessians; the part pyerrors itself writes is the same derived_observable(man_grad) "
           "hand-over that C09 verifies for roots.py. For fits.py it is embedded in code that cannot be symbolically executed (scipy.odr, "
           "minimiser objects); no contract was built; nothing is claimed.",
    "C11": "The json writer and reader build and consume lists of rows of symbolic length (a list of lists per replica, column_stack / "
           "tolist / nested comprehensions over 2-D arrays); the verifier's data model has sequences of scalars, 2-D float arrays and "
           "filter / map loop summaries, but no sequence of rows, so neither _gen_data_d_from_list nor _gen_obsd_from_datad / "
           "get_Obs_from_dict can be executed symbolically. The algebraic round-trip lemma alone (offsets cancel because the fluctuations "
           "of a replica sum to zero) would be a proof about a model, not about the code, and is therefore not claimed.",
}
NOT_APPLICABLE = {("C%02d" % i): REASONS.get("C%02d" % i, NOT_BUILT) for i in range(1, 21)}
for _k in CLAIMED:
    NOT_APPLICABLE.pop(_k, None)
