"""Which properties are claimed (and how), which are not (and why).  Edited by hand as the build proceeds."""

NOT_BUILT = "contracts for the functions this property depends on are not built yet (build in progress, see DESIGN.md section 9); nothing is claimed"

CLAIMED = {
    "C14": ("symbolic execution of the Corr methods with exact loop summaries + z3, contracts over all T and all undefined-slice patterns",
            "Proof (N = 1, real content). Each operator method (__add__, __sub__, __mul__, __truediv__, __neg__, __pow__, __abs__, reflected "
            "variants), each elementary function (log, exp, 12 functions through _apply_func_to_corr) and the index transformations reverse, "
            "thin, symmetric are executed symbolically from the current source for a correlator of symbolic length T with a symbolic "
            "pattern of undefined slices and partner kinds Corr / Obs / int / float; the postcondition states for EVERY timeslice that the "
            "result is undefined iff an operand is, and equals the operation on the operands' entries otherwise; writes to self, partners and "
            "arguments are frame obligations (this is how the print_range mutation of __repr__ was found and fixed).",
            "DESIGN.md section 6 C14",
            "Observables are abstracted by their central value (an identity of real functions lifts to observables by C01, assumed here); "
            "Obs objects are truthy; np.roll / Hankel / projected / trace / item / matrix_symmetric / T_symmetry / anti_symmetric, matrix-valued "
            "content (N > 1), complex content and complex or ndarray partners are NOT decided by this check; Corr.__init__ is an assumed contract; "
            "NaN filtering is vacuous over the reals."),
    "C15": ("symbolic execution of deriv / second_deriv with exact loop summaries + z3 over all T and undefined-slice patterns",
            "Proof (N = 1). deriv (symmetric, forward, backward, improved) and second_deriv (symmetric, big_symmetric, improved) are executed "
            "symbolically for symbolic T and a symbolic pattern of undefined slices; postcondition for every t: undefined iff a slice the "
            "documented formula references is undefined, otherwise equal to the documented finite-difference formula (linear real arithmetic), "
            "padding undefined, ValueError iff every output slice is undefined, and no TypeError on interior undefined slices (safe obligations; "
            "this is how the second_deriv defect was found and fixed).",
            "DESIGN.md section 6 C15",
            "Same abstraction as C14. NOT decided by this check: the log variants (composition through np.log and Corr multiplication), m_eff "
            "(all variants), plateau and fit; identity of fluctuations rests on C01."),
    "C20": ("exact finite evaluation of the AST tables + symbolic execution with z3 (all integers) + vjp identity over an uninterpreted K_n",
            "Proof. The module-level gamma matrices are read from the AST as exact Gaussian rationals and all Clifford / hermiticity / gamma5 "
            "relations and all 16 Grid_gamma branches are decided by exact arithmetic (finite domain, exhaustive). epsilon_tensor and "
            "epsilon_tensor_rank4 are executed symbolically and their postcondition (permutation sign, ValueError outside the domain) is "
            "discharged by z3 for ALL integer arguments. The vjp lambda of kn is executed symbolically and proved equal to "
            "-g/2 (K_{n-1}+K_{n+1}) with K uninterpreted.",
            "DESIGN.md section 6 C20",
            "Assumed: scipy.special.kn computes K_n; K_{-m} = K_m; the Bessel recurrence d/dx K_n = -(K_{n-1}+K_{n+1})/2 is the mathematical "
            "derivative (DLMF 10.29); autograd's defvjp mechanism; the re-exported autograd.scipy.special functions are not examined (not decided)."),
}

NOT_APPLICABLE = {("C%02d" % i): NOT_BUILT for i in range(1, 21)}
for _k in CLAIMED:
    NOT_APPLICABLE.pop(_k, None)
