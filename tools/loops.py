"""list the static loop ordinals of a function: python tools/loops.py pyerrors/input/openQCD.py _extract_flowed_energy_density"""
import ast, sys
src = open("/repo/" + sys.argv[1]).read()
tree = ast.parse(src)
for node in ast.walk(tree):
    if isinstance(node, ast.FunctionDef) and node.name == sys.argv[2]:
        loops = [n for n in ast.walk(node) if isinstance(n, (ast.For, ast.While))]
        loops.sort(key=lambda n: (n.lineno, n.col_offset))
        for i, n in enumerate(loops):
            print(i, type(n).__name__, n.lineno, ast.get_source_segment(src, n).splitlines()[0])
