"""C17: selection of configurations in the readers (index arithmetic), check_idl."""
import ast
from fractions import Fraction
import z3

from pyvc.specs import contract, Spec, Custom, Const, OneOf, Int, Real, Bool, Seq, Idl, IdlList
from pyvc.sym import (Sym, SInt, SReal, SBool, SSeq, SObj, SOpaque, CDict, CList, Len, At, And, Or, Not, Implies, Iff, Ite, ForAll, Exists, eq,
                      compare, fresh, wrap, tz, member, strictly_increasing, UNDEF)

UTILS = "pyerrors/input/utils.py"
OQCD = "pyerrors/input/openQCD.py"


# ---------------------------------------------------------------------------------------------------
# check_idl(idl, che): reports the requested configurations that are not in the list

def _ci_post(a, r):
    if not isinstance(a.idl, Sym):
        miss = [c for c in a.che if c not in a.idl]
        return {"lists exactly the missing configurations": r == ",".join(str(c) for c in miss)}
    return {"a string is returned": isinstance(r, str) or type(r).__name__ in ("SStr",) or (isinstance(r, SOpaque) and r.tag == "str")}


contract(
    UTILS + "::check_idl", props=["C17"],
    params=dict(idl=Idl(), che=Seq("int", "list")),
    loops={1: lambda k, v: {"nothing": True}},
    ensures=_ci_post,
    crosscheck=False, refute=False,
    note="the text itself is checked natively (strings assembled in a loop are opaque to the prover); the proof obligation is that "
         "every path returns a string without an exception",
)


# ---------------------------------------------------------------------------------------------------
# read_rwms: normalisation of the configuration numbers and selection r_start / r_stop / r_step (per replica)

def _sel_slice(mod, fnode):
    for node in ast.walk(fnode):
        if isinstance(node, ast.With):
            for i, st in enumerate(node.body):
                if isinstance(st, ast.Assign) and isinstance(st.targets[0], ast.Name) and st.targets[0].id == "diffmeas":
                    return node.body[i:]
    from pyvc.sym import CheckerError
    raise CheckerError("contract no longer binds: `diffmeas = ...` not found in read_rwms")


def _opt_int(name):
    return OneOf(none=Custom(lambda n, c, s: CList([None], "list"), native=lambda v, ev: [None]),
                 given=Custom(lambda n, c, s: CList([SInt(z3.Int(fresh(name)))], "list"), native=lambda v, ev: [int(ev(v.items[0]))]))


def _cl(a):
    x = a.configlist
    return x.items[0] if isinstance(x, CList) else x[0]


def _one(x):
    return x.items[0] if isinstance(x, CList) else x[0]


def _fd(x, d):
    from pyvc.sym import arith
    return arith("//", x, d) if isinstance(x, Sym) or isinstance(d, Sym) else x // d


def _norm_at(a, i):
    """normalised configuration number of position i (what the reader compares r_start / r_stop with)"""
    cl = _cl(a)
    n = Len(cl)
    d = At(cl, n - 1) - At(cl, n - 2)
    first = _fd(At(cl, 0), d)
    shift = Ite(And(first > 1, d > 1), first - 1, 0)
    return _fd(At(cl, i), d) - shift


def _sel_post(a, r):
    cl = _cl(a)                      # numbers as stored in the file
    n = Len(cl)
    d = At(cl, n - 1) - At(cl, n - 2)
    first = _fd(At(cl, 0), d)
    shift = Ite(And(first > 1, d > 1), first - 1, 0)
    new = _cl(r)
    tmp = _one(_one(a.tmp_array) if False else a.tmp_array)
    start, stop = _one(r.r_start_index), _one(r.r_stop_index)
    rs, re_ = _one(a.r_start), _one(a.r_stop)
    sel = _one(_one(r.deltas))
    step = a.r_step
    out = {
        "configuration numbers in units of the spacing (first one moved to 1 after thermalisation)":
            And(Len(new) == n, ForAll(0, n, lambda i: At(new, i) == _fd(At(cl, i), d) - shift)),
        "start index": (start == 0) if rs is None else And(start >= 0, start < n, At(new, start) == rs),
        "stop index": (stop == n - 1) if re_ is None else And(stop >= 0, stop < n, At(new, stop) == re_),
        "selected factors: every r_step-th from start to stop": And(
            Len(sel) == Ite(stop >= start, _fd(stop - start, step) + 1, 0),
            ForAll(0, Len(sel), lambda m: eq(At(sel, m), At(tmp, start + m * step)))),
    }
    # the range built afterwards, range(new[start], new[stop] + 1, r_step), gives the m-th selected factor the number new[start] + m r_step:
    # that is the configuration the factor was measured on
    out["lem.consecutive"] = ForAll(0, n - 1, lambda i: At(new, i + 1) == At(new, i) + 1)
    out["lem.affine"] = ("induct", "numbers are first + position", 0, n, lambda i: At(new, i) == At(new, 0) + i)
    out["configuration number = first number + position (so a stride in positions is the same stride in numbers)"] = ForAll(
        0, n, lambda i: At(new, i) == At(new, 0) + i)
    return out


def _sel_requires(a):
    cl = _cl(a)
    n = Len(cl)
    tmp = _one(a.tmp_array)
    return {"at least two configurations in the file": n >= 2,
            "one factor per configuration": Len(tmp) == n,
            "equally spaced measurements (anything else is rejected further down)": ForAll(0, n - 1, lambda i: At(cl, i + 1) - At(cl, i) == At(cl, 1) - At(cl, 0)),
            "increasing": At(cl, 1) > At(cl, 0)}


def _sel_gen(rng, case):
    n = rng.randint(2, 9)
    d = rng.choice([1, 1, 2, 4])
    first = rng.choice([1, d, 3 * d, 5])
    cl = [first + i * d for i in range(n)]
    norm = [c // d for c in cl]
    if norm[0] > 1 and d > 1:
        norm = [c - (norm[0] - 1) for c in norm]
    rs = [None] if case["r_start"] == "none" else [rng.choice(norm + [norm[-1] + 3])]
    re_ = [None] if case["r_stop"] == "none" else [rng.choice(norm + [norm[0] - 2])]
    return dict(configlist=[cl], r_start=rs, r_stop=re_, r_step=rng.choice([1, 1, 2, 3]), rep=0, r_start_index=[], r_stop_index=[], nrw=1,
                deltas=[[]], tmp_array=[[rng.uniform(0.5, 1.5) for _ in range(n)]])


contract(
    OQCD + "::read_rwms", name=OQCD + "::read_rwms[selection of configurations]", props=["C17"],
    slice=_sel_slice,
    params=dict(configlist=Custom(lambda n, c, s: CList([IdlList(min_len=2).make(n, c, s)], "list"), shapes=lambda b: list(range(2, b + 1)),
                                  native=lambda v, ev: [[int(ev(x)) for x in v.items[0].items]]),
                r_start=_opt_int("r_start"), r_stop=_opt_int("r_stop"), r_step=Int(lo=1), rep=Const(0),
                r_start_index=Custom(lambda n, c, s: CList([], "list"), native=lambda v, ev: []),
                r_stop_index=Custom(lambda n, c, s: CList([], "list"), native=lambda v, ev: []), nrw=Const(1),
                deltas=Custom(lambda n, c, s: CList([CList([], "list")], "list"), native=lambda v, ev: [[]]),
                tmp_array=Custom(lambda n, c, s: CList([Seq("real", "list").make(n, c, s)], "list"), shapes=lambda b: list(range(2, b + 1)),
                                 native=lambda v, ev: [[float(ev(x)) for x in v.items[0].items]])),
    requires=_sel_requires,
    writes=("configlist", "r_start_index", "r_stop_index", "deltas"),
    raises=[("Exception", lambda a: Or(
        False if _one(a.r_start) is None else Not(Exists(0, Len(_cl(a)), lambda i: _norm_at(a, i) == _one(a.r_start))),
        False if _one(a.r_stop) is None else Not(Exists(0, Len(_cl(a)), lambda i: _norm_at(a, i) == _one(a.r_stop)))))],
    ensures=_sel_post,
    native_slice=True, gen=_sel_gen, crosscheck=False, refute=False,
    slice_note="inside the per-replica `with open(...)` block of read_rwms: from `diffmeas = ...` to the append of the selected factors; "
               "live-in variables configlist, r_start, r_stop, r_step, rep = 0, r_start_index, r_stop_index, nrw = 1, deltas, tmp_array",
    note="one replica, one reweighting factor; lengths, configuration numbers, bounds and stride symbolic",
)


# ---------------------------------------------------------------------------------------------------
# _read_flow_obs: configuration numbers from the trajectory numbers, thermalisation offset, r_start / r_stop positions

def _flow_sel_slice(mod, fnode):
    """inside the per-file loop: from `configlist.append([tr // steps // dtr_cnfg ...])` to the r_stop handling"""
    for node in ast.walk(fnode):
        if isinstance(node, ast.For) and isinstance(node.target, ast.Tuple) and "files" in ast.dump(node.iter):
            body = node.body
            start = end = None
            for i, st in enumerate(body):
                if isinstance(st, ast.Expr) and isinstance(st.value, ast.Call) and "configlist" in ast.dump(st.value.func) and "dtr_cnfg" in ast.dump(st.value) and start is None:
                    start = i
                if isinstance(st, ast.If) and "r_stop" in ast.dump(st.test):
                    end = i
            if start is not None and end is not None:
                return body[start:end + 1]
    from pyvc.sym import CheckerError
    raise CheckerError("contract no longer binds: configuration-number block of _read_flow_obs not found")


def _flow_norm_at(a, i):
    tl = a.traj_list
    first = _fd(_fd(At(tl, 0), a.steps), a.dtr_cnfg)
    shift = Ite(first > 1, first - 1, 0)
    return _fd(_fd(At(tl, i), a.steps), a.dtr_cnfg) - shift


def _flow_sel_post(a, r):
    tl = a.traj_list
    n = Len(tl)
    new = _one(r.configlist) if not isinstance(r.configlist, CList) else r.configlist.items[-1]
    start, stop = _one(r.r_start_index), _one(r.r_stop_index)
    rs, re_ = _one(a.r_start), _one(a.r_stop)
    return {
        "configuration number = trajectory // steps // dtr_cnfg, first one moved to 1 after thermalisation":
            And(Len(new) == n, ForAll(0, n, lambda i: At(new, i) == _flow_norm_at(a, i))),
        "start index": (start == 0) if rs is None else And(start >= 0, start < n, At(new, start) == rs),
        "stop index": (stop == n - 1) if re_ is None else And(stop >= 0, stop < n, At(new, stop) == re_),
    }


def _flow_gen(rng, case):
    n = rng.randint(2, 9)
    steps = rng.choice([1, 2, 5])
    dtr = rng.choice([1, 1, 2])
    first = rng.choice([1, 2, 7]) * steps * dtr
    tl = [first + i * steps * dtr for i in range(n)]
    norm = [t // steps // dtr for t in tl]
    if norm[0] > 1:
        norm = [c - (norm[0] - 1) for c in norm]
    rs = [None] if case["r_start"] == "none" else [rng.choice(norm + [norm[-1] + 3])]
    re_ = [None] if case["r_stop"] == "none" else [rng.choice(norm + [norm[0] - 2])]
    return dict(traj_list=tl, steps=steps, dtr_cnfg=dtr, configlist=[], r_start=rs, r_stop=re_, rep=0, r_start_index=[], r_stop_index=[])


contract(
    OQCD + "::_read_flow_obs", name=OQCD + "::_read_flow_obs[configuration numbers and r_start / r_stop]", props=["C17"],
    slice=_flow_sel_slice,
    params=dict(traj_list=Custom(lambda n, c, s: IdlList(min_len=2).make(n, c, s), shapes=lambda b: list(range(2, b + 1)),
                                 native=lambda v, ev: [int(ev(x)) for x in v.items]),
                steps=Int(lo=1), dtr_cnfg=Int(lo=1),
                configlist=Custom(lambda n, c, s: CList([], "list"), native=lambda v, ev: []),
                r_start=_opt_int("r_start"), r_stop=_opt_int("r_stop"), rep=Const(0),
                r_start_index=Custom(lambda n, c, s: CList([], "list"), native=lambda v, ev: []),
                r_stop_index=Custom(lambda n, c, s: CList([], "list"), native=lambda v, ev: [])),
    writes=("configlist", "r_start_index", "r_stop_index"),
    raises=[("Exception", lambda a: Or(
        False if _one(a.r_start) is None else Not(Exists(0, Len(a.traj_list), lambda i: _flow_norm_at(a, i) == _one(a.r_start))),
        False if _one(a.r_stop) is None else Not(Exists(0, Len(a.traj_list), lambda i: _flow_norm_at(a, i) == _one(a.r_stop)))))],
    ensures=_flow_sel_post,
    native_slice=True, gen=_flow_gen, crosscheck=False, refute=False,
    slice_note="inside the per-file loop of _read_flow_obs: from `configlist.append([tr // steps // dtr_cnfg for tr in traj_list])` to the "
               "r_stop handling; live-in variables traj_list, steps, dtr_cnfg, configlist, r_start, r_stop, rep = 0, r_start_index, r_stop_index",
)
