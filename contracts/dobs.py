"""C12: the dobs reader keeps exactly the configurations the file marks as measured."""
import ast
from fractions import Fraction
import z3

from pyvc.specs import contract, Spec, Custom, Const, OneOf, Int, Real, Bool, Seq, IdlList
from pyvc.sym import (Sym, SInt, SReal, SBool, SSeq, SObj, SOpaque, CDict, CList, Len, At, And, Or, Not, Implies, Iff, Ite, ForAll, Exists, eq,
                      compare, fresh, wrap, tz, treal, strictly_increasing, UNDEF)

REL = "pyerrors/input/dobs.py"


def _reader_slice(mod, fnode):
    """`for name in names: ...` (adds the mean to the stored numbers) followed by the selection statements of the per-observable
    loop (up to and including the appends to deltas / idl / obs_names)"""
    first = second = None
    for st in fnode.body:
        if isinstance(st, ast.For) and isinstance(st.iter, ast.Name) and st.iter.id == "names" and first is None:
            first = st
        if isinstance(st, ast.For) and isinstance(st.target, ast.Name) and st.target.id == "i" and first is not None and st is not first \
                and any(isinstance(x, ast.For) and isinstance(x.iter, ast.Name) and x.iter.id == "names" for x in st.body) and second is None:
            second = st
    if first is None or second is None:
        from pyvc.sym import CheckerError
        raise CheckerError("contract no longer binds: the two selection loops of import_dobs_string were not found")
    out = [first]
    k = fnode.body.index(first)
    # initialisations of helper containers directly in front of the loop belong to the slice (e.g. `maskd = {}`)
    while k > 0 and isinstance(fnode.body[k - 1], ast.Assign) and isinstance(fnode.body[k - 1].value, (ast.Dict, ast.List)) \
            and not getattr(fnode.body[k - 1].value, "keys", getattr(fnode.body[k - 1].value, "elts", [])):
        out.insert(0, fnode.body[k - 1])
        k -= 1
    for st in second.body:
        out.append(st)
        if isinstance(st, ast.For) and isinstance(st.iter, ast.Name) and st.iter.id == "names":
            return out
    from pyvc.sym import CheckerError
    raise CheckerError("contract no longer binds: `for name in names` not found in the per-observable loop")


def _mk_deltad(name, ctx, shape):
    row = Seq("real", "ndarray", min_len=1).make(name + ".A.0", ctx, shape)
    return CDict({"A": CList([row], "list")})


def _mk_idld(name, ctx, shape):
    return CDict({"A": IdlList(min_len=1).make(name + ".A", ctx, shape)})


def _stored(a):
    return a.deltad.d["A"].items[0] if isinstance(a.deltad, CDict) else a.deltad["A"][0]


def _idl(a):
    return a.idld.d["A"] if isinstance(a.idld, CDict) else a.idld["A"]


def _mean0(a):
    return a.mean.items[0] if isinstance(a.mean, CList) else a.mean[0]


def _first(x):
    if isinstance(x, CList):
        return x.items[0] if x.items else None
    return x[0] if len(x) else None


def _reader_post(a, r):
    st, idl, mu = _stored(a), _idl(a), _mean0(a)
    n = Len(st)
    rd, ri = _first(r.deltas), _first(r.idl)
    measured_any = Exists(0, n, lambda j: At(st, j) != 0)
    if rd is None or ri is None:
        # the chain was dropped: only right if the file marks no configuration of it as measured
        return {"chain kept iff a configuration is marked as measured": Not(measured_any)}
    m = Len(ri)
    return {
        "chain kept iff a configuration is marked as measured": measured_any,
        "one name per kept chain": list(r.obs_names.items if isinstance(r.obs_names, CList) else r.obs_names) == ["A"],
        "same length": Len(rd) == m,
        "increasing": ForAll(0, m, lambda k: ForAll(0, k, lambda k2: At(ri, k2) < At(ri, k))),
        "only measured configurations, with sample = stored number + mean": ForAll(0, m, lambda k: Exists(0, n, lambda j: And(
            At(idl, j) == At(ri, k), At(st, j) != 0, eq(At(rd, k), At(st, j) + mu)))),
        # the format marks `not measured` by the number 0: every other configuration must come back
        "every measured configuration (stored number != 0)": ForAll(0, n, lambda j: Implies(At(st, j) != 0, Exists(0, m, lambda k: And(
            At(ri, k) == At(idl, j), eq(At(rd, k), At(st, j) + mu))))),
    }


def _tmp_inv(j, v):
    """first loop: tmp[q] = stored[q] + mean where the stored number is not the marker 0, else 0"""
    st = At(At_d(v.deltad, v.name), v.i)
    mu = At(v.mean, v.i)
    n = Len(st)
    return {"length": Len(v.tmp) == n,
            "done": ForAll(0, j, lambda q: eq(At(v.tmp, q), Ite(At(st, q) != 0, At(st, q) + mu, Fraction(0)))),
            "rest": ForAll(j, n, lambda q: eq(At(v.tmp, q), 0))}


def At_d(d, k):
    return d.d[k] if isinstance(d, CDict) else d[k]


def _reader_gen(rng, case):
    import numpy as np
    n = rng.randint(1, 7)
    mu = rng.choice([0.0, 1.0, -2.0, 0.5])
    st = np.array([rng.choice([0.0, 0.0, 1.0, -1.0, 2.0, -mu, 0.25, rng.uniform(-2, 2)]) for _ in range(n)], dtype=float)
    idl = sorted(rng.sample(range(1, 30), n))
    return dict(deltad={"A": [st]}, idld={"A": idl}, mean=[mu], names=["A"], i=0, deltas=[], idl=[], obs_names=[])


contract(
    REL + "::import_dobs_string", name=REL + "::import_dobs_string[selection of the measured configurations]", props=["C12"],
    slice=_reader_slice,
    params=dict(deltad=Custom(_mk_deltad, shapes=lambda b: list(range(1, b + 1)),
                              native=lambda v, ev: {"A": [__import__("numpy").array([float(ev(x)) for x in v.d["A"].items[0].items], dtype=float)]}),
                idld=Custom(_mk_idld, shapes=lambda b: list(range(1, b + 1)), native=lambda v, ev: {"A": [int(ev(x)) for x in v.d["A"].items]}),
                mean=Custom(lambda n, c, s: CList([SReal(z3.Real(fresh("mean0")))], "list"), native=lambda v, ev: [float(ev(v.items[0]))]),
                names=Const(CList(["A"], "list")), i=Const(0),
                deltas=Const(CList([], "list")), idl=Const(CList([], "list")), obs_names=Const(CList([], "list"))),
    requires=lambda a: {"one row per configuration": Len(_stored(a)) == Len(_idl(a))},
    writes=("deltad", "deltas", "idl", "obs_names"),
    loops={5: _tmp_inv},
    ensures=_reader_post,
    native_slice=True, gen=_reader_gen, crosscheck=False, refute=False,
    slice_note="the loop that adds the mean to the stored numbers and, for the first observable, the statements that select the "
               "configurations of each chain; live-in variables deltad, idld, mean, names (one chain 'A', one observable), i = 0",
    note="format convention: the number 0 in the per-configuration table means `not measured`",
)


# ---------------------------------------------------------------------------------------------------
# create_dobs_string: the table cell written for a configuration on which the observable WAS measured

def _cell_slice(mod, fnode):
    """body of `if o.idl[repname][counters[oi]] == ci:` in the per-configuration loop of create_dobs_string"""
    for node in ast.walk(fnode):
        if isinstance(node, ast.If) and isinstance(node.test, ast.Compare) and isinstance(node.test.comparators[0], ast.Name) \
                and node.test.comparators[0].id == "ci" and "counters" in ast.dump(node.test.left) and "idl" in ast.dump(node.test.left):
            return node.body
    from pyvc.sym import CheckerError
    raise CheckerError("contract no longer binds: `if o.idl[repname][counters[oi]] == ci` not found in create_dobs_string")


REP = "A|r1"


def _mk_o(name, ctx, shape):
    d = Seq("real", "ndarray", min_len=1).make(name + ".deltas", ctx, shape)
    i = IdlList(min_len=1).make(name + ".idl", ctx, shape)
    return SObj("Obs", {"deltas": CDict({REP: d}), "idl": CDict({REP: i})}, name=name)


def _o_native(v, ev):
    import types
    import numpy as np
    return types.SimpleNamespace(deltas={REP: np.array([float(ev(x)) for x in v.attrs["deltas"].d[REP].items], dtype=float)},
                                 idl={REP: [int(ev(x)) for x in v.attrs["idl"].d[REP].items]})


def _od(o, what):
    return o.attrs[what].d[REP] if isinstance(o, SObj) else getattr(o, what)[REP]


def _c0(a):
    return a.counters.items[0] if isinstance(a.counters, CList) else a.counters[0]


def _off0(a):
    return a.offsets.items[0] if isinstance(a.offsets, CList) else a.offsets[0]


def _cell_post(a, r):
    c = _c0(a)
    num = At(_od(a.o, "deltas"), c) + _off0(a)
    cnew = _first(r.counters)
    n = Len(_od(a.o, "idl"))
    out = {"counter advances (or -1 after the last configuration)": cnew == Ite(c + 1 >= n, -1, c + 1)}
    if isinstance(a.o, SObj):
        from pyvc.lib_fmt import parts_of
        ps = parts_of(r.data)
        ok = ps is not None and len(ps) == 2 and not isinstance(ps[0], str) and ps[0][0] == "efmt" and ps[1] == " "
        out["a measured configuration is written as its number, never as the marker 0"] = And(ok, eq(ps[0][1], num)) if ok else False
    else:
        txt = r.data
        out["a measured configuration is written as its number, never as the marker 0"] = (txt != "0 " and abs(float(txt) - float(num)) <= 1e-15 * abs(float(num)))
    return out


def _cell_gen(rng, case):
    import types
    import numpy as np
    n = rng.randint(1, 6)
    d = np.array([rng.choice([0.0, 0.5, -0.5, 1.0, 3e-9, -2e-12, 1e-300, rng.uniform(-1, 1)]) for _ in range(n)], dtype=float)
    idl = sorted(rng.sample(range(1, 20), n))
    c = rng.randrange(n)
    return dict(o=types.SimpleNamespace(deltas={REP: d}, idl={REP: idl}), repname=REP, counters=[c], oi=0, offsets=[rng.choice([0.0, 0.5, -0.5])],
                data="", ci=idl[c])


contract(
    REL + "::create_dobs_string", name=REL + "::create_dobs_string[cell of a measured configuration]", props=["C12"],
    slice=_cell_slice,
    params=dict(o=Custom(_mk_o, shapes=lambda b: list(range(1, 4)), native=_o_native), repname=Const(REP),
                counters=Custom(lambda n, c, s: CList([SInt(z3.Int(fresh("counter")))], "list"), native=lambda v, ev: [int(ev(v.items[0]))]),
                oi=Const(0),
                offsets=Custom(lambda n, c, s: CList([SReal(z3.Real(fresh("offset")))], "list"), native=lambda v, ev: [float(ev(v.items[0]))]),
                data=Const(""), ci=Int()),
    requires=lambda a: {"position of ci in the observable's list": And(_c0(a) >= 0, _c0(a) < Len(_od(a.o, "idl")), At(_od(a.o, "idl"), _c0(a)) == a.ci,
                                                                       Len(_od(a.o, "deltas")) == Len(_od(a.o, "idl")))},
    writes=("counters", "data"),
    ensures=_cell_post,
    native_slice=True, gen=_cell_gen, crosscheck=False,
    slice_note="the statements executed when the next configuration of the observable is the configuration of the current table row; "
               "live-in variables o, repname, counters, oi, offsets, data (= '' : the cell only), ci",
    note="offsets[oi] = replica mean - central value, so the number written is sample - central value; the format reserves the number 0 "
         "for `not measured`",
)


# ---------------------------------------------------------------------------------------------------
# import_dobs_string, covariance inputs: observable i gets column i of the stored gradient table (or the single column)

from pyvc.lib_mat import SMat, SRow  # noqa: E402

COVOBS = "pyerrors/covobs.py"

_COVOBS_STUB = contract(
    COVOBS + "::Covobs.__init__", props=[], assumed=True, register=False, name=COVOBS + "::Covobs.__init__[arguments recorded]",
    params=dict(self=Custom(lambda n, c, s: None), mean=Custom(lambda n, c, s: None), cov=Custom(lambda n, c, s: None),
                name=Custom(lambda n, c, s: None), pos=Custom(lambda n, c, s: None), grad=Custom(lambda n, c, s: None)),
    result=lambda a, ctx: SObj("Covobs", {"_cov_arg": a.cov, "_grad_arg": a.grad, "name": a.name}),
    note="the constructor is a stub that records the covariance and gradient it is given (its validation is a C04 contract)",
)


def _cdata_slice(mod, fnode):
    first = second = None
    for node in ast.walk(fnode):
        if isinstance(node, ast.If) and "grad" in ast.dump(node.test) and "shape" in ast.dump(node.test) and first is None:
            first = node
        if isinstance(node, ast.Assign) and isinstance(node.targets[0], ast.Name) and node.targets[0].id == "new_covobs" and second is None:
            second = node
    if first is None or second is None:
        from pyvc.sym import CheckerError
        raise CheckerError("contract no longer binds: gradient handling of covariance inputs not found in import_dobs_string")
    return [first, second]


def _mk_grad(cols):
    def make(name, ctx, shape):
        m = SMat.fresh(name)
        m.cols = cols
        ctx.assume(m.rows >= 1)
        return m
    return make


def _cdata_gen(rng, case):
    import numpy as np
    nobs = 2 if case["mean"] == "two" else 3
    cols = {"single": 1, "two": 2, "three": 3}[case["grad"]]
    ncov = rng.choice([nobs, nobs, 1, 2, 4])          # the square case (as many covariance entries as observables) included
    r = np.random.default_rng(rng.randint(0, 10 ** 6))
    grad = r.normal(size=(ncov, cols))
    from pyvc.native import repo_module
    return dict(grad=grad, mean=[1.0, 2.0, 3.0][:nobs], cname="c", gradd={}, covd={"c": np.eye(ncov)}, cnames=["c"], i=int(case["i"][1:]))


def _cdata_post(a, r):
    if not isinstance(a.grad, SMat):
        import numpy as np
        col = 0 if a.grad.shape[1] == 1 else a.i
        got = np.asarray(r.new_covobs["c"].grad, dtype=float).reshape(-1)
        return {"observable i gets d(obs_i)/d(cov entry k) = table[k][i] (single column: shared by all observables)":
                bool(got.shape == (a.grad.shape[0],) and np.allclose(got, a.grad[:, col]))}
    co = r.new_covobs.d["c"]
    g = co.attrs["_grad_arg"]
    grad = a.grad
    n = grad.rows
    i = a.i
    col = 0 if grad.cols == 1 else i
    if isinstance(g, SMat):
        ok = And(g.rows == n, ForAll(0, n, lambda k: eq(g.get(k, 0), grad.get(k, col))))
    elif isinstance(g, SRow):
        ok = And(g.mat.cols == n, ForAll(0, n, lambda k: eq(g.mat.get(g.i, k), grad.get(k, col))))
    else:
        ok = False
    return {"observable i gets d(obs_i)/d(cov entry k) = table[k][i] (single column: shared by all observables)": ok}


contract(
    REL + "::import_dobs_string", name=REL + "::import_dobs_string[gradients of covariance inputs]", props=["C12"],
    slice=_cdata_slice, overrides={COVOBS + "::Covobs.__init__": _COVOBS_STUB},
    params=dict(grad=OneOf(single=Custom(_mk_grad(1)), two=Custom(_mk_grad(2)), three=Custom(_mk_grad(3))),
                mean=OneOf(two=Const(CList([Fraction(1), Fraction(2)], "list")), three=Const(CList([Fraction(1), Fraction(2), Fraction(3)], "list"))),
                cname=Const("c"), gradd=Custom(lambda n, c, s: CDict()), covd=Custom(lambda n, c, s: CDict({"c": SOpaque("covmatrix")})),
                cnames=Const(CList(["c"], "list")), i=OneOf(i0=Const(0), i1=Const(1), i2=Const(2))),
    cases_filter=lambda case: (case["grad"] == "single" or case["grad"] == case["mean"]) and int(case["i"][1:]) < (2 if case["mean"] == "two" else 3),
    writes=("gradd",),
    ensures=_cdata_post,
    native_slice=True, gen=_cdata_gen, crosscheck=False, refute=False,
    slice_note="the `if grad.shape[1] == 1 ... else ...` statement of the cdata branch followed by the statement that builds the Covobs objects "
               "of observable i; live-in variables grad (symbolic number of covariance entries; 1, 2 or 3 observables), mean, cname, gradd, "
               "covd, cnames, i",
    bounded="2 or 3 observables per file (the list of observables is concrete); the number of covariance entries is symbolic",
)
