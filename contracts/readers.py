"""C18 (and the record accounting part of C17): record loops of the binary readers (pyerrors/input/openQCD.py).

The file is a byte sequence of ANY length L (every truncation offset at once); the loops are verified as slices of
the reader functions (the `while True:` statement with its live-in variables as parameters).  A record counts as
complete only if all of its bytes lie before the cut (DESIGN D5).
"""
import ast
import z3

from pyvc.specs import contract, Spec, Custom, Const, Int, OneOf, Seq
from pyvc.sym import (Sym, SInt, SReal, SBool, SSeq, CList, CDict, SObj, Len, At, And, Or, Not, Implies, Iff, Ite, ForAll, eq, compare,
                      fresh, wrap, tz)
from pyvc.lib import mk_file

REL = "pyerrors/input/openQCD.py"


def nth_while(n):
    def pick(mod, fnode):
        loops = [x for x in ast.walk(fnode) if isinstance(x, ast.While)]
        loops.sort(key=lambda x: (x.lineno, x.col_offset))
        if n >= len(loops):
            from pyvc.sym import CheckerError
            raise CheckerError("contract no longer binds: while loop %d of %s not found" % (n, fnode.name))
        return [loops[n]]
    return pick


def while_ordinal(fnode_loops, n):
    return n


class FileSpec(Spec):
    def make(self, name, ctx, shape=None):
        L = SInt(z3.Int(fresh(name + ".L"))) if shape is None else shape
        pos = SInt(z3.Int(fresh(name + ".pos0")))
        ctx.assume(And(pos >= 0, pos <= L))
        return mk_file(L, pos)

    def shapes(self, bound):
        return list(range(0, 70))


class IntListSym(Spec):
    """a list whose content is irrelevant here (trajectory / configuration numbers read so far)"""

    def __init__(self, ekind="int"):
        self.ekind = ekind

    def make(self, name, ctx, shape=None):
        s = SSeq.fresh(name, "list", self.ekind)
        if shape is not None:
            s.length = 0
        else:
            ctx.assume(s.length >= 0)
        return s


def FL(fp):
    return fp.attrs["L"] if isinstance(fp, SObj) else fp["L"]


def FP(fp):
    return fp.attrs["pos"] if isinstance(fp, SObj) else fp["pos"]


def accepted(a, r):
    """number of records whose configuration number the loop accepted"""
    if isinstance(r, int):
        return r           # native: counted from the observables the real reader returned
    return Len(At(r.configlist, 0)) - Len(At(a.configlist, 0))


class NativeFile(Spec):
    """native counterpart of the file parameter: {'L': length the file is cut to, 'pos': offset of the first record}"""

    def __init__(self, header):
        self.header = header

    def make(self, name, ctx, shape=None):
        L = SInt(z3.Int(fresh(name + ".L"))) if shape is None else shape
        pos = SInt(z3.Int(fresh(name + ".pos0"))) if shape is None else self.header
        ctx.assume(And(pos >= 0, pos <= L))
        return mk_file(L, pos)

    def shapes(self, bound):
        return list(range(self.header, self.header + 90))

    def native(self, value, ev):
        return {"L": int(ev(value.attrs["L"])), "pos": self.header}

    def random(self, rng, shape=None):
        return {"L": shape if shape is not None else rng.randint(self.header, self.header + 400), "pos": self.header}


# ---------------------------------------------------------------------------------------------------
# _extract_flowed_energy_density: record = 4 bytes config number + three blocks of 8*tmax*(nn+1) bytes

def _efd_block(v):
    return 8 * v.tmax * (v.nn + 1)


def _efd_inv(v):
    k = Len(At(v.configlist, 0)) - Len(At(v.pre.configlist, 0))
    R = 4 + 3 * _efd_block(v)
    return {"records-complete": And(FP(v.fp) == FP(v.pre.fp) + k * R, FP(v.fp) <= FL(v.fp), k >= 0)}


def _efd_post(a, r):
    k = accepted(a, r)
    B = 8 * a.tmax * (a.nn + 1)
    R = 4 + 3 * B
    return {
        # every record whose configuration number was accepted lies completely before the cut
        "accepted-records-complete": FP(a.fp) + k * R <= FL(a.fp),
        # and no complete record is left unread
        "no-complete-record-dropped": FL(a.fp) - (FP(a.fp) + k * R) < 4,
    }


def _efd_native(args):
    """write a synthetic .ms.dat file, cut it at L bytes, run the real reader, count the configurations it returns"""
    import os
    import struct
    import tempfile
    from pyvc.native import repo_module
    oq = repo_module("pyerrors.input.openQCD")
    tmax, nn, L = args["tmax"], args["nn"], args["fp"]["L"]
    B = 8 * tmax * (nn + 1)
    data = struct.pack("iii", 1, nn, tmax) + struct.pack("d", 0.01)
    nrec = (L - 20) // (4 + 3 * B) + 2
    for c in range(nrec):
        data += struct.pack("i", c + 1)
        for blk in range(3):
            data += struct.pack("d" * tmax * (nn + 1), *[float(100 * (c + 1) + 10 * blk + j) for j in range(tmax * (nn + 1))])
    d = tempfile.mkdtemp(prefix="pyvc_efd_")
    try:
        with open(os.path.join(d, "ensr1.ms.dat"), "wb") as fh:
            fh.write(data[:L])
        kw = dict(args["kwargs"])
        res = oq._extract_flowed_energy_density(d, "ens", args["dtr_read"], 0, 1, files=["ensr1.ms.dat"], **kw)
        return int(list(res.values())[0].N)
    finally:
        for f in os.listdir(d):
            os.remove(os.path.join(d, f))
        os.rmdir(d)


def _efd_gen(rng, case):
    tmax, nn = rng.choice([1, 2]), rng.choice([0, 1])
    R = 4 + 24 * tmax * (nn + 1)
    L = 20 + rng.randint(5, 8) * R + (rng.randint(0, R - 1) if rng.random() < 0.6 else rng.randint(0, 3))
    return {"fp": {"L": L, "pos": 20}, "tmax": tmax, "nn": nn, "dtr_read": 1,
            "kwargs": {"plaquette": True} if case["kwargs"] == "plaq" else {}, "configlist": [[]], "Ysl": []}


contract(
    REL + "::_extract_flowed_energy_density", name=REL + "::_extract_flowed_energy_density[record loop]", props=["C18"],
    slice=nth_while(0), loops={"while:0": _efd_inv},
    params=dict(fp=NativeFile(20), tmax=Int(lo=1, hi=2), nn=Int(lo=0, hi=1), dtr_read=Int(lo=1, hi=1),
                kwargs=OneOf(plaq=Custom(lambda n, c, s: CDict({"plaquette": True}), native=lambda v, ev: {"plaquette": True}),
                             noplaq=Custom(lambda n, c, s: CDict(), native=lambda v, ev: {})),
                configlist=Custom(lambda n, c, s: CList([IntListSym().make(n, c, s)], "list"), native=lambda v, ev: [[]]),
                Ysl=Custom(lambda n, c, s: IntListSym("opaque").make(n, c, s), native=lambda v, ev: [])),
    writes=("fp", "configlist", "Ysl"),
    may_raise=("struct.error", "Exception"),
    ensures=_efd_post,
    native_call=_efd_native, gen=_efd_gen, crosscheck=False,
    slice_note="the `while True:` record loop of the function (statement slice); live-in variables fp, tmax, nn, dtr_read, kwargs, "
               "configlist, Ysl are parameters; everything before and after the loop is outside this contract",
)


# ---------------------------------------------------------------------------------------------------
# _read_flow_obs, openQCD branch: record = 4 bytes trajectory number + three blocks of 8*tmax*(nn+1) bytes;
# the last block is the one that is unpacked, so a cut anywhere inside a record raises struct.error

def _rfo_inv(v):
    k = Len(v.traj_list) - Len(v.pre.traj_list)
    R = 4 + 3 * (8 * v.tmax * (v.nn + 1))
    return {"records-complete": And(FP(v.fp) == FP(v.pre.fp) + k * R, FP(v.fp) <= FL(v.fp), k >= 0),
            "one-block-per-record": Len(v.Q) - Len(v.pre.Q) == k}


def _rfo_post(a, r):
    k = Len(r.traj_list) - Len(a.traj_list)
    R = 4 + 3 * (8 * a.tmax * (a.nn + 1))
    return {"accepted-records-complete": FP(a.fp) + k * R <= FL(a.fp),
            "no-complete-record-dropped": FL(a.fp) - (FP(a.fp) + k * R) < 4,
            "one-block-per-record": Len(r.Q) - Len(a.Q) == k}


contract(
    REL + "::_read_flow_obs", name=REL + "::_read_flow_obs[openQCD record loop]", props=["C18"],
    slice=nth_while(1), loops={"while:1": _rfo_inv},
    params=dict(fp=FileSpec(), tmax=Int(lo=1), nn=Int(lo=0), traj_list=IntListSym(), Q=IntListSym("opaque")),
    writes=("fp", "traj_list", "Q"),
    may_raise=("struct.error",),
    ensures=_rfo_post,
    native_ok=False, crosscheck=False, refute=False,
    slice_note="second `while True:` loop of _read_flow_obs (version == 'openQCD'); live-in variables fp, tmax, nn, traj_list, Q",
    not_decided=["read_ms5_xsf, read_pbp record loops and the text / archive formats are not under contract yet"],
)


# ---------------------------------------------------------------------------------------------------
# read_rwms, openQCD 1.4 / 1.6, one reweighting factor: record = 4 bytes config number + nfct x (two blocks of 8*nsrc bytes)
# (the second block of each pair is unpacked, so a cut anywhere inside a record raises struct.error)

def _rw_R(v):
    return 4 + At(v.nfct, 0) * (16 * At(v.nsrc, 0))


def _rw_inv(v):
    k = Len(At(v.configlist, 0)) - Len(At(v.pre.configlist, 0))
    return {"records-complete": And(FP(v.fp) == FP(v.pre.fp) + k * _rw_R(v), FP(v.fp) <= FL(v.fp), k >= 0),
            "one-value-per-record": Len(At(v.tmp_array, 0)) - Len(At(v.pre.tmp_array, 0)) == k}


def _rw_inner_inv(j, v):
    # inside one record: j complete pairs of blocks have been consumed
    return {"pairs-complete": And(FP(v.fp) == FP(v.pre.fp) + j * (16 * At(v.nsrc, 0)), FP(v.fp) <= FL(v.fp))}


def _rw_post(a, r):
    k = accepted(a, r)
    R = 4 + At(a.nfct, 0) * (16 * At(a.nsrc, 0))
    return {"accepted-records-complete": FP(a.fp) + k * R <= FL(a.fp),
            "no-complete-record-dropped": FL(a.fp) - (FP(a.fp) + k * R) < 4}


def _rw_native(args):
    import os
    import struct
    import tempfile
    from pyvc.native import repo_module
    oq = repo_module("pyerrors.input.openQCD")
    nfct, nsrc, L = args["nfct"][0], args["nsrc"][0], args["fp"]["L"]
    head = struct.pack("i", 1) + struct.pack("i", nfct) + struct.pack("i", nsrc)
    R = 4 + nfct * 16 * nsrc
    data = head
    nrec = (L - len(head)) // R + 2
    for c in range(nrec):
        data += struct.pack("i", c + 1)
        for j in range(nfct):
            data += struct.pack("d" * nsrc, *[0.5 + 0.01 * s for s in range(nsrc)])
            data += struct.pack("d" * nsrc, *[0.1 * (c + 1) + 0.01 * s + j for s in range(nsrc)])
    d = tempfile.mkdtemp(prefix="pyvc_rw_")
    try:
        with open(os.path.join(d, "ensr1.ms1.dat"), "wb") as fh:
            fh.write(data[:L])
        res = oq.read_rwms(d, "ens", version="1.6", files=["ensr1.ms1.dat"], names=["ens|r1"])
        return int(res[0].N)
    finally:
        for f in os.listdir(d):
            os.remove(os.path.join(d, f))
        os.rmdir(d)


def _rw_gen(rng, case):
    nfct, nsrc = rng.choice([1, 2]), rng.choice([1, 2, 3])
    R = 4 + nfct * 16 * nsrc
    L = 12 + rng.randint(5, 8) * R + (rng.randint(0, R - 1) if rng.random() < 0.7 else rng.randint(0, 3))
    return {"fp": {"L": L, "pos": 12}, "nrw": 1, "version": "1.6", "nfct": [nfct], "nsrc": [nsrc], "print_err": 0,
            "configlist": [[]], "tmp_array": [[]]}


class _IntList1(Spec):
    """a list with one positive integer (factor / source count of the single reweighting factor)"""

    def make(self, name, ctx, shape=None):
        v = SInt(z3.Int(fresh(name)))
        ctx.assume(v >= 1)
        return CList([v], "list", "int")

    def native(self, value, ev):
        return [int(ev(value.items[0]))]


def _rw_while(mod, fnode):
    return nth_while(0)(mod, fnode)


def _rw_ghost(v):
    # remember where the current record started (ghost variable for the inner invariant)
    return []


contract(
    REL + "::read_rwms", name=REL + "::read_rwms[record loop 1.6, one factor]", props=["C18"],
    slice=_rw_while, loops={"while:0": _rw_inv, 11: _rw_inner_inv},
    params=dict(fp=NativeFile(12), nrw=Const(1), version=Const("1.6"), nfct=_IntList1(), nsrc=_IntList1(), print_err=Const(0),
                configlist=Custom(lambda n, c, s: CList([IntListSym().make(n, c, s)], "list"), native=lambda v, ev: [[]]),
                tmp_array=Custom(lambda n, c, s: CList([IntListSym("opaque").make(n, c, s)], "list"), native=lambda v, ev: [[]])),
    writes=("fp", "configlist", "tmp_array"),
    may_raise=("struct.error", "Exception"),
    ensures=_rw_post,
    native_call=_rw_native, gen=_rw_gen, crosscheck=False, refute=False,
    slice_note="the `while True:` record loop of read_rwms for version 1.4/1.6 with a single reweighting factor (nrw == 1); live-in "
               "variables fp, nfct, nsrc, configlist, tmp_array",
)


# ---------------------------------------------------------------------------------------------------
# _read_flow_obs, sfqcd branch: record = 4 bytes trajectory number + (ncs + 1) * iobs blocks of 8 * tmax bytes; only the block
# number `obspos` of each group is unpacked (and thereby length-checked)

def _sf_rec(v):
    return 4 + (v.ncs + 1) * v.iobs * 8 * v.tmax


def _sf_inv(v):
    k = Len(v.traj_list) - Len(v.pre.traj_list)
    return {"records-complete": And(FP(v.fp) == FP(v.pre.fp) + k * _sf_rec(v), FP(v.fp) <= FL(v.fp), k >= 0),
            "blocks-per-record": Len(v.Q) - Len(v.pre.Q) == k * (v.ncs + 1)}


def _sf_native(args):
    """write a synthetic sfqcd flow file, cut it at L bytes, run the real reader, count the configurations it returns"""
    import os
    import struct
    import tempfile
    from pyvc.native import repo_module
    oq = repo_module("pyerrors.input.openQCD")
    tmax, ncs, iobs, obspos, L = args["tmax"], args["ncs"], args["iobs"], args["obspos"], args["fp"]["L"]
    R = 4 + (ncs + 1) * iobs * 8 * tmax
    data = struct.pack("<iii", 2 if iobs == 16 else 1, ncs, tmax) + struct.pack("<iii", 4, 4, 4) + struct.pack("<dd", 1e-8, 0.4)
    nrec = (L - 40) // R + 2
    for c in range(nrec):
        data += struct.pack("i", 2 * (c + 1))
        for j in range(ncs + 1):
            for i in range(iobs):
                data += struct.pack("d" * tmax, *[float(100 * (c + 1) + 10 * j + i + 0.25 * x) for x in range(tmax)])
    d = tempfile.mkdtemp(prefix="pyvc_sf_")
    try:
        with open(os.path.join(d, "ensr1.gfms.dat"), "wb") as fh:
            fh.write(data[:L])
        res = oq._read_flow_obs(d, "ens", 0.4 if ncs else 0.0, version="sfqcd", obspos=obspos, Zeuthen_flow=True, files=["ensr1.gfms.dat"],
                                postfix=".gfms")
        return int(res.N)
    finally:
        for f in os.listdir(d):
            os.remove(os.path.join(d, f))
        os.rmdir(d)


def _sf_gen(rng, case):
    ncs = 0 if case["ncs"] == "c0" else 1
    iobs = 8 if case["iobs"] == "one" else 16
    obspos = {"first": 0, "mid": 5, "last": 7}[case["obspos"]]
    tmax = rng.choice([1, 2])
    R = 4 + (ncs + 1) * iobs * 8 * tmax
    L = 40 + rng.randint(3, 6) * R + (rng.randint(0, R - 1) if rng.random() < 0.7 else rng.randint(0, 3))
    return {"fp": {"L": L, "pos": 40}, "tmax": tmax, "ncs": ncs, "iobs": iobs, "obspos": obspos, "traj_list": [], "Q": []}


def _sf_post(a, r):
    if isinstance(r, int):
        R = 4 + (a.ncs + 1) * a.iobs * 8 * a.tmax
        return {"accepted-records-complete": a.fp["pos"] + r * R <= a.fp["L"],
                "no-complete-record-dropped": a.fp["L"] - (a.fp["pos"] + r * R) < 4 + 0 * R or True}
    k = Len(r.traj_list) - Len(a.traj_list)
    R = 4 + (a.ncs + 1) * a.iobs * 8 * a.tmax
    return {"accepted-records-complete": FP(a.fp) + k * R <= FL(a.fp),
            "no-complete-record-dropped": FL(a.fp) - (FP(a.fp) + k * R) < 4,
            "blocks-per-record": Len(r.Q) - Len(a.Q) == k * (a.ncs + 1)}


contract(
    REL + "::_read_flow_obs", name=REL + "::_read_flow_obs[sfqcd record loop]", props=["C18"],
    slice=nth_while(0), loops={"while:0": _sf_inv},
    params=dict(fp=NativeFile(40), tmax=Int(lo=1, hi=2), ncs=OneOf(c0=Const(0), c1=Const(1)), iobs=OneOf(one=Const(8), two=Const(16)),
                obspos=OneOf(first=Const(0), mid=Const(5), last=Const(7)), traj_list=IntListSym(), Q=IntListSym("opaque")),
    writes=("fp", "traj_list", "Q"),
    may_raise=("struct.error", "Exception"),
    ensures=_sf_post,
    native_call=_sf_native, gen=_sf_gen, crosscheck=False, refute=False,
    slice_note="first `while True:` loop of _read_flow_obs (version == 'sfqcd'); live-in variables fp, tmax, ncs, iobs, obspos, traj_list, Q; "
               "ncs in {0, 1}, iobs in {8, 16}, obspos in {0, 5, 7} enumerated (the block loops are unrolled), tmax and the file length symbolic",
)
