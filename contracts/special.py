"""C20: the modified Bessel function K_n and its hand-written vector-Jacobian product (pyerrors/special.py)."""
import ast
import z3

from pyvc.specs import contract, Int, Real, OneOf
from pyvc.sym import And, Or, Not, Implies, eq, wrap, tz, treal, SInt, SReal, Sym
from pyvc.lib import BESSEL_K

REL = "pyerrors/special.py"


def K(n, x):
    """K_n(x): uninterpreted in proofs, scipy's value in native evaluation"""
    if isinstance(n, Sym) or isinstance(x, Sym):
        return wrap(BESSEL_K(tz(n), treal(x)))
    import scipy.special
    return float(scipy.special.kn(int(n), float(x)))


def bessel_symmetry(x):
    if not isinstance(x, Sym):
        return True
    m, y = z3.Int("bs.m"), z3.Real("bs.y")
    return wrap(z3.ForAll([m, y], BESSEL_K(-m, y) == BESSEL_K(m, y)))


def is_integral(n):
    if isinstance(n, (int, SInt)):
        return True
    if isinstance(n, SReal):
        return wrap(z3.IsInt(n.t))
    return float(n) == int(n)


contract(
    REL + "::kn", props=["C20"],
    params=dict(n=OneOf(int=Int(lo=0, hi=8), real=Real()), x=Real()),
    requires=lambda a: {"x>0": a.x > 0},
    raises=[("TypeError", lambda a: Not(is_integral(a.n)))],
    ensures=lambda a, r: {"value": eq(r, K(a.n, a.x))} if not isinstance(a.n, (SReal, float)) else {},
    result=lambda a: Real(),
    gen=lambda rng, case: dict(n=rng.randint(0, 6) if case["n"] == "int" else rng.choice([0.5, 1.0, 2.5, 3.0]), x=rng.uniform(0.1, 10)),
    crosscheck=False,
    note="value part: the call is passed to scipy.special.kn unchanged (assumed to compute K_n)",
)


def _locate_vjp(mod):
    for node in mod.tree.body:
        if isinstance(node, ast.Expr) and isinstance(node.value, ast.Call) and isinstance(node.value.func, ast.Name) \
                and node.value.func.id == "defvjp":
            c = node.value
            if len(c.args) == 3 and isinstance(c.args[0], ast.Name) and c.args[0].id == "kn" and \
                    isinstance(c.args[1], ast.Constant) and c.args[1].value is None:
                if isinstance(c.args[2], ast.Lambda):
                    return c.args[2]
                if isinstance(c.args[2], ast.Name) and isinstance(mod.toplevel.get(c.args[2].id), ast.FunctionDef):
                    return mod.toplevel[c.args[2].id]      # vjp maker given as a named module-level function
    return None


def _native_vjp(args):
    import autograd
    from pyvc.native import repo_module
    sp = repo_module("pyerrors.special")
    # the cotangent handed to the vjp of kn is g: differentiate g * kn(n, x)
    return autograd.grad(lambda x: args["g"] * sp.kn(args["n"], x))(args["x"])


contract(
    REL + "::kn", name=REL + "::kn[vjp]", props=["C20"], locate=_locate_vjp, curry=("g",),
    params=dict(ans=Real(), n=Int(lo=0), x=Real(), g=Real()),
    requires=lambda a: {"x>0": a.x > 0, "assumed:K(-m)=K(m)": bessel_symmetry(a.x)},
    # d/dx K_n(x) = -(K_{n-1}(x) + K_{n+1}(x)) / 2, with K_{-m} = K_m (assumed: DLMF 10.29.1, 10.27.3)
    ensures=lambda a, r: {"derivative": eq(r, a.g * (-(K(a.n - 1, a.x) + K(a.n + 1, a.x)) / 2))},
    gen=lambda rng, case: dict(ans=0.0, n=rng.choice([0, 0, 1, 2, 3, 6]), x=rng.uniform(0.1, 10), g=rng.choice([-2.0, 0.5, 3.0])),
    native_call=_native_vjp, crosscheck=False, abstract_nl=False,
    slice_note="the lambda registered by defvjp(kn, None, <lambda>) at module level; argument 0 (the order) has no derivative (None)",
)


