"""Sidecar contracts, one module per repository module (DESIGN section 2.4)."""
MODULES = [
    "contracts.obs_kernel",
    "contracts.obs_grad",
    "contracts.obs_init",
    "contracts.obs_derived",
    "contracts.obs_ops",
    "contracts.obs_gamma",
    "contracts.obs_jack",
    "contracts.obs_types",
    "contracts.corr",
    "contracts.readers",
    "contracts.dirac",
    "contracts.special",
    "contracts.cov",
    "contracts.fmt",
    "contracts.calculus",
    "contracts.dobs",
]
