"""Sidecar contracts, one module per repository module (DESIGN section 2.4)."""
MODULES = [
    "contracts.obs_kernel",
    "contracts.obs_grad",
    "contracts.corr",
    "contracts.dirac",
    "contracts.special",
]
