"""Contracts of the index kernel of pyerrors/obs.py (DESIGN section 5, layer L1)."""
from pyvc.specs import contract, Int, Real, RealSeq, Idl, IdlList, IdlRange, ListOf, Seq, Const, OneOf
from pyvc import gen as G
from pyvc.sym import (Len, At, And, Or, Not, Implies, Iff, Ite, ForAll, Exists, eq, is_range, member,
                      strictly_increasing, compare, arith, Step, Start)


def First(x):
    return At(x, 0)


def Last(x):
    return At(x, Len(x) - 1)


def subset(x, y):
    """every configuration of idl x occurs in idl y"""
    return ForAll(0, Len(x), lambda i: member(At(x, i), y))


def pyeq(x, y):
    """Python == on two idls: same kind and same sequence (range == list is False)"""
    if is_range(x) != is_range(y):
        return False
    return And(Len(x) == Len(y), ForAll(0, Len(x), lambda i: At(x, i) == At(y, i)))


# ---------------------------------------------------------------------------------------------------
# _expand_deltas_for_merge(deltas, idx, shape, new_idx, scalefactor)
#   C01: scatter to the union, zero where not measured, up-weight by |new|/|old| and the scale factor

def _edfm_post(a, r):
    f = Len(a.new_idx) / Len(a.idx) * a.scalefactor
    return {
        "len": Len(r) == Len(a.new_idx),
        # measured configurations carry their own fluctuation, rescaled
        "hit": ForAll(0, Len(a.new_idx), lambda k: ForAll(0, Len(a.idx), lambda j: Implies(
            At(a.idx, j) == At(a.new_idx, k), eq(At(r, k), At(a.deltas, j) * Len(a.new_idx) / Len(a.idx) * a.scalefactor)))),
        # configurations the input was not measured on contribute zero
        "miss": ForAll(0, Len(a.new_idx), lambda k: Implies(
            ForAll(0, Len(a.idx), lambda j: At(a.idx, j) != At(a.new_idx, k)), eq(At(r, k), 0))),
    }


def _edfm_inv(k, v):
    ret, idx, new_idx, deltas = v.ret, v.idx, v.new_idx, v.deltas
    off = At(new_idx, 0)
    return {
        "len": Len(ret) == At(new_idx, Len(new_idx) - 1) - off + 1,
        "stored": ForAll(0, k, lambda j: eq(At(ret, At(idx, j) - off), At(deltas, j))),
        "zero": ForAll(0, Len(ret), lambda c: Implies(ForAll(0, k, lambda j: At(idx, j) - off != c), eq(At(ret, c), 0))),
    }


def _edfm_gen(rng, case):
    new_idx = G.idl(rng, case["new_idx"])
    idx = G.sub_idl(rng, new_idx, case["idx"])
    if rng.random() < 0.3 and case["idx"] == case["new_idx"]:
        idx = new_idx
    return dict(deltas=G.reals(rng, len(idx)), idx=idx, shape=len(idx), new_idx=new_idx,
                scalefactor=rng.choice([1, 1.0, 2.0, 1.5, 0.5]))


contract(
    "pyerrors/obs.py::_expand_deltas_for_merge", props=["C01", "C04"],
    params=dict(deltas=RealSeq(), idx=Idl(), shape=Int(), new_idx=Idl(), scalefactor=Real()),
    requires=lambda a: {
        "shape": And(a.shape == Len(a.idx), Len(a.deltas) == a.shape),
        "subset": subset(a.idx, a.new_idx),
    },
    ensures=_edfm_post,
    loops={0: _edfm_inv},
    result=lambda a: RealSeq(),
    gen=lambda rng, case: _edfm_gen(rng, case),
    note="whole function; result stated for every k of the union (hit and miss clauses)",
)


# ---------------------------------------------------------------------------------------------------
# _expand_deltas(deltas, idx, shape, gapsize)
#   C02: zero filling of gaps on the lattice of spacing gapsize

def _ed_post(a, r):
    g = a.gapsize
    n = (At(a.idx, Len(a.idx) - 1) - At(a.idx, 0)) // g + 1
    lem = {}
    if is_range(a.idx):
        # intermediate assertion (proved first, then available to the clauses below)
        lem["lem.identity"] = Implies(Step(a.idx) == g, ForAll(0, Len(a.idx), lambda i: (At(a.idx, i) - At(a.idx, 0)) // g == i))
    return {
        **lem,
        "len": Len(r) == n,
        "hit": ForAll(0, Len(a.idx), lambda i: eq(At(r, (At(a.idx, i) - At(a.idx, 0)) // g), At(a.deltas, i))),
        "miss": ForAll(0, n, lambda c: Implies(ForAll(0, Len(a.idx), lambda i: (At(a.idx, i) - At(a.idx, 0)) // g != c),
                                               eq(At(r, c), 0))),
    }


def _ed_inv(k, v):
    ret, idx, deltas, g = v.ret, v.idx, v.deltas, v.gapsize
    return {
        "len": Len(ret) == (At(idx, Len(idx) - 1) - At(idx, 0) + g) // g,
        "stored": ForAll(0, k, lambda i: eq(At(ret, (At(idx, i) - At(idx, 0)) // g), At(deltas, i))),
        "zero": ForAll(0, Len(ret), lambda c: Implies(ForAll(0, k, lambda i: (At(idx, i) - At(idx, 0)) // g != c),
                                                      eq(At(ret, c), 0))),
    }


def _ed_gen(rng, case):
    g = rng.choice([1, 1, 2, 3])
    idx = G.lattice_idl(rng, case["idx"], g)
    return dict(deltas=G.reals(rng, len(idx)), idx=idx, shape=len(idx), gapsize=g)


contract(
    "pyerrors/obs.py::_expand_deltas", props=["C02", "C03"],
    params=dict(deltas=RealSeq(), idx=Idl(closed_form=True), shape=Int(), gapsize=Int(lo=1)),
    requires=lambda a: {
        "shape": And(a.shape == Len(a.idx), Len(a.deltas) == a.shape),
        # every configuration lies on the lattice first + m*gapsize (established by _determine_gap)
        "lattice": ForAll(0, Len(a.idx), lambda i: (At(a.idx, i) - At(a.idx, 0)) % a.gapsize == 0),
    },
    ensures=_ed_post,
    loops={0: _ed_inv},
    result=lambda a: RealSeq(),
    gen=lambda rng, case: _ed_gen(rng, case),
)
