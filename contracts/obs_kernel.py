"""Contracts of the index kernel of pyerrors/obs.py (DESIGN section 5, layer L1)."""
import z3
from pyvc.specs import contract, Int, Real, RealSeq, Idl, IdlList, IdlRange, ListOf, Seq, Const, OneOf, Custom
from pyvc.sym import SBool, fresh, wrap
from pyvc import gen as G
from pyvc.sym import (Len, At, And, Or, Not, Implies, Iff, Ite, ForAll, Exists, eq, is_range, member,
                      strictly_increasing, compare, arith, Step, Start)


def First(x):
    return At(x, 0)


def Last(x):
    return At(x, Len(x) - 1)


def subset(x, y):
    """every configuration of idl x occurs in idl y"""
    if x is y:
        return True
    return ForAll(0, Len(x), lambda i: member(At(x, i), y))


def pyeq(x, y):
    """Python == on two idls: same kind and same sequence (range == list is False)"""
    if is_range(x) != is_range(y):
        return False
    return And(Len(x) == Len(y), ForAll(0, Len(x), lambda i: At(x, i) == At(y, i)))


# ---------------------------------------------------------------------------------------------------
# _expand_deltas_for_merge(deltas, idx, shape, new_idx, scalefactor)
#   C01: scatter to the union, zero where not measured, up-weight by |new|/|old| and the scale factor

def _edfm_post(a, r):
    f = Len(a.new_idx) / Len(a.idx) * a.scalefactor
    lem = {}
    if is_range(a.idx) and is_range(a.new_idx):
        # intermediate assertions for the identical-ranges shortcut (proved first, then used by the clauses below)
        lem["lem.cancel"] = Implies(Len(a.new_idx) == Len(a.idx), ForAll(0, Len(a.idx), lambda k: eq(
            At(a.deltas, k) * Len(a.new_idx) / Len(a.idx) * a.scalefactor, At(a.deltas, k) * a.scalefactor)))
        lem["lem.same-position"] = Implies(pyeq(a.idx, a.new_idx), ForAll(0, Len(a.new_idx), lambda k: ForAll(0, Len(a.idx), lambda j: Implies(
            At(a.idx, j) == At(a.new_idx, k), j == k))))
    return {
        **lem,
        "len": Len(r) == Len(a.new_idx),
        # measured configurations carry their own fluctuation, rescaled
        "hit": ForAll(0, Len(a.new_idx), lambda k: ForAll(0, Len(a.idx), lambda j: Implies(
            At(a.idx, j) == At(a.new_idx, k), eq(At(r, k), At(a.deltas, j) * Len(a.new_idx) / Len(a.idx) * a.scalefactor)))),
        # configurations the input was not measured on contribute zero
        "miss": ForAll(0, Len(a.new_idx), lambda k: Implies(
            ForAll(0, Len(a.idx), lambda j: At(a.idx, j) != At(a.new_idx, k)), eq(At(r, k), 0))),
    }


def _edfm_inv(k, v):
    ret, idx, new_idx, deltas = v.ret, v.idx, v.new_idx, v.deltas
    off = At(new_idx, 0)
    return {
        "len": Len(ret) == At(new_idx, Len(new_idx) - 1) - off + 1,
        "stored": ForAll(0, k, lambda j: eq(At(ret, At(idx, j) - off), At(deltas, j))),
        "zero": ForAll(0, Len(ret), lambda c: Implies(ForAll(0, k, lambda j: At(idx, j) - off != c), eq(At(ret, c), 0))),
    }


def _edfm_gen(rng, case):
    new_idx = G.idl(rng, case["new_idx"])
    idx = G.sub_idl(rng, new_idx, case["idx"])
    if rng.random() < 0.3 and case["idx"] == case["new_idx"]:
        idx = new_idx
    return dict(deltas=G.reals(rng, len(idx)), idx=idx, shape=len(idx), new_idx=new_idx,
                scalefactor=rng.choice([1, 1.0, 2.0, 1.5, 0.5]))


contract(
    "pyerrors/obs.py::_expand_deltas_for_merge", props=["C01", "C04"],
    params=dict(deltas=RealSeq(), idx=Idl(), shape=Int(), new_idx=Idl(), scalefactor=Real()),
    requires=lambda a: {
        "shape": And(a.shape == Len(a.idx), Len(a.deltas) == a.shape),
        "subset": subset(a.idx, a.new_idx),
    },
    ensures=_edfm_post,
    loops={0: _edfm_inv},
    result=lambda a: RealSeq(),
    gen=lambda rng, case: _edfm_gen(rng, case),
    note="whole function; result stated for every k of the union (hit and miss clauses)",
)


# ---------------------------------------------------------------------------------------------------
# _expand_deltas(deltas, idx, shape, gapsize)
#   C02: zero filling of gaps on the lattice of spacing gapsize

def _ed_post(a, r):
    g = a.gapsize
    n = (At(a.idx, Len(a.idx) - 1) - At(a.idx, 0)) // g + 1
    lem = {}
    if is_range(a.idx):
        # intermediate assertion (proved first, then available to the clauses below)
        lem["lem.identity"] = Implies(Step(a.idx) == g, ForAll(0, Len(a.idx), lambda i: (At(a.idx, i) - At(a.idx, 0)) // g == i))
    return {
        **lem,
        "len": Len(r) == n,
        "hit": ForAll(0, Len(a.idx), lambda i: eq(At(r, (At(a.idx, i) - At(a.idx, 0)) // g), At(a.deltas, i))),
        "miss": ForAll(0, n, lambda c: Implies(ForAll(0, Len(a.idx), lambda i: (At(a.idx, i) - At(a.idx, 0)) // g != c),
                                               eq(At(r, c), 0))),
    }


def _ed_inv(k, v):
    ret, idx, deltas, g = v.ret, v.idx, v.deltas, v.gapsize
    return {
        "len": Len(ret) == (At(idx, Len(idx) - 1) - At(idx, 0) + g) // g,
        "stored": ForAll(0, k, lambda i: eq(At(ret, (At(idx, i) - At(idx, 0)) // g), At(deltas, i))),
        "zero": ForAll(0, Len(ret), lambda c: Implies(ForAll(0, k, lambda i: (At(idx, i) - At(idx, 0)) // g != c),
                                                      eq(At(ret, c), 0))),
    }


def _ed_gen(rng, case):
    g = rng.choice([1, 1, 2, 3])
    idx = G.lattice_idl(rng, case["idx"], g)
    return dict(deltas=G.reals(rng, len(idx)), idx=idx, shape=len(idx), gapsize=g)


contract(
    "pyerrors/obs.py::_expand_deltas", props=["C02", "C03"],
    params=dict(deltas=RealSeq(), idx=Idl(closed_form=True), shape=Int(), gapsize=Int(lo=1)),
    requires=lambda a: {
        "shape": And(a.shape == Len(a.idx), Len(a.deltas) == a.shape),
        # every configuration lies on the lattice first + m*gapsize (established by _determine_gap)
        "lattice": ForAll(0, Len(a.idx), lambda i: (At(a.idx, i) - At(a.idx, 0)) % a.gapsize == 0),
    },
    ensures=_ed_post,
    loops={0: _ed_inv},
    result=lambda a: RealSeq(),
    gen=lambda rng, case: _ed_gen(rng, case),
)


# ---------------------------------------------------------------------------------------------------
# _check_lists_equal(idl):  True iff all elements are == (Python equality: same kind and same sequence)

def _cle_post(a, r):
    items = a.idl
    n = Len(items)
    return {"iff": Iff(r, And(*[pyeq(At(items, i), At(items, i + 1)) for i in range(n - 1)]))}


contract(
    "pyerrors/obs.py::_check_lists_equal", props=["C01", "C05", "C06"],
    params=dict(idl=ListOf(Idl(), counts=(1, 2, 3))),
    ensures=_cle_post,
    result=lambda a: Custom(lambda name, ctx, shape: SBool(z3.Bool(fresh(name)))),
    note="np.ndarray elements (np.nditer branch) are outside the contract: internal callers pass ranges and lists",
    not_decided=["_check_lists_equal on ndarray elements (np.nditer comparison) is not modelled"],
)


# ---------------------------------------------------------------------------------------------------
# _merge_idx(idl): union of the configuration lists, as a range exactly when equally spaced

def in_some(c, items):
    return Or(*[member(c, At(items, m)) for m in range(Len(items))])


def equally_spaced(x):
    """list x (len >= 2) has constant adjacent difference"""
    return ForAll(0, Len(x) - 1, lambda i: At(x, i + 1) - At(x, i) == At(x, 1) - At(x, 0))


def all_pyeq(items):
    return And(*[pyeq(At(items, i), At(items, i + 1)) for i in range(Len(items) - 1)])


def _union_facts(a, r):
    items = a.idl
    return {
        "sorted": strictly_increasing(r),
        "sound": ForAll(0, Len(r), lambda k: in_some(At(r, k), items)),
        "complete": And(*[ForAll(0, Len(At(items, m)), lambda i, m=m: member(At(At(items, m), i), r)) for m in range(Len(items))]),
    }


def _mi_post(a, r):
    items = a.idl
    same = all_pyeq(items)
    out = {"shortcut": Implies(same, pyeq(r, At(items, 0)))}
    for k, f in _union_facts(a, r).items():
        out[k] = f
    # held as a range exactly when the union is equally spaced (or the inputs were all the same range)
    if is_range(r):
        out["range-kind"] = Or(same, equally_spaced_idl(r))
    else:
        out["list-kind"] = Or(same, Not(equally_spaced_idl(r)))
    return out


def equally_spaced_idl(r):
    if is_range(r):
        return True
    return And(Len(r) >= 2, equally_spaced(r))


def _mi_result(a, ctx):
    """at a call site: the operands' common list if they are all equal, otherwise a fresh range or list (the kind is decided
    by a case split; the postcondition, assumed afterwards, ties it to the spacing of the union)"""
    from pyvc.sym import tb, sym_range, range_axioms, SSeq, SInt
    items = a.idl.items if hasattr(a.idl, "items") else list(a.idl)
    same = all_pyeq(a.idl)
    if same is True or (same is not False and ctx.branch(tb(same))):
        return items[0]
    if ctx.choice("merged-list-is-a-range"):
        r = sym_range("merged", SInt(z3.Int(fresh("merged.start"))), SInt(z3.Int(fresh("merged.step"))), SInt(z3.Int(fresh("merged.n"))))
        for ax in range_axioms(r):
            ctx.assume(wrap(ax))
        return r
    u = SSeq.fresh("merged", "list", "int")
    ctx.assume(u.length >= 0)
    return u


contract(
    "pyerrors/obs.py::_merge_idx", props=["C01", "C04"],
    params=dict(idl=ListOf(Idl(min_len=2), counts=(1, 2, 3))),
    # call sites pass the configuration lists of well-formed observables (>= 5 configurations each); two
    # configurations per list are what the code needs: a one-element range next to an equal one-element list
    # (range(1, 2) and [1]) makes `idunion[1]` raise IndexError
    requires=lambda a: {"two": And(*[Len(At(a.idl, m)) >= 2 for m in range(Len(a.idl))])},
    ensures=_mi_post,
    result=_mi_result,
    ghost_after={"idrange": lambda v: [
        # if the union is equally spaced, the candidate range enumerates exactly the union (induction over the index)
        ("induct", "range-equals-union", 0, Ite(Len(v.idrange) < Len(v.idunion), Len(v.idrange), Len(v.idunion)),
         lambda i: Implies(equally_spaced(v.idunion), At(v.idrange, i) == At(v.idunion, i))),
    ]},
    gen=lambda rng, case: {"idl": _gen_idls(rng, case["idl"])},
    note="number of operand lists enumerated (1..3); lengths, configuration numbers and kinds unbounded",
)


def _gen_idls(rng, label):
    kinds = label.strip("[]").split(";")
    base = G.idl(rng, "range", n=rng.randint(2, 6))
    out = []
    for k in kinds:
        r = rng.random()
        if r < 0.35:
            out.append(base if k == "range" else list(base))
        elif r < 0.7:
            out.append(G.sub_idl(rng, base, k))
        else:
            out.append(G.idl(rng, k))
    return out


# ---------------------------------------------------------------------------------------------------
# _intersection_idx(idl)

def in_all(c, items):
    return And(*[member(c, At(items, m)) for m in range(Len(items))])


def _ii_post(a, r):
    items = a.idl
    same = all_pyeq(items)
    out = {
        "shortcut": Implies(same, pyeq(r, At(items, 0))),
        "sorted": strictly_increasing(r),
        "sound": ForAll(0, Len(r), lambda k: in_all(At(r, k), items)),
        "complete": ForAll(0, Len(At(items, 0)), lambda i: Implies(in_all(At(At(items, 0), i), items), member(At(At(items, 0), i), r))),
    }
    if is_range(r):
        out["range-kind"] = Or(same, True)
    else:
        out["list-kind"] = Or(same, Not(equally_spaced_idl(r)))
    return out


contract(
    "pyerrors/obs.py::_intersection_idx", props=["C06"],
    params=dict(idl=ListOf(Idl(), counts=(1, 2))),
    requires=lambda a: {"nonempty": And(*[Len(At(a.idl, m)) >= 1 for m in range(Len(a.idl))])},
    ensures=_ii_post,
    ghost_after={"idrange": lambda v: [
        ("induct", "range-equals-intersection", 0, Ite(Len(v.idrange) < Len(v.idinter), Len(v.idrange), Len(v.idinter)),
         lambda i: Implies(equally_spaced(v.idinter), At(v.idrange, i) == At(v.idinter, i))),
    ]},
    gen=lambda rng, case: {"idl": _gen_idls(rng, case["idl"])},
)


# ---------------------------------------------------------------------------------------------------
# _reduce_deltas(deltas, idx_old, idx_new): gather by configuration number, never by position

contract(
    "pyerrors/obs.py::_reduce_deltas", props=["C05", "C06"],
    params=dict(deltas=RealSeq(), idx_old=Idl(), idx_new=Idl()),
    raises=[("ValueError", lambda a: Or(Len(a.deltas) != Len(a.idx_old), Not(subset(a.idx_new, a.idx_old))))],
    ensures=lambda a, r: {
        "len": Len(r) == Len(a.idx_new),
        "gather": ForAll(0, Len(a.idx_new), lambda k: ForAll(0, Len(a.idx_old), lambda j: Implies(
            At(a.idx_old, j) == At(a.idx_new, k), eq(At(r, k), At(a.deltas, j))))),
    },
    result=lambda a: RealSeq(),
    ghost_after={"indices": lambda v: _rd_ghost(v)},
    gen=lambda rng, case: _rd_gen(rng, case),
)


def _rd_ghost(v):
    """counting argument behind `len(indices) < len(idx_new)`: the common configurations, enumerated in increasing
    order, are a sub-sequence of idx_new; it has full length iff it is idx_new itself."""
    ind, old, new = v.indices, v.idx_old, v.idx_new
    ib = ind.skolem["ib"]                      # position in idx_new of the k-th common configuration
    pos = ind.skolem["pos"]                    # position in `indices` of an index of idx_old that is common
    n, m = Len(ind), Len(new)
    from pyvc.sym import SInt
    import z3 as _z3
    ibk = lambda k: SInt(_z3.Select(ib.arr, k.t if hasattr(k, "t") else k))
    return [
        # the k-th common configuration sits at position >= k of idx_new ...
        ("induct", "ib-lower", 0, n, lambda k: ibk(k) >= k),
        # ... and at position <= m-1-(n-1-k); with n >= m both bounds meet: ib is the identity
        ("induct_down", "ib-upper", 0, n, lambda k: ibk(k) <= m - n + k),
        ("assert", "ib-identity", Implies(n >= m, ForAll(0, m, lambda k: ibk(k) == k))),
        ("assert", "aligned", Implies(n >= m, ForAll(0, m, lambda k: At(old, At(ind, k)) == At(new, k)))),
        # conversely: if every configuration of idx_new is in idx_old, the i-th one is the k-th common one for some k >= i
        # (stated without an existential: `pos` is the position in `indices` of an index of idx_old)
        ("induct", "all-common", 0, m, lambda i: Implies(subset(new, old), ForAll(0, Len(old), lambda j: Implies(
            At(old, j) == At(new, i), SInt(pos(j.t if hasattr(j, "t") else j)) >= i)))),
    ]


def _rd_gen(rng, case):
    old = G.idl(rng, case["idx_old"])
    new = G.sub_idl(rng, old, case["idx_new"]) if rng.random() < 0.8 else G.idl(rng, case["idx_new"])
    n = len(old) if rng.random() < 0.9 else len(old) + 1
    return dict(deltas=G.reals(rng, n), idx_old=old, idx_new=new)
