"""C19: value(error) strings and scalar views of observables."""
from fractions import Fraction
import z3

from pyvc.specs import contract, Spec, Custom, Const, OneOf, Int, Real, Bool
from pyvc.sym import (Sym, SInt, SReal, SBool, SObj, SOpaque, CDict, CList, Len, At, And, Or, Not, Implies, Iff, Ite, eq, compare, fresh, wrap, tz,
                      treal, uf, UNDEF)
from pyvc.lib_fmt import SStr, parts_of, mk

REL = "pyerrors/obs.py"


# ---------------------------------------------------------------------------------------------------
# _format_uncertainty(value, dvalue, significance)

def _fexp(d):
    """floor(log10(d)) as an integer (log10 uninterpreted)"""
    return wrap(z3.ToInt(uf("log10")(treal(d))))


def _max0(x):
    return Ite(x >= 0, x, 0)


def _num_like(p, x, dec):
    """the part p renders x with `dec` decimals (fixed point; the minimal width does not matter)"""
    if isinstance(p, str) or p[0] != "num" or p[4] != "":
        return False
    return And(eq(p[1], x), eq(p[2], dec))


def _fu_post_native(a, r):
    """the same postcondition on a real string: parse value(error) and compare decimal places and numbers"""
    import math
    import re
    v, d, sig = float(a.value), float(a.dvalue), a.significance
    if d == 0:
        return {"no error: plain value": r == str(a.value)}
    m = re.fullmatch(r"(-?\d+)(?:\.(\d+))?\((\d+)(?:\.(\d+))?\)", r)
    if m is None:
        return {"value(error) with matching decimal places": False}
    fe = math.floor(math.log10(d))
    D = max(0, sig - 1 - fe)
    vdec = len(m.group(2) or "")
    shown_v = float(m.group(1) + ("." + m.group(2) if m.group(2) else ""))
    half = 0.5 * 10.0 ** (-D) * (1 + 1e-9) + 1e-15 * abs(v)
    ok = vdec == D and abs(shown_v - v) <= half
    if m.group(4) is None:
        ok = ok and abs(int(m.group(3)) - d * 10.0 ** D) <= 0.5 * (1 + 1e-9)
    else:
        ok = ok and len(m.group(4)) == D and abs(float(m.group(3) + "." + m.group(4)) - d) <= half
    return {"value(error) with matching decimal places": ok}


def _fu_gen(rng, case):
    if case["significance"] == "float":
        return dict(value=rng.uniform(-5, 5), dvalue=rng.choice([0.0, 0.3]), significance=2.0)
    e = rng.randint(-6, 5)
    # mantissas away from a power of ten, and mantissas whose rounding carries into the next decade (9.96 -> 10)
    d = rng.choice([0.0, rng.uniform(1.05, 9.4) * 10.0 ** e, rng.uniform(1.05, 9.4) * 10.0 ** e, rng.choice([9.96, 9.996, 9.51, 9.9996]) * 10.0 ** e])
    return dict(value=rng.choice([0.0, 1.0, -1.0]) * rng.uniform(0.001, 3000) , dvalue=d, significance=rng.choice([-1, 0, 1, 2, 2, 3, 4, 5]))


def _fu_post(a, r):
    if isinstance(r, str) and not isinstance(a.value, Sym):
        return _fu_post_native(a, r)
    v, d, sig = a.value, a.dvalue, a.significance
    ps = parts_of(r)
    if ps is None:
        return {"structured": False}
    fe = _fexp(d)
    D = _max0(sig - 1 - fe)
    plain = And(len(ps) == 1, (not isinstance(ps[0], str)) and ps[0][0] == "pystr" and eq(ps[0][1], v))
    if len(ps) == 4 and ps[1] == "(" and ps[3] == ")":
        # the error either in units of the last shown digit of the value (integer error * 10^D) or as a number with D decimals:
        # both read back as the same error (parenthesis notation); pyerrors uses the first form below one and the second above
        scaled = d * wrap(uf("pow", 2)(z3.RealVal(10), treal(D)))
        full = And(_num_like(ps[0], v, D), Or(_num_like(ps[2], scaled, 0), _num_like(ps[2], d, D)))
    else:
        full = False
    return {
        "no error: plain value": Implies(d == 0, plain),
        # the value is rounded at the decimal place of the last shown digit of the error: D = max(0, significance - 1 - floor(log10(error)))
        # decimals; below one the error is shown as the integer error * 10^D (so `significance` digits), else with D decimals
        "value(error) with matching decimal places": Implies(d != 0, full),
    }


contract(
    REL + "::_format_uncertainty", props=["C19"],
    params=dict(value=Real(), dvalue=Real(), significance=OneOf(int=Int(), float=Real())),
    requires=lambda a: {"non-negative error": a.dvalue >= 0},
    raises=[("TypeError", lambda a: And(a.dvalue != 0, not isinstance(a.significance, (int, SInt)))),
            ("ValueError", lambda a: And(a.dvalue != 0, isinstance(a.significance, (int, SInt)) and a.significance < 1))],
    ensures=_fu_post,
    gen=_fu_gen, crosscheck=False, refute=False,
    note="strings are structured (pyvc/lib_fmt.py): the postcondition fixes which number is rendered with how many decimals; the "
         "character-level behaviour of CPython's float formatting (correct rounding) is assumed",
)


# ---------------------------------------------------------------------------------------------------
# Obs.__str__ / __repr__ / __format__, CObs.__str__ / __format__: composition of _format_uncertainty

def FU(v, d, sig):
    """the text _format_uncertainty(v, d, sig) (it starts with the rendering of v: clause `value(error)...` above)"""
    return SStr([("lead", v, d, sig, "format_uncertainty")])


_FU_STUB = contract(
    REL + "::_format_uncertainty", props=[], assumed=True, register=False, name=REL + "::_format_uncertainty[text as a function of the arguments]",
    params=dict(value=Custom(lambda n, c, s: None), dvalue=Custom(lambda n, c, s: None), significance=Custom(lambda n, c, s: None)),
    result=lambda a, ctx: FU(a.value, a.dvalue, a.significance if "significance" in a.__dict__ and a.significance is not None else 2),
    note="inside __str__ / __format__ the formatted text is a symbol in (value, error, significance); its first character is '-' iff "
         "value < 0 (consequence of the postcondition proved for _format_uncertainty)",
)


def _scalar_obs(name, ctx, shape=None):
    return SObj("Obs", {"_value": SReal(z3.Real(fresh(name + ".value"))), "_dvalue": SReal(z3.Real(fresh(name + ".dvalue"))),
                        "names": CList(["A"], "list"), "_covobs": CDict()}, name=name)


def _native_scalar_obs(rng):
    import numpy as np
    from pyvc.native import repo_module
    pe = repo_module("pyerrors.obs")
    n = rng.choice([10, 25])
    r = np.random.default_rng(rng.randint(0, 10 ** 6))
    o = pe.Obs([r.normal(size=n) * rng.choice([0.01, 1.0, 300.0]) + rng.choice([-2.5, 0.0, 0.3, 1234.5])], ["A"])
    if rng.random() < 0.85:
        o.gamma_method()
    return o


def _obs_from_model(value, ev):
    """an observable whose central value and error are the ones of the counter-model (set on the attributes the code reads)"""
    import random
    o = _native_scalar_obs(random.Random(1))
    o._value = float(ev(value.attrs["_value"]))
    o._dvalue = float(ev(value.attrs["_dvalue"]))
    return o


OBS = Custom(_scalar_obs, random=lambda rng, shape=None: _native_scalar_obs(rng), native=_obs_from_model)


def _val(o):
    return o.attrs["_value"] if isinstance(o, SObj) else float(o.value)


def _dval(o):
    return o.attrs["_dvalue"] if isinstance(o, SObj) else float(o._dvalue)


def _text_eq(r, expected, native_expected):
    """symbolic: structural equality with the expected parts; native: the real strings"""
    from pyvc.lib_fmt import sstr_eq
    if isinstance(r, str) and native_expected is not None:
        return r == native_expected()
    return sstr_eq(r, expected)


def _nfu(o, sig=2):
    from pyvc.native import repo_module
    return repo_module("pyerrors.obs")._format_uncertainty(o.value, o._dvalue, sig)


contract(
    REL + "::Obs.__str__", props=["C19"], overrides={REL + "::_format_uncertainty": _FU_STUB},
    params=dict(self=OBS), result=lambda a, ctx: FU(_val(a.self), _dval(a.self), 2),
    ensures=lambda a, r: {"value(error) with two significant digits": _text_eq(
        r, FU(_val(a.self), _dval(a.self), 2) if isinstance(a.self, SObj) else None, lambda: _nfu(a.self))},
    crosscheck=False, refute=False,
)

contract(
    REL + "::Obs.__repr__", props=["C19"], overrides={REL + "::_format_uncertainty": _FU_STUB},
    params=dict(self=OBS),
    ensures=lambda a, r: {"Obs[value(error)]": _text_eq(
        r, mk(["Obs["] + FU(_val(a.self), _dval(a.self), 2).parts + ["]"]) if isinstance(a.self, SObj) else None,
        lambda: "Obs[" + _nfu(a.self) + "]")},
    crosscheck=False, refute=False,
)

FORMAT_TYPES = ["", "2", "3", "1", "+2", "+", " 3", "-2", "+4", " ", "-", "2.0", "+3.0"]


def _fmt_sig(ft):
    """significance requested by a format spec, or None if the spec is rejected (ValueError of float())"""
    if ft == "":
        return 2
    try:
        return int(float(ft.replace("+", "").replace("-", "")))
    except ValueError:
        return None


def _obs_format_expected(o, ft):
    sig = _fmt_sig(ft)
    body = FU(_val(o), _dval(o), sig)
    lead = ft[0] if ft[:1] in ("+", " ") else ""
    if not lead:
        return body, None
    return body, lead


def _obs_format_post(a, r):
    ft = a.format_type
    sig = _fmt_sig(ft)
    if not isinstance(a.self, SObj):
        base = _nfu(a.self, sig)
        lead = ft[0] if ft[:1] in ("+", " ") and not base.startswith("-") else ""
        return {"flags only affect the leading character": r == lead + base}
    from pyvc.lib_fmt import sstr_eq
    body, lead = _obs_format_expected(a.self, ft)
    if lead is None:
        return {"flags only affect the leading character": sstr_eq(r, body)}
    neg = _val(a.self) < 0
    return {"flags only affect the leading character": And(Implies(neg, sstr_eq(r, body)), Implies(Not(neg), sstr_eq(r, mk([lead] + body.parts))))}


def _obs_format_result(a, ctx):
    from pyvc.sym import tb
    body, lead = _obs_format_expected(a.self, a.format_type)
    if lead is None or ctx.branch(tb(_val(a.self) < 0)):
        return body
    return mk([lead] + body.parts)


contract(
    REL + "::Obs.__format__", props=["C19"], overrides={REL + "::_format_uncertainty": _FU_STUB}, result=_obs_format_result,
    params=dict(self=OBS, format_type=OneOf(**{("ft%d" % i): Const(ft) for i, ft in enumerate(FORMAT_TYPES)})),
    raises=[("ValueError", lambda a: _fmt_sig(a.format_type) is None)],
    ensures=_obs_format_post,
    crosscheck=False, refute=False,
    note="format specs enumerated: %r" % (FORMAT_TYPES,),
)


def _cobs(name, ctx, shape=None):
    return SObj("CObs", {"_real": _scalar_obs(name + ".re", ctx), "_imag": _scalar_obs(name + ".im", ctx)}, name=name)


def _native_cobs(rng):
    from pyvc.native import repo_module
    pe = repo_module("pyerrors.obs")
    return pe.CObs(_native_scalar_obs(rng), _native_scalar_obs(rng))


COBS = Custom(_cobs, random=lambda rng, shape=None: _native_cobs(rng))


def _part(o, which):
    if isinstance(o, SObj):
        return o.attrs["_" + which]
    return getattr(o, which)


def _cobs_str_post(a, r):
    re_, im_ = _part(a.self, "real"), _part(a.self, "imag")
    if not isinstance(a.self, SObj):
        return {"both parts as value(error)": r == "(" + _nfu(re_) + ("+" if im_.value >= 0.0 else "") + _nfu(im_) + "j)"}
    from pyvc.lib_fmt import sstr_eq
    exp = mk(["("] + FU(_val(re_), _dval(re_), 2).parts + [("if", _val(im_) >= 0, "+")] + FU(_val(im_), _dval(im_), 2).parts + ["j)"])
    return {"both parts as value(error)": sstr_eq(r, exp)}


contract(
    REL + "::CObs.__str__", props=["C19"], overrides={REL + "::_format_uncertainty": _FU_STUB},
    params=dict(self=COBS),
    ensures=_cobs_str_post,
    crosscheck=False, refute=False,
)

CFORMAT_TYPES = ["", "2", "3", "+2", " 3"]


def _cobs_format_post(a, r):
    ft = a.format_type
    sig = _fmt_sig(ft)
    ft_re = ft if ft != "" else "2"
    re_, im_ = _part(a.self, "real"), _part(a.self, "imag")
    if not isinstance(a.self, SObj):
        def one(o, spec):
            s_ = _fmt_sig(spec)
            base = _nfu(o, s_)
            return (spec[0] if spec[:1] in ("+", " ") and not base.startswith("-") else "") + base
        return {"both parts, imaginary part with explicit sign": r == "(" + one(re_, ft_re) + one(im_, "+%d" % sig) + "j)"}
    from pyvc.lib_fmt import sstr_eq
    out = {}
    lead_re = ft_re[0] if ft_re[:1] in ("+", " ") else ""
    for nr in (False, True):
        for ni in (False, True):
            cond = And((_val(re_) < 0) if nr else Not(_val(re_) < 0), (_val(im_) < 0) if ni else Not(_val(im_) < 0))
            exp = mk(["("] + ([] if nr or not lead_re else [lead_re]) + FU(_val(re_), _dval(re_), sig).parts
                     + ([] if ni else ["+"]) + FU(_val(im_), _dval(im_), sig).parts + ["j)"])
            out["both parts, imaginary part with explicit sign.%s%s" % ("-" if nr else "+", "-" if ni else "+")] = Implies(cond, sstr_eq(r, exp))
    return out


contract(
    REL + "::CObs.__format__", props=["C19"], overrides={REL + "::_format_uncertainty": _FU_STUB},
    params=dict(self=COBS, format_type=OneOf(**{("ft%d" % i): Const(ft) for i, ft in enumerate(CFORMAT_TYPES)})),
    ensures=_cobs_format_post,
    crosscheck=False, refute=False,
    note="format specs enumerated: %r" % (CFORMAT_TYPES,),
)


# ---------------------------------------------------------------------------------------------------
# scalar views: ordering comparisons, float(), zero-within-n-sigma use exactly the central value and the error

def _cmp_gen(rng, case):
    o = _native_scalar_obs(rng)
    if case["other"] == "int":
        other = rng.choice([int(round(o.value)), 0, 1, -2])
    else:
        other = rng.choice([float(o.value), float(o.value), float(o.value) + 0.5, float(o.value) - 0.25, 0.0])
    return dict(self=o, other=other)


_CMP = {"__lt__": lambda x, y: x < y, "__le__": lambda x, y: x <= y, "__gt__": lambda x, y: x > y, "__ge__": lambda x, y: x >= y}

for _m, _f in _CMP.items():
    contract(
        REL + "::Obs." + _m, props=["C19"],
        params=dict(self=OBS, other=OneOf(float=Real(), int=Int())),
        ensures=(lambda f: lambda a, r: {"compares the central value": Iff(r, f(_val(a.self), a.other))})(_f),
        result=(lambda f: lambda a, ctx: f(_val(a.self), a.other))(_f),
        gen=lambda rng, case: _cmp_gen(rng, case),
        crosscheck=False,
    )

contract(
    REL + "::Obs.__float__", props=["C19"],
    params=dict(self=OBS),
    ensures=lambda a, r: {"the central value": eq(r, _val(a.self))},
    result=lambda a, ctx: _val(a.self),
    crosscheck=False, refute=False,
)

IS_ZERO = z3.Function("obs_is_zero", z3.RealSort(), z3.BoolSort())

_IZ_STUB = contract(
    REL + "::Obs.is_zero", props=[], assumed=True, register=False, name=REL + "::Obs.is_zero[uninterpreted]",
    params=dict(self=Custom(lambda n, c, s: None)),
    result=lambda a, ctx: wrap(IS_ZERO(treal(_val(a.self)))),
    note="inside is_zero_within_error the exact-zero test is an uninterpreted predicate of the observable",
)


def _izw_post(a, r):
    if not isinstance(a.self, SObj):
        iz = bool(a.self.is_zero())
        return {"zero or |value| <= sigma * error": bool(r) == (iz or abs(a.self.value) <= a.sigma * a.self._dvalue)}
    iz = wrap(IS_ZERO(treal(_val(a.self))))
    absv = Ite(_val(a.self) >= 0, _val(a.self), -_val(a.self))
    return {"zero or |value| <= sigma * error": Iff(r, Or(iz, absv <= a.sigma * _dval(a.self)))}


contract(
    REL + "::Obs.is_zero_within_error", props=["C19"], overrides={REL + "::Obs.is_zero": _IZ_STUB},
    params=dict(self=OBS, sigma=OneOf(int=Int(lo=0), float=Real())),
    ensures=_izw_post,
    abstract_nl=False,
    crosscheck=False,
)
