"""C01 (part 3): every built-in operator / function of Obs and CObs hands the true analytic derivative to
derived_observable.

For every call  derived_observable(<lambda>, [<inputs>], man_grad=[...])  found in the AST of class Obs / CObs the
lambda body is executed symbolically over real variables, differentiated by the rule table below (part of the
trusted base), and  man_grad[i] == d(body)/d(x_i)  is discharged by z3 over the reals (transcendental functions
uninterpreted) for all argument values inside the domain.  A second obligation pins the value function itself
(the lambda must compute the operation the method is named after).
"""
import ast
import copy
from fractions import Fraction
import time
import z3

from pyvc.specs import contract, Contract
from pyvc.sym import SReal, SInt, CList, SObj, CheckerError, tz, treal, wrap, uf, fresh
from pyvc.interp import Interp, Env
from pyvc.driver import Run, PathCtx
from pyvc.lib import Lib

REL = "pyerrors/obs.py"

# ---- rule table: derivative of an uninterpreted real function w.r.t. its argument ------------------------------
def _d_unary(name, t):
    f = uf(name)
    if name == "sin":
        return uf("cos")(t)
    if name == "cos":
        return -uf("sin")(t)
    if name == "tan":
        return 1 / (uf("cos")(t) * uf("cos")(t))
    if name == "exp":
        return uf("exp")(t)
    if name == "log":
        return 1 / t
    if name == "sqrt":
        return 1 / (2 * uf("sqrt")(t))
    if name == "sinh":
        return uf("cosh")(t)
    if name == "cosh":
        return uf("sinh")(t)
    if name == "tanh":
        return 1 / (uf("cosh")(t) * uf("cosh")(t))
    raise CheckerError("no derivative rule for %s" % name)


RULES_TEXT = ("d sin=cos, d cos=-sin, d tan=1/cos^2, d exp=exp, d log=1/x, d sqrt=1/(2 sqrt), d sinh=cosh, d cosh=sinh, "
              "d tanh=1/cosh^2, d pow(a,b)=b*pow(a,b-1)*da + pow(a,b)*log(a)*db, sum/product/quotient rules")


def ddx(t, v):
    """derivative of the real z3 term t with respect to the constant v"""
    if t.eq(v):
        return z3.RealVal(1)
    if z3.is_rational_value(t) or z3.is_int_value(t):
        return z3.RealVal(0)
    if z3.is_const(t):
        return z3.RealVal(0)
    k = t.decl().kind()
    ch = t.children()
    if k == z3.Z3_OP_ADD:
        return z3.Sum([ddx(c, v) for c in ch])
    if k == z3.Z3_OP_SUB:
        r = ddx(ch[0], v)
        for c in ch[1:]:
            r = r - ddx(c, v)
        return r
    if k == z3.Z3_OP_UMINUS:
        return -ddx(ch[0], v)
    if k == z3.Z3_OP_MUL:
        terms = []
        for i in range(len(ch)):
            p = ddx(ch[i], v)
            for j in range(len(ch)):
                if j != i:
                    p = p * ch[j]
            terms.append(p)
        return z3.Sum(terms)
    if k == z3.Z3_OP_DIV:
        a, b = ch
        return (ddx(a, v) * b - a * ddx(b, v)) / (b * b)
    if k == z3.Z3_OP_TO_REAL:
        return z3.RealVal(0)
    if k == z3.Z3_OP_UNINTERPRETED:
        name = t.decl().name()
        if name == "uf_pow":
            a, b = ch
            return b * uf("pow", 2)(a, b - 1) * ddx(a, v) + t * uf("log")(a) * ddx(b, v)
        if name.startswith("uf_") and len(ch) == 1:
            return _d_unary(name[3:], ch[0]) * ddx(ch[0], v)
    raise CheckerError("no derivative rule for term %s" % t)


# ---- what each method is documented to compute (value function), in terms of (self value s, partner value o) -----
def _expected_value(method, s, o):
    u = lambda n: (lambda t: uf(n)(t))
    table = {
        "__add__": lambda: s + o, "__mul__": lambda: s * o, "__sub__": lambda: s - o,
        "__truediv__": lambda: s / o, "__rtruediv__": lambda: o / s,
        "__pow__": lambda: uf("pow", 2)(s, o), "__rpow__": lambda: uf("pow", 2)(o, s),
    }
    for n in ("sqrt", "log", "exp", "sin", "cos", "tan", "sinh", "cosh", "tanh", "arcsin", "arccos", "arctan", "arcsinh", "arccosh",
              "arctanh"):
        table[n] = (lambda n=n: uf(n)(s))
    if method == "__abs__":
        return z3.If(s >= 0, s, -s)
    if method not in table:
        return None
    return table[method]()


class _Dummy:
    pass


def _mini_interp(reg):
    mod = reg.module(REL)
    lib = Lib()
    C = _Dummy()
    C.short, C.name, C.target = "grad", "grad", REL + "::Obs"
    run = Run.__new__(Run)
    run.C, run.case, run.registry, run.contracts, run.lib = C, {}, reg, {}, lib
    run.shape_mode, run.shape, run.fuel, run.work, run.obls = False, None, 8, [[]], {}
    run.relies_on, run.npaths, run.solver_s, run.lib_axioms = set(), 0, 0.0, []
    run.concrete_args = run.on_refuted = run.cur_args = None
    run.inline_all = False
    ctx = PathCtx(run, [])
    return Interp(ctx, mod, lib, {}, None), ctx


def _find_calls(fn):
    out = []
    for node in ast.walk(fn):
        if isinstance(node, ast.Call) and isinstance(node.func, ast.Name) and node.func.id == "derived_observable":
            out.append(node)
    return out


class _Subst(ast.NodeTransformer):
    """<input expression>.value  ->  Name(__Xk)"""

    def __init__(self, inputs):
        self.inputs = [ast.dump(i) for i in inputs]

    def visit_Attribute(self, node):
        if node.attr == "value" and ast.dump(node.value) in self.inputs:
            return ast.copy_location(ast.Name(id="__X%d" % self.inputs.index(ast.dump(node.value)), ctx=ast.Load()), node)
        return self.generic_visit(node)


def grad_obligations(reg):
    from pyvc.sym import ABSTRACT_NL, ABSTRACT_REAL
    ABSTRACT_REAL[0] = False
    ABSTRACT_NL[0] = False      # these obligations are about real arithmetic itself: products stay interpreted
    mod = reg.module(REL)
    out = []
    n_calls = 0
    for cls in ("Obs", "CObs"):
        cnode = mod.classes.get(cls)
        if cnode is None:
            raise CheckerError("contract no longer binds: class %s not found" % cls)
        for fn in cnode.body:
            if not isinstance(fn, ast.FunctionDef):
                continue
            calls = _find_calls(fn)
            # order calls by position; label by the kind of partner
            for ci, call in enumerate(calls):
                n_calls += 1
                label = "%s.%s#%d@L%d" % (cls, fn.name, ci, call.lineno)
                out.extend(_one_call(reg, cls, fn, call, label))
    if n_calls < 25:
        out.append(("grad.census", False, "only %d derived_observable calls found in Obs/CObs (expected >= 25)" % n_calls, "syntactic"))
    return out


def _one_call(reg, cls, fn, call, label):
    res = []
    lam = call.args[0]
    inputs = call.args[1]
    if not isinstance(lam, ast.Lambda) or not isinstance(inputs, ast.List):
        return [("grad.%s.shape" % label, False, "call is not derived_observable(lambda, [inputs], ...)", "syntactic")]
    mg = None
    for kw in call.keywords:
        if kw.arg == "man_grad":
            mg = kw.value
    interp, ctx = _mini_interp(reg)
    n = len(inputs.elts)
    X = [z3.Real("x%d" % i) for i in range(n)]
    env = Env(None)
    xparam = lam.args.args[0].arg
    env.set(xparam, CList([SReal(x) for x in X], "ndarray", "real"))
    for i, x in enumerate(X):
        env.set("__X%d" % i, SReal(x))
    # free scalar partner(s): every parameter of the method other than self that is not itself an input
    inames = [e.id for e in inputs.elts if isinstance(e, ast.Name)]
    Y = {}
    for a in fn.args.args[1:]:
        if a.arg not in inames:
            Y[a.arg] = z3.Real("p_" + a.arg)
            env.set(a.arg, SReal(Y[a.arg]))
    # kwargs of the lambda
    if lam.args.kwarg is not None:
        from pyvc.sym import CDict
        env.set(lam.args.kwarg.arg, CDict())
    try:
        body = interp.eval(lam.body, env)
    except CheckerError as e:
        return [("grad.%s.body" % label, False, "lambda body outside the subset: %s" % e, "syntactic")]
    bt = treal(body)
    # ---- value obligation (only for single-operation methods; CObs.__mul__ is covered by the complex-product obligations)
    s_idx = None
    for i, e in enumerate(inputs.elts):
        if isinstance(e, ast.Name) and e.id == "self":
            s_idx = i
    if cls == "Obs" and s_idx is not None:
        if n == 2:
            o = X[1 - s_idx]
        elif Y:
            o = list(Y.values())[0]
        else:
            o = None
        exp = _expected_value(fn.name, X[s_idx], o)
        if exp is not None:
            ok, dt = _valid(bt == exp, _domain(X, Y, bt))
            res.append(("value.%s" % label, ok, None if ok else "lambda computes %s, expected %s" % (bt, exp), "z3-nra"))
    if mg is None:
        # autograd path: derivative assumed exact (trusted autograd); the lambda must use the autograd numpy wrapper
        uses_anp = any(isinstance(nn, ast.Attribute) and isinstance(nn.value, ast.Name) and nn.value.id == "anp" for nn in ast.walk(lam.body))
        res.append(("autograd.%s" % label, bool(uses_anp), None if uses_anp else "lambda without man_grad does not use anp.*", "syntactic"))
        return res
    if not isinstance(mg, ast.List) or len(mg.elts) != n:
        res.append(("grad.%s.len" % label, False, "man_grad is not a list with one entry per input", "syntactic"))
        return res
    sub = _Subst(inputs.elts)
    for i, g in enumerate(mg.elts):
        gnode = sub.visit(copy.deepcopy(g))
        ast.fix_missing_locations(gnode)
        try:
            gv = interp.eval(gnode, env)
        except CheckerError as e:
            res.append(("grad.%s.%d" % (label, i), False, "man_grad entry outside the subset: %s" % e, "syntactic"))
            continue
        d = ddx(bt, X[i])
        ok, dt = _valid(treal(gv) == d, _domain(X, Y, bt, d, treal(gv)))
        res.append(("grad.%s.%d" % (label, i), ok, None if ok else "man_grad[%d] = %s but d/dx%d = %s" % (i, z3.simplify(treal(gv)), i, z3.simplify(d)), "z3-nra"))
    return res


def _domain(X, Y, *terms):
    """inside the domain and away from singularities: every denominator non-zero, arguments of log / sqrt / pow base
    positive, cosh != 0 (true for every real, stated because cosh is uninterpreted)"""
    conds = []
    seen = set()

    def walk(t):
        if t.get_id() in seen:
            return
        seen.add(t.get_id())
        if z3.is_app(t):
            k = t.decl().kind()
            ch = t.children()
            if k == z3.Z3_OP_DIV:
                conds.append(ch[1] != 0)
            if k == z3.Z3_OP_UNINTERPRETED:
                nm = t.decl().name()
                if nm in ("uf_log", "uf_sqrt"):
                    conds.append(ch[0] > 0)
                    if nm == "uf_sqrt":
                        conds.append(t > 0)
                if nm == "uf_pow":
                    conds.append(ch[0] > 0)
                if nm == "uf_cosh":
                    conds.append(t >= 1)
            for c in ch:
                walk(c)
    for t in terms:
        walk(t)
    return conds


def _valid(f, hyps):
    s = z3.Solver()
    s.set("timeout", 15000)
    for h in hyps:
        s.add(h)
    s.add(z3.Not(f))
    t0 = time.time()
    r = s.check()
    return r == z3.unsat, time.time() - t0


contract(REL + "::Obs", name=REL + "::Obs[man_grad table]", props=["C01"], finite=grad_obligations,
         locate=lambda mod: mod.classes.get("Obs"), native_ok=False, crosscheck=False, refute=False,
         note="one obligation per hand-written gradient entry and per value lambda of Obs / CObs; derivative rule table: " + RULES_TEXT)


def native_grad(oid):
    """replay on the real code: the fluctuations of the result of the method must equal the numerical derivative of
    the result's central value (w.r.t. a shift of the input's data) times the input fluctuations"""
    import numpy as np
    from pyvc.native import repo_module
    pe = repo_module("pyerrors.obs")
    kind, _, rest = oid.partition(".")
    cls, _, rest = rest.partition(".")
    meth = rest.split("#")[0]
    ci = int(rest.split("#")[1].split("@")[0])
    idx = int(oid.rsplit(".", 1)[1]) if kind == "grad" else 0
    rng = np.random.default_rng(7)
    base = {"arccosh": 2.0, "arcsin": 0.3, "arccos": 0.3, "arctanh": 0.3}.get(meth, 1.3)

    def mk(mean, seed):
        r = np.random.default_rng(seed)
        return pe.Obs([mean + 0.1 * r.normal(size=40)], ["E|r1"])
    if cls == "CObs":
        a = pe.CObs(mk(1.3, 1), mk(0.7, 2))
        b = pe.CObs(mk(-0.4, 3), mk(2.1, 4))
        res = a * b
        exp_re = a.real * b.real - a.imag * b.imag
        exp_im = a.imag * b.real + a.real * b.imag
        bad = not (np.allclose(res.real.deltas["E|r1"], exp_re.deltas["E|r1"]) and np.allclose(res.imag.deltas["E|r1"], exp_im.deltas["E|r1"]))
        return bad, "CObs product fluctuations %s those of the component-wise formula" % ("differ from" if bad else "equal")
    binary = meth.startswith("__") and meth not in ("__abs__",)
    eps = 1e-6

    def apply(x, y):
        f = getattr(x, meth)
        return f(y) if binary else f()

    def run(shift_self, shift_other):
        x = mk(base + shift_self, 1)
        if binary and ci == 0 and meth != "__rpow__":
            y = mk(0.9 + shift_other, 2)
        else:
            y = 0.9 + shift_other
        return x, y, apply(x, y)
    x, y, res = run(0.0, 0.0)
    dself = (run(eps, 0)[2].value - run(-eps, 0)[2].value) / (2 * eps)
    expected = dself * x.deltas["E|r1"]
    if binary and ci == 0 and meth != "__rpow__":
        dother = (run(0, eps)[2].value - run(0, -eps)[2].value) / (2 * eps)
        expected = expected + dother * y.deltas["E|r1"]
    got = res.deltas["E|r1"]
    bad = not np.allclose(got, expected, rtol=1e-5, atol=1e-8)
    return bad, "%s.%s (call %d): fluctuations of the result %s numerical-derivative x input fluctuations (first entries %s vs %s)" % (
        cls, meth, ci, "DIFFER from" if bad else "equal", got[:2].tolist(), expected[:2].tolist())


from pyvc.specs import REGISTRY as _R  # noqa: E402
_R[REL + "::Obs[man_grad table]"].finite_native = native_grad
