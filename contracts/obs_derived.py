"""C01 / C04 / C03: derived_observable and the closure that up-weights operands lacking whole replicas."""
import z3
from fractions import Fraction

from pyvc.specs import contract, Spec, Custom, Const, OneOf
from pyvc.sym import (Sym, SInt, SReal, SBool, SSeq, CList, CDict, SObj, SRange, Len, At, And, Or, Not, Implies, Iff, Ite, ForAll,
                      eq, compare, fresh, wrap, UNDEF)
from pyvc import gen as G
from contracts.obsmodel import Layout, ObsSpec, _ObsOn, mk_obs, A, D, chain, names_of
import contracts.obs_kernel  # noqa: F401  (callee contracts)
import contracts.obs_init  # noqa: F401

REL = "pyerrors/obs.py"


def ens(name):
    """ensemble of a chain: the text before '|' (C04)"""
    return name.split("|")[0]


# ---------------------------------------------------------------------------------------------------
# _compute_scalefactor_missing_rep(obs)   [closure of derived_observable over new_idl_d]
#   C01: "... and by (ensemble size / size of the replicas it has) when it lacks whole replicas"

# (chains of the operand, chains of the result) -- the result always contains the operand's chains
SCALE_LAYOUTS = {
    "same": (["A|r1"], ["A|r1"]),
    "lacks-r2": (["A|r1"], ["A|r1", "A|r2"]),
    "lacks-r1": (["A|r2"], ["A|r1", "A|r2"]),
    "has2-of-3": (["A|r1", "A|r3"], ["A|r1", "A|r2", "A|r3"]),
    "two-ens": (["A|r1", "B|r1"], ["A|r1", "A|r2", "B|r1"]),
    "other-ens": (["A|r1"], ["A|r1", "B|r1", "B|r2"]),
    "bare+rep": (["A"], ["A", "A|r2"]),
    "prefix-ens": (["A|r1"], ["A|r1", "AB|r1"]),
}


class ScaleCase(Spec):
    """operand `obs` and the dictionary new_idl_d of the enclosing call, on one of the layouts above"""

    def __init__(self, which):
        self.which = which

    def variants(self):
        return [(k, _ScaleOn(k, self.which)) for k in SCALE_LAYOUTS]


class _ScaleOn(Spec):
    def __init__(self, key, which):
        self.key, self.which = key, which
        self.have, self.allr = SCALE_LAYOUTS[key]

    def make(self, name, ctx, shape=None):
        if self.which == "obs":
            return mk_obs(name, Layout([(n, "list") for n in self.have]), ctx, None if shape is None else shape)
        d = CDict()
        for i, n in enumerate(self.allr):
            from pyvc.specs import IdlList
            d.d[n] = IdlList(1).make("%s.%s" % (name, n), ctx, None if shape is None else shape[i])
        return d

    def shapes(self, bound):
        import itertools
        k = len(self.have) if self.which == "obs" else len(self.allr)
        lens = [5, 6] if self.which == "obs" else [5, 7]
        return [list(c) for c in itertools.product(lens, repeat=k)]

    def native(self, value, ev):
        if self.which == "obs":
            return _ObsOn(Layout([(n, "list") for n in self.have]), 5).native(value, ev)
        return {n: [int(ev(x)) for x in value.d[n].items] for n in self.allr}

    def random(self, rng, shape=None):
        if self.which == "obs":
            return _ObsOn(Layout([(n, "list") for n in self.have]), 5).random(rng)
        return {n: G.idl(rng, "list", rng.randint(5, 9)) for n in self.allr}


def _scale_post(a, r):
    obs, new = a.obs, a.new_idl_d
    have_names = names_of(obs)
    all_names = list(new.d.keys()) if isinstance(new, CDict) else list(new.keys())
    out = {}
    ensembles = sorted(set(ens(n) for n in have_names))
    for m in ensembles:
        have = [n for n in have_names if ens(n) == m]
        allr = [n for n in all_names if ens(n) == m]
        lacking = 0 < len(have) < len(allr)
        present = (m in r.d) if isinstance(r, CDict) else (m in r)
        out["present.%s" % m] = present == lacking
        if lacking and present:
            num = sum_len(new, allr)
            den = sum_len(new, have)
            val = r.d[m] if isinstance(r, CDict) else r[m]
            out["factor.%s" % m] = eq(val, num / den)
    keys = list(r.d.keys()) if isinstance(r, CDict) else list(r.keys())
    out["only-own-ensembles"] = all(k in ensembles for k in keys)
    return out


def sum_len(new, names):
    t = 0
    for n in names:
        t = t + Len(D(new, n))
    return t * Fraction(1) if isinstance(t, int) else t * 1


def _native_scale(args):
    """the closure has no entry point of its own: the factor is read off a real derived_observable call.  The operand
    `obs` is added to a partner defined on every chain of new_idl_d with exactly those configuration lists, so that
    the merged lists are new_idl_d; on a chain where obs has all configurations of the union the only rescaling of
    its fluctuations is the missing-replica factor."""
    import numpy as np
    from pyvc.native import repo_module
    pe = repo_module("pyerrors.obs")
    obs, new = args["obs"], args["new_idl_d"]
    partners = []
    for m in sorted(set(ens(n) for n in new)):     # one partner per ensemble (an Obs is constructed on one ensemble)
        names = sorted(n for n in new if ens(n) == m)
        partners.append(pe.Obs([np.linspace(0.0, 1.0, len(new[n])) for n in names], names, idl=[new[n] for n in names]))
    res = pe.derived_observable(lambda x, **kw: x[0] + 0.0 * sum(x[1:]), [obs] + partners, man_grad=[1.0] + [0.0] * len(partners))
    out = {}
    for n in obs.names:
        if list(obs.idl[n]) != list(new[n]):
            raise ValueError("generator must give obs the union's configurations on its own chains")
        k = int(np.argmax(np.abs(obs.deltas[n])))
        f = res.deltas[n][k] / obs.deltas[n][k]
        if abs(f - 1.0) > 1e-12:
            out[ens(n)] = float(f)
    return out


def _scale_gen(rng, case):
    have, allr = SCALE_LAYOUTS[case["obs"]]
    new = {n: G.idl(rng, "list", rng.randint(5, 9)) for n in allr}
    for n in new:     # keep the lists irregular so that Obs.__init__ leaves them as lists
        if len(set(new[n][j + 1] - new[n][j] for j in range(len(new[n]) - 1))) == 1:
            new[n][-1] += 1
    from contracts.obsmodel import native_obs_from
    obs = native_obs_from({"chains": {n: (new[n], list(G.reals(rng, len(new[n])) + 1.0)) for n in have}})
    return {"obs": obs, "new_idl_d": new}


contract(
    REL + "::derived_observable::_compute_scalefactor_missing_rep", props=["C01"],
    params=dict(obs=ScaleCase("obs"), new_idl_d=ScaleCase("new_idl_d")),
    cases_filter=lambda case: case["obs"] == case["new_idl_d"],
    inline=[REL + "::Obs.mc_names", REL + "::Obs.cov_names", REL + "::Obs.covobs"],
    ensures=_scale_post,
    native_call=_native_scale, gen=_scale_gen, crosscheck=False,
    slice_note="nested function of derived_observable; its free variable new_idl_d (the merged configuration lists of the "
               "enclosing call) is a parameter of the contract",
    note="ensembles are grouped by the text before '|' as the property states; operand / result chain layouts enumerated",
)


# ---------------------------------------------------------------------------------------------------
# derived_observable, scalar mode: the accumulation loop over the inputs (statement slice)
#   C01: "its fluctuation on every Monte-Carlo configuration equals the sum over the inputs of df/d(input) times that input's
#         fluctuation on the same configuration number of the same replica; an input not measured on some of them contributes
#         zero there and is up-weighted by (union size / own size), and by (ensemble size / size of the replicas it has)"

import ast  # noqa: E402
from pyvc.specs import IdlRange, IdlList  # noqa: E402
from pyvc.interp import Closure, Env  # noqa: E402

ACC_LAYOUTS = {
    # key: (chains of operand 0, chains of operand 1, chains of the result with the kind of the merged list)
    "same-chain-rr": ([("A|r1", "range")], [("A|r1", "range")], [("A|r1", "range")]),
    "same-chain-ll": ([("A|r1", "list")], [("A|r1", "list")], [("A|r1", "list")]),
    "same-chain-rl": ([("A|r1", "range")], [("A|r1", "list")], [("A|r1", "range")]),
    "lacks-replica": ([("A|r1", "list"), ("A|r2", "range")], [("A|r1", "list")], [("A|r1", "list"), ("A|r2", "range")]),
    "two-ensembles": ([("A|r1", "range")], [("B|r1", "list")], [("A|r1", "range"), ("B|r1", "list")]),
    "single-operand": ([("A|r1", "list")], None, [("A|r1", "list")]),
    # aliasing: when all operands carry the same list, _merge_idx returns the first operand's list OBJECT itself
    "same-chain-ll-alias": ([("A|r1", "list")], [("A|r1", "list")], [("A|r1", "list")]),
    "lacks-replica-alias-first": ([("A|r1", "list")], [("A|r1", "list"), ("A|r2", "range")], [("A|r1", "list"), ("A|r2", "range")]),
}
ALIAS = {"same-chain-ll-alias": ["A|r1"], "lacks-replica-alias-first": ["A|r1"]}


# C03: deriving observables reads only the data of its inputs, never results of an earlier error analysis
OBS_DATA_ATTRS = {"Obs": {"names", "idl", "deltas", "r_values", "shape", "_value", "_covobs", "reweighted", "N", "tag"}}


def _acc_loop(mod, fnode):
    loops = [n for n in ast.walk(fnode) if isinstance(n, ast.For)]
    loops.sort(key=lambda n: (n.lineno, n.col_offset))
    for lp in loops:
        it = lp.iter
        if isinstance(it, ast.Call) and isinstance(it.func, ast.Attribute) and it.func.attr == "ndenumerate" and \
                isinstance(it.args[0], ast.Name) and it.args[0].id == "data":
            return [lp]
    from pyvc.sym import CheckerError
    raise CheckerError("contract no longer binds: `for j_obs, obs in np.ndenumerate(data)` not found in derived_observable")


class AccCase(Spec):
    def __init__(self, which):
        self.which = which

    def variants(self):
        return [(k, _AccOn(k, self.which)) for k in ACC_LAYOUTS]


class _AccOn(Spec):
    def __init__(self, key, which):
        self.key, self.which = key, which
        self.l0, self.l1, self.lr = ACC_LAYOUTS[key]

    def make(self, name, ctx, shape=None):
        w = self.which
        if w == "data":
            ops = [mk_obs("op0", Layout(self.l0), ctx, None)]
            if self.l1 is not None:
                ops.append(mk_obs("op1", Layout(self.l1), ctx, None))
            return CList(ops, "ndarray")
        if w == "new_idl_d":
            d = CDict()
            for cn, kind in self.lr:
                d.d[cn] = (IdlRange(5) if kind == "range" else IdlList(5)).make("new." + cn, ctx, None)
            d.alias = self.key in ALIAS
            return d
        if w == "deriv":
            return CList([SReal(z3.Real(fresh("deriv%d" % j))) for j in range(1 if self.l1 is None else 2)], "ndarray")
        raise AssertionError(w)


def _scale_closure(name, ctx, shape=None):
    return None      # bound in requires (needs new_idl_d); see _acc_bind


def _same_list(x, y):
    """x and y are the same configuration list object (survives cloning of the pre-state: same underlying array term)"""
    ax, ay = getattr(x, "arr", None), getattr(y, "arr", None)
    return ax is not None and ay is not None and ax.eq(ay)


def _keys(d):
    return list(d.d.keys()) if isinstance(d, CDict) else list(d.keys())


def _ops(data):
    return list(data.items) if isinstance(data, CList) else list(data)


def _sf(obs, new, cn):
    """the missing-replica factor of the contract of _compute_scalefactor_missing_rep, for the chain cn of operand obs"""
    m = ens(cn)
    have = [n for n in names_of(obs) if ens(n) == m]
    allr = [n for n in _keys(new) if ens(n) == m]
    if 0 < len(have) < len(allr):
        return sum_len(new, allr) / sum_len(new, have)
    return 1


def _contrib(obs, new, cn, dj, k, i):
    """contribution of operand obs on configuration new[cn][k], given that its i-th configuration is that one"""
    ni, oi = D(new, cn), chain(obs, cn, "idl")
    return dj * (At(chain(obs, cn, "deltas"), i) * Len(ni) / Len(oi) * _sf(obs, new, cn))


def _acc_post(a, r):
    ops = _ops(a.data)
    new = a.new_idl_d
    nd = r.new_deltas
    out = {"chains": sorted(_keys(nd)) == sorted(_keys(new))}
    for cn in _keys(new):
        ni = D(new, cn)
        res = D(nd, cn)
        if res is UNDEF:
            out["present.%s" % cn] = False
            continue
        have = [j for j, o in enumerate(ops) if cn in names_of(o)]
        out["len.%s" % cn] = Len(res) == Len(ni)
        if isinstance(new, CDict) and any(_same_list(ni, chain(ops[j], cn, "idl")) for j in have):
            # intermediate assertion for the aliasing layouts: equal configuration numbers sit at equal positions
            for j in have:
                oi = chain(ops[j], cn, "idl")
                out["lem.position.%d.%s" % (j, cn)] = ForAll(0, Len(ni), lambda k, oi=oi, ni=ni: ForAll(0, Len(oi), lambda i: Implies(
                    At(oi, i) == At(ni, k), i == k)))
        if len(have) == 1:
            j = have[0]
            o = ops[j]
            oi = chain(o, cn, "idl")
            out["hit.%s" % cn] = ForAll(0, Len(ni), lambda k: ForAll(0, Len(oi), lambda i: Implies(
                At(oi, i) == At(ni, k), eq(At(res, k), _contrib(o, new, cn, At(a.deriv, j), k, i)))))
            out["miss.%s" % cn] = ForAll(0, Len(ni), lambda k: Implies(ForAll(0, Len(oi), lambda i: At(oi, i) != At(ni, k)), eq(At(res, k), 0)))
        else:
            o0, o1 = ops[0], ops[1]
            i0l, i1l = chain(o0, cn, "idl"), chain(o1, cn, "idl")
            d0, d1 = At(a.deriv, 0), At(a.deriv, 1)
            m0 = lambda k: ForAll(0, Len(i0l), lambda i: At(i0l, i) != At(ni, k))
            m1 = lambda k: ForAll(0, Len(i1l), lambda i: At(i1l, i) != At(ni, k))
            if _same_list(ni, i0l) or _same_list(ni, i1l):
                # all three lists coincide: every configuration is a hit of both operands at the same position
                out["both.%s" % cn] = ForAll(0, Len(ni), lambda k: eq(At(res, k), _contrib(o0, new, cn, d0, k, k) + _contrib(o1, new, cn, d1, k, k)))
            else:
                out["both.%s" % cn] = ForAll(0, Len(ni), lambda k: ForAll(0, Len(i0l), lambda i: ForAll(0, Len(i1l), lambda ii: Implies(
                    And(At(i0l, i) == At(ni, k), At(i1l, ii) == At(ni, k)),
                    eq(At(res, k), _contrib(o0, new, cn, d0, k, i) + _contrib(o1, new, cn, d1, k, ii))))))
            out["only0.%s" % cn] = ForAll(0, Len(ni), lambda k: ForAll(0, Len(i0l), lambda i: Implies(
                And(At(i0l, i) == At(ni, k), m1(k)), eq(At(res, k), _contrib(o0, new, cn, d0, k, i)))))
            out["only1.%s" % cn] = ForAll(0, Len(ni), lambda k: ForAll(0, Len(i1l), lambda ii: Implies(
                And(At(i1l, ii) == At(ni, k), m0(k)), eq(At(res, k), _contrib(o1, new, cn, d1, k, ii)))))
            out["none.%s" % cn] = ForAll(0, Len(ni), lambda k: Implies(And(m0(k), m1(k)), eq(At(res, k), 0)))
    return out


def _acc_native(args):
    """the slice has no entry point: run the real derived_observable on the operands with a linear function whose gradient
    is `deriv`; its result's fluctuations are the new_deltas of the loop"""
    from pyvc.driver import Namespace
    from pyvc.native import repo_module
    pe = repo_module("pyerrors.obs")
    d = [float(x) for x in args["deriv"]]
    res = pe.derived_observable(lambda x, **kw: sum(di * xi for di, xi in zip(d, x)), list(args["data"]), man_grad=d)
    return Namespace({"new_deltas": dict(res.deltas)})


def _acc_gen(rng, case):
    import numpy as np
    from pyvc.native import repo_module
    from contracts.obsmodel import native_obs_from
    pe = repo_module("pyerrors.obs")
    l0, l1, lr = ACC_LAYOUTS[case["data"]]
    base = {cn: G.idl(rng, "range", rng.randint(8, 12)) for cn, _ in lr}

    def mk(layout):
        chains = {}
        for cn, kind in layout:
            sub = G.sub_idl(rng, base[cn], kind)
            tries = 0
            while (sub is None or len(sub) < 5) and tries < 40:
                sub = G.sub_idl(rng, base[cn], kind)
                tries += 1
            if sub is None or len(sub) < 5:
                sub = base[cn] if kind == "range" else list(base[cn])[:-1] + [base[cn][-1] + 1]
            if kind == "list" and len(set(sub[j + 1] - sub[j] for j in range(len(sub) - 1))) == 1:
                sub = list(sub)
                sub[-1] += 1
            chains[cn] = (sub, list(G.reals(rng, len(sub)) + 1.0))
        return native_obs_from({"chains": chains})
    ops = [mk(l0)] + ([mk(l1)] if l1 is not None else [])
    new = {}
    for cn, _ in lr:
        new[cn] = pe._merge_idx([o.idl[cn] for o in ops if cn in o.idl])
    return {"data": ops, "new_idl_d": new, "deriv": [rng.choice([1.0, -2.0, 0.5, 3.0]) for _ in ops], "new_deltas": {}, "new_grad": {},
            "i_val": (), "_compute_scalefactor_missing_rep": None}


def _acc_requires(a):
    from contracts.obs_kernel import subset, pyeq
    out = {}
    alias = isinstance(a.new_idl_d, CDict) and getattr(a.new_idl_d, "alias", False)
    ops = _ops(a.data)
    for j, o in enumerate(ops):
        for cn in names_of(o):
            if alias:
                # all operands that have the chain carry the same list (that is when _merge_idx hands back the object)
                out["same-list.%d.%s" % (j, cn)] = pyeq(chain(o, cn, "idl"), chain(ops[0], cn, "idl"))
            else:
                out["merged.%d.%s" % (j, cn)] = subset(chain(o, cn, "idl"), D(a.new_idl_d, cn))
    return out


class _ScaleClosureSpec(Spec):
    """the real nested function _compute_scalefactor_missing_rep, closed over the new_idl_d parameter (bound lazily)"""

    def make(self, name, ctx, shape=None):
        return _LazyClosure()


class _LazyClosure:
    pass


def _alias_lists(args):
    """aliasing layouts: the merged list of a chain IS the first operand's list object"""
    ops = args["data"].items
    for cn in list(args["new_idl_d"].d):
        if cn in names_of(ops[0]) and getattr(args["new_idl_d"], "alias", False):
            args["new_idl_d"].d[cn] = ops[0].attrs["idl"].d[cn]


def _acc_execute_hook(interp, mod, fnode, args):
    """bind the nested function to the live-in new_idl_d before the slice runs"""
    _alias_lists(args)
    nested = mod.functions.get("derived_observable::_compute_scalefactor_missing_rep")
    env = Env(None)
    env.set("new_idl_d", args["new_idl_d"])
    args["_compute_scalefactor_missing_rep"] = Closure(nested, env, "_compute_scalefactor_missing_rep")


contract(
    REL + "::derived_observable", name=REL + "::derived_observable[accumulation, scalar mode]", props=["C01", "C03"],
    slice=_acc_loop,
    params=dict(data=AccCase("data"), new_idl_d=AccCase("new_idl_d"), deriv=AccCase("deriv"),
                new_deltas=Custom(lambda n, c, s: CDict()), new_grad=Custom(lambda n, c, s: CDict()),
                i_val=Const(()), _compute_scalefactor_missing_rep=_ScaleClosureSpec()),
    cases_filter=lambda case: case["data"] == case["new_idl_d"] == case["deriv"],
    inline=[REL + "::Obs.mc_names", REL + "::Obs.cov_names", REL + "::Obs.covobs"],
    requires=_acc_requires,
    reads_allowed=OBS_DATA_ATTRS,
    pre_execute=_acc_execute_hook,
    writes=("new_deltas", "new_grad"),
    ensures=_acc_post,
    native_call=_acc_native, gen=_acc_gen, crosscheck=False, refute=False,
    slice_note="the loop `for j_obs, obs in np.ndenumerate(data)` of the scalar branch; live-in: data (1 or 2 observables on an "
               "enumerated chain layout), deriv (symbolic), new_idl_d (symbolic merged lists containing every operand's list), empty "
               "new_deltas / new_grad; the nested _compute_scalefactor_missing_rep is the real nested function bound to new_idl_d",
    note="covariance inputs are not part of these layouts (gradient accumulation not decided)",
)


# ---------------------------------------------------------------------------------------------------
# derived_observable: central value, replica means and merged configuration lists (statement slice)

def _asm_slice(mod, fnode):
    body = fnode.body
    start = end = None
    for i, st in enumerate(body):
        if isinstance(st, ast.Assign) and isinstance(st.targets[0], ast.Name) and st.targets[0].id == "n_obs":
            start = i
        if isinstance(st, ast.For) and isinstance(st.iter, ast.Name) and st.iter.id == "new_sample_names" and start is not None and end is None:
            end = i
    if start is None or end is None:
        from pyvc.sym import CheckerError
        raise CheckerError("contract no longer binds: assembly block of derived_observable not found")
    return body[start:end + 1]


def _symfunc(n):
    F = z3.Function("user_f", *([z3.RealSort()] * (n + 1)))
    return F


class _FuncSpec(Spec):
    def variants(self):
        return [(k, Custom(lambda nm, c, s, k=k: SOpaque("symfunc", _symfunc(1 if ACC_LAYOUTS[k][1] is None else 2)))) for k in ACC_LAYOUTS]


from pyvc.sym import SOpaque, treal  # noqa: E402


def _asm_post(a, r):
    ops = _ops(a.data)
    n = len(ops)
    F = _symfunc(n)
    out = {"value": eq(r.new_values, wrap(F(*[treal(A(o, "_value")) for o in ops])))}
    names = sorted(set(cn for o in ops for cn in names_of(o)))
    out["names"] = list(r.new_names.items) == names and list(r.new_sample_names.items) == names
    out["flag"] = Iff(r.reweighted, Or(*[_flag(A(o, "reweighted")) for o in ops]))
    for cn in names:
        rv = [chain(o, cn, "r_values") if cn in names_of(o) else A(o, "_value") for o in ops]
        out["r_value.%s" % cn] = eq(D(r.new_r_values, cn), wrap(F(*[treal(x) for x in rv])))
        ni = D(r.new_idl_d, cn)
        have = [chain(o, cn, "idl") for o in ops if cn in names_of(o)]
        from contracts.obs_kernel import subset, in_some
        from pyvc.sym import strictly_increasing
        out["union.sorted.%s" % cn] = strictly_increasing(ni)
        out["union.complete.%s" % cn] = And(*[subset(x, ni) for x in have])
        out["union.sound.%s" % cn] = True if any(x is ni for x in have) else \
            ForAll(0, Len(ni), lambda k, ni=ni, have=have: Or(*[_member(At(ni, k), x) for x in have]))
    return out


def _member(c, x):
    from pyvc.sym import member
    return member(c, x)


def _flag(f):
    return f if isinstance(f, Sym) else bool(f)


contract(
    REL + "::derived_observable", name=REL + "::derived_observable[value, replica means, merged lists]", props=["C01", "C05", "C03"],
    slice=_asm_slice,
    params=dict(data=AccCase("data"), raveled_data=Custom(lambda n, c, s: None), func=_FuncSpec(), kwargs=Custom(lambda n, c, s: CDict())),
    cases_filter=lambda case: case["data"] == case["func"],
    reads_allowed=OBS_DATA_ATTRS,
    pre_execute=lambda interp, mod, fnode, args: args.__setitem__("raveled_data", args["data"]),
    inline=[REL + "::Obs.mc_names", REL + "::Obs.cov_names", REL + "::Obs.covobs", REL + "::Obs.value"],
    ensures=_asm_post,
    native_ok=False, crosscheck=False, refute=False,
    slice_note="statements from `n_obs = ...` through the loop that fills new_r_values / new_idl_d; live-in: data (== raveled_data: a "
               "1-D list of 1 or 2 observables on an enumerated layout), func (an uninterpreted function of the vector of values)",
    note="C01: central value = f(central values); replica means = f(replica means, falling back to the central value); result lists = "
         "union of the operands' lists (through the contract of _merge_idx). C05: the flag is the or of the operands' flags.",
)


# ---------------------------------------------------------------------------------------------------
# derived_observable: assembly of the result object (statement slice) - C04: what is returned is well-formed

def _res_slice(mod, fnode):
    loops = [n for n in ast.walk(fnode) if isinstance(n, ast.For)]
    for lp in loops:
        it = lp.iter
        if isinstance(it, ast.Call) and isinstance(it.func, ast.Attribute) and it.func.attr == "ndenumerate" and \
                isinstance(it.args[0], ast.Name) and it.args[0].id == "new_values":
            for i, st in enumerate(lp.body):
                if isinstance(st, ast.Assign) and isinstance(st.targets[0], ast.Name) and st.targets[0].id == "new_covobs":
                    return lp.body[i:]
    from pyvc.sym import CheckerError
    raise CheckerError("contract no longer binds: result assembly of derived_observable not found")


class ResCase(Spec):
    def __init__(self, which):
        self.which = which

    def variants(self):
        return [(k, _ResOn(k, self.which)) for k in ACC_LAYOUTS]


class _ResOn(Spec):
    def __init__(self, key, which):
        self.key, self.which = key, which
        self.lr = ACC_LAYOUTS[key][2]

    def make(self, name, ctx, shape=None):
        w = self.which
        names = [cn for cn, _ in self.lr]
        if w == "new_idl_d":
            d = CDict()
            for cn, kind in self.lr:
                x = (IdlRange(5) if kind == "range" else IdlList(5)).make("new." + cn, ctx, None)
                if kind == "list":
                    n = Len(x)
                    ctx.assume(Not(ForAll(0, n - 1, lambda k, x=x: At(x, k + 1) - At(x, k) == At(x, 1) - At(x, 0))))
                d.d[cn] = x
            return d
        if w == "new_deltas":
            d = CDict()
            for cn in names:
                s = SSeq.fresh("nd." + cn, "ndarray", "real")
                ctx.assume(s.length >= 0)
                d.d[cn] = s
            return d
        if w == "new_r_values":
            return CDict({cn: SReal(z3.Real(fresh("nr." + cn))) for cn in names})
        if w == "new_names":
            return CList(list(names), "list")
        raise AssertionError(w)


def _res_post(a, r):
    from contracts.obsmodel import wf
    o = D(r.final_result, ())
    names = _ops(a.new_names)
    out = {"is-obs": o is not UNDEF and o.cls == "Obs"}
    if o is UNDEF:
        return out
    out["names"] = names_of(o) == sorted(names)
    total = 0
    for cn in names:
        ni = D(a.new_idl_d, cn)
        oi = chain(o, cn, "idl")
        out["idl.%s" % cn] = And(Len(oi) == Len(ni), ForAll(0, Len(ni), lambda k, oi=oi, ni=ni: At(oi, k) == At(ni, k)),
                                  is_range_(oi) == is_range_(ni))
        out["deltas.%s" % cn] = chain(o, cn, "deltas") is D(a.post.new_deltas, cn)
        out["shape.%s" % cn] = And(chain(o, cn, "shape") == Len(ni), Len(chain(o, cn, "deltas")) == Len(ni))
        out["r_value.%s" % cn] = eq(chain(o, cn, "r_values"), D(a.new_r_values, cn))
        total = total + Len(ni)
    out["N"] = A(o, "N") == total
    out["value"] = eq(A(o, "_value"), a.new_val)
    out["flag"] = Iff(_flag(A(o, "reweighted")), a.reweighted)
    return out


def is_range_(x):
    from pyvc.sym import is_range
    return is_range(x)


contract(
    REL + "::derived_observable", name=REL + "::derived_observable[result assembly]", props=["C04", "C05"],
    slice=_res_slice,
    params=dict(new_idl_d=ResCase("new_idl_d"), new_deltas=ResCase("new_deltas"), new_r_values=ResCase("new_r_values"),
                new_names=ResCase("new_names"), new_grad=Custom(lambda n, c, s: CDict()), allcov=Custom(lambda n, c, s: CDict()),
                final_result=Custom(lambda n, c, s: CDict()), i_val=Const(()), new_val=Custom(lambda n, c, s: SReal(z3.Real(fresh("new_val")))),
                reweighted=Custom(lambda n, c, s: SBool(z3.Bool(fresh("reweighted"))))),
    cases_filter=lambda case: len(set(case.values())) == 1,
    requires=lambda a: {"lengths": And(*[Len(D(a.new_deltas, cn)) == Len(D(a.new_idl_d, cn)) for cn in _keys(a.new_idl_d)])},
    writes=("final_result",),
    ensures=_res_post,
    native_ok=False, crosscheck=False, refute=False,
    slice_note="from `new_covobs = ...` to the end of the body of the loop over new_values; live-in: the merged lists (lists are not "
               "equally spaced: postcondition of _merge_idx), accumulated fluctuations of matching length, replica means, value, flag",
    note="the result is constructed through Obs.__init__(means=...) (contract of the constructor); covariance inputs not part of the layouts",
)
