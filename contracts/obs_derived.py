"""C01 / C04 / C03: derived_observable and the closure that up-weights operands lacking whole replicas."""
import z3
from fractions import Fraction

from pyvc.specs import contract, Spec, Custom, Const, OneOf
from pyvc.sym import (Sym, SInt, SReal, SBool, SSeq, CList, CDict, SObj, SRange, Len, At, And, Or, Not, Implies, Iff, Ite, ForAll,
                      eq, compare, fresh, wrap, UNDEF)
from pyvc import gen as G
from contracts.obsmodel import Layout, ObsSpec, _ObsOn, mk_obs, A, D, chain, names_of

REL = "pyerrors/obs.py"


def ens(name):
    """ensemble of a chain: the text before '|' (C04)"""
    return name.split("|")[0]


# ---------------------------------------------------------------------------------------------------
# _compute_scalefactor_missing_rep(obs)   [closure of derived_observable over new_idl_d]
#   C01: "... and by (ensemble size / size of the replicas it has) when it lacks whole replicas"

# (chains of the operand, chains of the result) -- the result always contains the operand's chains
SCALE_LAYOUTS = {
    "same": (["A|r1"], ["A|r1"]),
    "lacks-r2": (["A|r1"], ["A|r1", "A|r2"]),
    "lacks-r1": (["A|r2"], ["A|r1", "A|r2"]),
    "has2-of-3": (["A|r1", "A|r3"], ["A|r1", "A|r2", "A|r3"]),
    "two-ens": (["A|r1", "B|r1"], ["A|r1", "A|r2", "B|r1"]),
    "other-ens": (["A|r1"], ["A|r1", "B|r1", "B|r2"]),
    "bare+rep": (["A"], ["A", "A|r2"]),
    "prefix-ens": (["A|r1"], ["A|r1", "AB|r1"]),
}


class ScaleCase(Spec):
    """operand `obs` and the dictionary new_idl_d of the enclosing call, on one of the layouts above"""

    def __init__(self, which):
        self.which = which

    def variants(self):
        return [(k, _ScaleOn(k, self.which)) for k in SCALE_LAYOUTS]


class _ScaleOn(Spec):
    def __init__(self, key, which):
        self.key, self.which = key, which
        self.have, self.allr = SCALE_LAYOUTS[key]

    def make(self, name, ctx, shape=None):
        if self.which == "obs":
            return mk_obs(name, Layout([(n, "list") for n in self.have]), ctx, None if shape is None else shape)
        d = CDict()
        for i, n in enumerate(self.allr):
            from pyvc.specs import IdlList
            d.d[n] = IdlList(1).make("%s.%s" % (name, n), ctx, None if shape is None else shape[i])
        return d

    def shapes(self, bound):
        import itertools
        k = len(self.have) if self.which == "obs" else len(self.allr)
        lens = [5, 6] if self.which == "obs" else [5, 7]
        return [list(c) for c in itertools.product(lens, repeat=k)]

    def native(self, value, ev):
        if self.which == "obs":
            return _ObsOn(Layout([(n, "list") for n in self.have]), 5).native(value, ev)
        return {n: [int(ev(x)) for x in value.d[n].items] for n in self.allr}

    def random(self, rng, shape=None):
        if self.which == "obs":
            return _ObsOn(Layout([(n, "list") for n in self.have]), 5).random(rng)
        return {n: G.idl(rng, "list", rng.randint(5, 9)) for n in self.allr}


def _scale_post(a, r):
    obs, new = a.obs, a.new_idl_d
    have_names = names_of(obs)
    all_names = list(new.d.keys()) if isinstance(new, CDict) else list(new.keys())
    out = {}
    ensembles = sorted(set(ens(n) for n in have_names))
    for m in ensembles:
        have = [n for n in have_names if ens(n) == m]
        allr = [n for n in all_names if ens(n) == m]
        lacking = 0 < len(have) < len(allr)
        present = (m in r.d) if isinstance(r, CDict) else (m in r)
        out["present.%s" % m] = present == lacking
        if lacking and present:
            num = sum_len(new, allr)
            den = sum_len(new, have)
            val = r.d[m] if isinstance(r, CDict) else r[m]
            out["factor.%s" % m] = eq(val, num / den)
    keys = list(r.d.keys()) if isinstance(r, CDict) else list(r.keys())
    out["only-own-ensembles"] = all(k in ensembles for k in keys)
    return out


def sum_len(new, names):
    t = 0
    for n in names:
        t = t + Len(D(new, n))
    return t * Fraction(1) if isinstance(t, int) else t * 1


def _native_scale(args):
    """the closure has no entry point of its own: the factor is read off a real derived_observable call.  The operand
    `obs` is added to a partner defined on every chain of new_idl_d with exactly those configuration lists, so that
    the merged lists are new_idl_d; on a chain where obs has all configurations of the union the only rescaling of
    its fluctuations is the missing-replica factor."""
    import numpy as np
    from pyvc.native import repo_module
    pe = repo_module("pyerrors.obs")
    obs, new = args["obs"], args["new_idl_d"]
    partners = []
    for m in sorted(set(ens(n) for n in new)):     # one partner per ensemble (an Obs is constructed on one ensemble)
        names = sorted(n for n in new if ens(n) == m)
        partners.append(pe.Obs([np.linspace(0.0, 1.0, len(new[n])) for n in names], names, idl=[new[n] for n in names]))
    res = pe.derived_observable(lambda x, **kw: x[0] + 0.0 * sum(x[1:]), [obs] + partners, man_grad=[1.0] + [0.0] * len(partners))
    out = {}
    for n in obs.names:
        if list(obs.idl[n]) != list(new[n]):
            raise ValueError("generator must give obs the union's configurations on its own chains")
        k = int(np.argmax(np.abs(obs.deltas[n])))
        f = res.deltas[n][k] / obs.deltas[n][k]
        if abs(f - 1.0) > 1e-12:
            out[ens(n)] = float(f)
    return out


def _scale_gen(rng, case):
    have, allr = SCALE_LAYOUTS[case["obs"]]
    new = {n: G.idl(rng, "list", rng.randint(5, 9)) for n in allr}
    for n in new:     # keep the lists irregular so that Obs.__init__ leaves them as lists
        if len(set(new[n][j + 1] - new[n][j] for j in range(len(new[n]) - 1))) == 1:
            new[n][-1] += 1
    from contracts.obsmodel import native_obs_from
    obs = native_obs_from({"chains": {n: (new[n], list(G.reals(rng, len(new[n])) + 1.0)) for n in have}})
    return {"obs": obs, "new_idl_d": new}


contract(
    REL + "::derived_observable::_compute_scalefactor_missing_rep", props=["C01"],
    params=dict(obs=ScaleCase("obs"), new_idl_d=ScaleCase("new_idl_d")),
    cases_filter=lambda case: case["obs"] == case["new_idl_d"],
    inline=[REL + "::Obs.mc_names", REL + "::Obs.cov_names", REL + "::Obs.covobs"],
    ensures=_scale_post,
    native_call=_native_scale, gen=_scale_gen, crosscheck=False,
    slice_note="nested function of derived_observable; its free variable new_idl_d (the merged configuration lists of the "
               "enclosing call) is a parameter of the contract",
    note="ensembles are grouped by the text before '|' as the property states; operand / result chain layouts enumerated",
)
