"""C13: jackknife export / import (pyerrors/obs.py)."""
import z3
from fractions import Fraction

from pyvc.specs import contract, Spec, Custom, Const, OneOf, RealSeq, Idl
from pyvc.sym import (Sym, SInt, SReal, SBool, SSeq, CList, CDict, SObj, Len, At, And, Or, Not, Implies, Iff, Ite, ForAll, eq, compare,
                      fresh, wrap, tz, UNDEF)
from pyvc.lib import SUM
from contracts.obsmodel import Layout, _ObsOn, A, D, chain, names_of, seq_sum, value_of, is_obs
import contracts.obs_init  # noqa: F401

REL = "pyerrors/obs.py"

JK_LAYOUTS = {"range": Layout([("A|r1", "range")]), "list": Layout([("A|r1", "list")]), "two": Layout([("A|r1", "range"), ("A|r2", "list")])}


def total(x):
    """sum of a real sequence: SUM in proofs, numpy natively"""
    return seq_sum(x)


def _ej_post(a, r):
    o = a.self
    cn = names_of(o)[0]
    d, rv, v = chain(o, cn, "deltas"), chain(o, cn, "r_values"), value_of(o)
    n = Len(d)
    return {
        "len": Len(r) == n + 1,
        "mean-first": eq(At(r, 0), v),
        # as computed: (n*value - x_i) / (n - 1) with x_i = delta_i + replica mean
        "samples": ForAll(0, n, lambda i: eq(At(r, i + 1), (n * v - (At(d, i) + rv)) / (n - 1))),
    }


def _ej_ghost(v):
    """sum_k (delta_k + r) == sum_k delta_k + n r   (induction over the prefix length)"""
    o = v.self
    cn = names_of(o)[0]
    d, rv = chain(o, cn, "deltas"), chain(o, cn, "r_values")
    full = v.full_data
    from pyvc.sym import treal
    return [("induct", "sum-linear", 0, Len(d) + 1,
             lambda m: wrap(SUM(full.arr, tz(m))) == wrap(SUM(d.arr, tz(m))) + m * rv)]


contract(
    REL + "::Obs.export_jackknife", props=["C13"],
    params=dict(self=Custom(lambda n, c, s: None, variants=lambda: [(k, _ObsOn(v, 5)) for k, v in JK_LAYOUTS.items()])),
    inline=[REL + "::Obs.value"],
    raises=[("ValueError", lambda a: len(names_of(a.self)) != 1)],
    ensures=_ej_post,
    result=lambda a: RealSeq(),
    abstract_nl=False,
    note="out[0] = value, out[1+i] = (n value - x_i)/(n-1).  These are the leave-one-out means (sum x - x_i)/(n-1) exactly when "
         "n*value == sum x, i.e. value == replica mean and the fluctuations sum to zero: invariants of single-chain observables that are "
         "established by Obs.__init__ / derived_observable and are NOT re-proved here (see lemma leave-one-out below)",
    lemmas={"leave-one-out": lambda: _lemma_loo(), "round-trip": lambda: _lemma_roundtrip()},
)


def _lemma_loo():
    """if n*v == S (S the sum of the samples) then (n v - x)/(n-1) == (S - x)/(n-1)"""
    n, v, S, x = z3.Real("n"), z3.Real("v"), z3.Real("S"), z3.Real("x")
    return z3.Implies(z3.And(n >= 2, S == n * v), (n * v - x) / (n - 1) == (S - x) / (n - 1))


def _lemma_roundtrip():
    """import(export): with J_i = (n v - x_i)/(n-1) and sum_i J_i = (n n v - S)/(n-1), S = n v:
       sum_i J_i - (n-1) J_j == x_j"""
    n, v, S, xj = z3.Real("n"), z3.Real("v"), z3.Real("S"), z3.Real("xj")
    sumJ = (n * n * v - S) / (n - 1)
    Jj = (n * v - xj) / (n - 1)
    return z3.Implies(z3.And(n >= 2, S == n * v), sumJ - (n - 1) * Jj == xj)


# ---------------------------------------------------------------------------------------------------
# import_jackknife(jacks, name, idl): samples s_j = sum_{i>=1} J_i - (n-1) J_{1+j}, value = J_0

from contracts.obs_init import ListSpec, Fixed, RawIntList  # noqa: E402
from pyvc.specs import IdlRange, IdlList  # noqa: E402


def _ij_post(a, r):
    J = a.jacks
    n = Len(J) - 1
    cn = a.name
    tot = total_tail(J)
    s = lambda j: tot - (n - 1) * At(J, 1 + j)
    mean = chain(r, cn, "r_values")
    out = {
        "is-obs": is_obs(r), "names": names_of(r) == [cn],
        "value": eq(value_of(r), At(J, 0)),
        "len": Len(chain(r, cn, "deltas")) == n,
        # fluctuation + replica mean is the reconstructed sample
        "samples": ForAll(0, n, lambda j: eq(At(chain(r, cn, "deltas"), j) + mean, s(j))),
    }
    given = None if a.idl is None else (a.idl.items[0] if isinstance(a.idl, CList) else a.idl[0])
    oi = chain(r, cn, "idl")
    if given is None:
        out["idl"] = And(Len(oi) == n, ForAll(0, n, lambda k: At(oi, k) == k + 1))
    else:
        out["idl"] = And(Len(oi) == Len(given), ForAll(0, Len(given), lambda k: At(oi, k) == At(given, k)))
    return out


def total_tail(J):
    """sum of J[1:]"""
    from pyvc.lib import sum_range
    return sum_range(J, 1, Len(J))


class JacksSpec(Spec):
    def make(self, name, ctx, shape=None):
        from pyvc.specs import Seq
        return Seq("real", "ndarray", 6).make(name, ctx, shape)

    def shapes(self, bound):
        return [6, 7]

    def native(self, value, ev):
        import numpy as np
        return np.array([float(ev(x)) for x in value.items])

    def random(self, rng, shape=None):
        import numpy as np
        n = shape if shape is not None else rng.randint(6, 12)
        return np.array([rng.uniform(-2, 2) for _ in range(n)])



IJ_IDL = {"none": Fixed(None), "range": ListSpec([IdlRange(5)]), "list": ListSpec([IdlList(5)])}


def _ij_gen(rng, case):
    import numpy as np
    from pyvc import gen as G
    n = rng.randint(5, 9)
    jacks = np.array([rng.uniform(-2, 2) for _ in range(n + 1)])
    k = case["idl"]
    idl = None if k == "none" else [G.idl(rng, k, n)]
    if k == "list" and len(set(idl[0][j + 1] - idl[0][j] for j in range(n - 1))) == 1:
        idl[0][-1] += 1
    return {"jacks": jacks, "name": "A|r1", "idl": idl}


contract(
    REL + "::import_jackknife", props=["C13"],
    params=dict(jacks=JacksSpec(), name=Const("A|r1"),
                idl=Custom(lambda n, c, s: None, variants=lambda: [(k, v) for k, v in IJ_IDL.items()])),
    requires=lambda a: {} if a.idl is None else {"idl-length": Len(a.idl.items[0] if isinstance(a.idl, CList) else a.idl[0]) == Len(a.jacks) - 1},
    ensures=_ij_post,
    gen=_ij_gen, crosscheck=False,
    note="the projector ones - (n-1) identity is modelled as a structured matrix (alpha ones + beta identity); samples are stated "
         "through SUMRANGE(jacks, 1, n+1); restoring the original samples is the arithmetic lemma `round-trip` of export_jackknife",
)


# ---------------------------------------------------------------------------------------------------
# export_bootstrap / import_bootstrap: the single-chain guard is proved; the resampling itself (numpy RNG, bincount, lstsq) is outside
# the reach of the prover and is exercised natively: sample s of the export is the mean of the resampled data, and import inverts export

import ast  # noqa: E402


def _eb_slice(mod, fnode):
    out = []
    for st in fnode.body:
        if isinstance(st, ast.Expr) and isinstance(st.value, ast.Constant):
            continue
        out.append(st)
        if isinstance(st, ast.Assign) and isinstance(st.targets[0], ast.Name) and st.targets[0].id == "length":
            return out
    from pyvc.sym import CheckerError
    raise CheckerError("contract no longer binds: `length = self.N` not found in export_bootstrap")


def _eb_native(args):
    o = args["self"]
    rn = args.get("_random_numbers")
    return {"boots": o.export_bootstrap(samples=args["samples"], random_numbers=rn), "default": o.export_bootstrap(samples=args["samples"])}


def _eb_gen(rng, case):
    import numpy as np
    from pyvc.native import repo_module
    pe = repo_module("pyerrors.obs")
    if case["self"] == "two":
        return {"self": JK_SPEC["two"].random(rng), "samples": 20, "random_numbers": None, "save_rng": None, "_random_numbers": None}
    n = rng.choice([6, 9, 14])
    r = np.random.default_rng(rng.randint(0, 10 ** 6))
    o = pe.Obs([r.normal(size=n) + 2.0], ["A|r1"], idl=[range(3, 3 + 2 * n, 2)] if case["self"] == "range" else None)
    samples = rng.choice([n, n + 5, 40])
    return {"self": o, "samples": samples, "random_numbers": None, "save_rng": None, "_random_numbers": r.integers(0, n, size=(samples, n))}


JK_SPEC = {k: _ObsOn(v, 5) for k, v in JK_LAYOUTS.items()}


def _eb_post(a, r):
    if isinstance(a.self, SObj):
        return {"single chain": True, "length is the number of configurations": eq(r.length, A(a.self, "N"))}
    import numpy as np
    from pyvc.native import repo_module
    pe = repo_module("pyerrors.obs")
    o = a.self
    name = o.names[0]
    x = o.deltas[name] + o.r_values[name]
    rn = a.__dict__["_random_numbers"]
    boots = r["boots"]
    ok = len(boots) == a.samples + 1 and np.isclose(boots[0], o.value)
    ok = ok and all(np.isclose(boots[s + 1], np.mean(x[rn[s]]), rtol=1e-12, atol=1e-14) for s in range(a.samples))
    out = {"sample s is the mean of the data resampled with row s of the random numbers": bool(ok)}
    # the default table only depends on the chain name and has the right shape for THIS observable
    d = r["default"]
    out["default resampling: one mean per sample, within the range of the data"] = bool(
        len(d) == a.samples + 1 and np.all(d[1:] >= np.min(x) - 1e-12) and np.all(d[1:] <= np.max(x) + 1e-12))
    proj = np.vstack([np.bincount(row, minlength=len(x)) for row in rn]) / len(x)
    if a.samples >= len(x) and np.linalg.matrix_rank(proj) == len(x) and np.linalg.cond(proj) < 1e6:
        # the resampling matrix determines the data uniquely: only then can the import invert the export
        back = pe.import_bootstrap(boots, name, rn)
        out["import inverts export"] = bool(np.allclose(back.deltas[name] + back.r_values[name], x, rtol=1e-8, atol=1e-9) and np.isclose(back.value, o.value))
    return out


contract(
    REL + "::Obs.export_bootstrap", name=REL + "::Obs.export_bootstrap[guard; resampling checked natively]", props=["C13"],
    slice=_eb_slice,
    params=dict(self=Custom(lambda n, c, s: None, variants=lambda: [(k, v) for k, v in JK_SPEC.items()]),
                samples=Const(20), random_numbers=Const(None), save_rng=Const(None)),
    raises=[("ValueError", lambda a: len(names_of(a.self)) != 1)],
    ensures=_eb_post,
    native_call=_eb_native, gen=_eb_gen, crosscheck=False, refute=False,
    bounded="resampling identities of export_bootstrap / import_bootstrap: native sampling only (12 inputs per case in the quick tier, 80 in "
            "the thorough tier; chains of 6..14 configurations, 6..40 bootstrap samples); only the single-chain guard is a discharged obligation",
    slice_note="the statements up to `length = self.N` (rejection of observables with more than one chain); the resampling (numpy random "
               "numbers, bincount, matrix product) and import_bootstrap (least squares) are NOT verified deductively - they are exercised "
               "natively only (bounded sampling): sample s == mean of the resampled data, default table usable, import(export) == identity",
)
