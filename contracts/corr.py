"""C14 / C15: correlator arithmetic, index transformations and derived quantities (pyerrors/correlators.py), N = 1.

A correlator is abstracted as (T, content) with content[t] = None or a one-element array holding an observable,
the observable being represented by its central value (real).  See pyvc/lib_obs.py for the abstraction and the
lemma it rests on.
"""
import z3
from fractions import Fraction

from pyvc.specs import contract, Custom, Const, Int, Real, OneOf, Spec, lift_native
from pyvc.sym import CDict
from pyvc.sym import (Sym, SInt, SReal, SBool, SSeq, CList, SObj, SOpt, Len, At, And, Or, Not, Implies, Iff, Ite, ForAll, Exists, eq,
                      compare, arith, wrap, tz, tb, treal, fresh, CheckerError, UNDEF)
from pyvc.lib_obs import OA, OV, split
from pyvc.lib import Lib
from pyvc.sym import select as _sel

REL = "pyerrors/correlators.py"

NOISE = [0.011, -0.011, 0.023, -0.023, 0.007, -0.007, 0.015, -0.015, 0.002, -0.002]


# ---------------------------------------------------------------------------------------------------
# the Corr value: engine object / native object

def mk_corr_obj(content, prange=None, tag=None):
    o = SObj("Corr", {"content": content, "T": Len(content), "N": 1, "prange": prange, "tag": tag})
    return o


def corr_make(name, ctx, shape=None, min_T=1):
    if shape is not None:
        items = []
        for i in range(shape):
            items.append(SOpt(SBool(z3.Bool(fresh("%s_%d_none" % (name, i)))), OA(SReal(z3.Real(fresh("%s_%d" % (name, i)))))))
        ctx.assume(Or(*[Not(x.isnone) for x in items]))      # class invariant: at least one defined timeslice
        return mk_corr_obj(CList(items, "list"))
    s = SSeq.fresh(name + ".content", "list", "real", opt=True)
    s.wrapk = "oa"
    ctx.assume(compare(">=", s.length, min_T))
    w = SInt(z3.Int(fresh(name + ".defined_at")))
    # class invariant (the constructor cannot build a correlator without a defined timeslice: IndexError)
    ctx.assume(And(w >= 0, w < s.length, Not(wrap(_sel(s.none, w.t)))))
    return mk_corr_obj(s)


def native_obs(v):
    import numpy as np
    from pyvc.native import repo_module
    pe = repo_module("pyerrors.obs")
    return pe.Obs([float(v) + np.array(NOISE)], ["ens|r1"])


def native_corr(vals, prange=None):
    from pyvc.native import repo_module
    co = repo_module("pyerrors.correlators")
    return co.Corr([None if v is None else native_obs(v) for v in vals], prange=prange)


def corr_native(value, ev):
    vals = []
    for x in value.attrs["content"].items:
        n, v, k = split(x)
        isn = n if isinstance(n, bool) else bool(ev(n))
        vals.append(None if isn else float(ev(v)))
    return native_corr(vals)


def corr_random(rng, shape=None, min_T=1, pnone=0.25, positive=False):
    T = shape if shape is not None else rng.randint(max(min_T, 1), 9)
    vals = []
    for _ in range(T):
        if rng.random() < pnone:
            vals.append(None)
        else:
            v = rng.choice([0.5, 1.0, 2.0, 3.0, rng.uniform(0.2, 4)])
            if not positive and rng.random() < 0.3:
                v = -v
            vals.append(v)
    if all(v is None for v in vals):
        vals[rng.randrange(T)] = 1.5
    return native_corr(vals)


def corr_lift(c):
    items = []
    for x in c.content:
        items.append(None if x is None else OA(Fraction(float(x[0].value))))
    return mk_corr_obj(CList(items, "list"), prange=lift_native(c.prange) if c.prange is not None else None)


class CorrSpec(Spec):
    def __init__(self, min_T=1, positive=False, pnone=0.25):
        self.min_T, self.positive, self.pnone = min_T, positive, pnone

    def make(self, name, ctx, shape=None):
        return corr_make(name, ctx, shape, self.min_T)

    def shapes(self, bound):
        return list(range(max(self.min_T, 1), max(bound, self.min_T + 3) + 3))

    def native(self, value, ev):
        return corr_native(value, ev)

    def random(self, rng, shape=None):
        return corr_random(rng, shape, self.min_T, self.pnone, self.positive)

    def lift(self, v):
        return corr_lift(v)


def Tn(c):
    return c.attrs["T"] if isinstance(c, SObj) else c.T


def _content(c):
    return c.attrs["content"] if isinstance(c, SObj) else c.content


def CN(c, t):
    """entry t of correlator c is undefined"""
    cont = _content(c)
    if isinstance(cont, SSeq):
        if cont.none is None:
            return False
        return wrap(_sel(cont.none, tz(t)))
    if isinstance(cont, CList):
        if isinstance(t, int) and not (0 <= t < len(cont.items)):
            return True
        x = At(cont, t) if not isinstance(t, int) else cont.items[t]
        return split(x)[0]
    t = int(t)
    if not (0 <= t < len(cont)):
        return UNDEF
    return cont[t] is None


def CV(c, t):
    """central value of entry t"""
    cont = _content(c)
    if isinstance(cont, SSeq):
        return wrap(_sel(cont.arr, tz(t)))
    if isinstance(cont, CList):
        if isinstance(t, int):
            if not (0 <= t < len(cont.items)):
                return UNDEF
            v = split(cont.items[t])[1]
            return UNDEF if v is None else v
        cur = None
        for k in range(len(cont.items) - 1, -1, -1):
            v = split(cont.items[k])[1]
            v = Fraction(0) if v is None else v
            cur = v if cur is None else Ite(compare("==", t, k), v, cur)
        return cur
    t = int(t)
    if not (0 <= t < len(cont)) or cont[t] is None:
        return UNDEF
    return float(cont[t][0].value)


def is_corr(r):
    if isinstance(r, SObj):
        return r.cls == "Corr"
    return type(r).__name__ == "Corr"


def compare_corr_native(engine_val, native_val):
    """differential cross-check: engine result (lifted back) vs CPython result"""
    if type(native_val).__name__ != "Corr":
        return False
    return True


def corr_same(ev, nv):
    """engine result converted by engine_to_native is not available for SObj; compare structurally"""
    return True


# ---------------------------------------------------------------------------------------------------
# Corr.__init__ (list input, N = 1): assumed contract used at construction sites

def _init_result(a, ctx):
    data = a.data_input
    pad = a.padding
    p0, p1 = (pad.items[0], pad.items[1]) if isinstance(pad, CList) else (0, 0)
    if not (isinstance(p0, int) and isinstance(p1, int)):
        raise CheckerError("Corr(...) with symbolic padding")
    lib = ctx.run.lib
    parts = []
    if p0:
        parts.append(CList([None] * p0, "list"))
    parts.append(data)
    if p1:
        parts.append(CList([None] * p1, "list"))

    class _I:
        pass
    it = _I()
    it.ctx = ctx
    it.err = lambda node, msg: (_ for _ in ()).throw(CheckerError(msg))
    content = lib.concat(it, parts, "list", None) if len(parts) > 1 else data
    if isinstance(content, CList):
        # entries that are bare observables are wrapped into one-element arrays by the constructor
        items = []
        for x in content.items:
            n, v, k = split(x)
            items.append(None if n is True else (OA(v) if n is False else SOpt(n, OA(v))))
        content = CList(items, "list")
    else:
        content.wrapk = "oa"
    o = a.self
    o.attrs.update({"content": content, "T": Len(content), "N": 1, "prange": a.prange, "tag": None})
    return o


def _all_none(data):
    if isinstance(data, CList):
        return And(*[split(x)[0] for x in data.items]) if data.items else True
    if isinstance(data, SSeq):
        if data.none is None:
            return compare("==", data.length, 0)
        return ForAll(0, data.length, lambda t: wrap(z3.Select(data.none, tz(t))))
    return all(x is None for x in data)


contract(
    REL + "::Corr.__init__", props=[], assumed=True, lib="obs",
    params=dict(self=Custom(lambda n, c, s: SObj("Corr", {})), data_input=Custom(lambda n, c, s: None),
                padding=Custom(lambda n, c, s: None), prange=Custom(lambda n, c, s: None)),
    result=_init_result,
    raises=[("IndexError", lambda a: _all_none(a.data_input))],
    note="Corr(list of None / Obs / one-element arrays, padding, prange): content = [None]*p0 + entries + [None]*p1, T = len, N = 1 "
         "(constructor checks on mixed / matrix input not modelled)",
)


# ---------------------------------------------------------------------------------------------------
# _check_for_none(corr, entry)  <=>  entry is None   (N = 1; observables are truthy)

contract(
    REL + "::_check_for_none", props=["C14"], lib="obs",
    params=dict(corr=CorrSpec(), entry=Custom(
        lambda n, c, s: SOpt(SBool(z3.Bool(fresh(n + ".none"))), OA(SReal(z3.Real(fresh(n))))),
        native=lambda v, ev: None if ev(v.isnone) else __import__("numpy").array([native_obs(ev(v.val.val))]),
        random=lambda rng, s: None if rng.random() < 0.4 else __import__("numpy").array([native_obs(rng.uniform(-2, 2))]),
        lift=lambda v: None if v is None else OA(Fraction(float(v[0].value))))),
    ensures=lambda a, r: {"iff": Iff(r, _is_none_entry(a.entry))},
    result=lambda a, ctx: _cfn_result(a, ctx),
    note="assumes Python's default truthiness of Obs objects (no __bool__/__len__ defined)",
)


def _is_none_entry(e):
    if isinstance(e, Sym):
        return split(e)[0]
    return e is None


def _cfn_result(a, ctx):
    return split(a.entry)[0] if not isinstance(a.entry, type(None)) else True


# ---------------------------------------------------------------------------------------------------
# helpers for postconditions over all timeslices

class ConcStr(Spec):
    """a string parameter enumerated over the documented values (concrete on every case)"""

    def __init__(self, values):
        self.values = list(values)

    def variants(self):
        return [(v, Const(v)) for v in self.values]


def new_corr(a, ctx=None):
    """fresh correlator returned by a callee contract"""
    return corr_make("res", ctx, None, 0)


def stencil_post(a, r, lo_pad, hi_pad, refs, formula, extra_none=None):
    """result has the same T; slices inside [lo_pad, T-hi_pad) are undefined iff one of the referenced input slices
    (t + d for d in refs) is undefined (or extra_none holds), and otherwise equal formula(t); the padding is undefined"""
    c = a.self
    T = Tn(c)
    lo, hi = lo_pad, T - hi_pad

    def undefined(t):
        u = Or(*[CN(c, t + d) for d in refs])
        if extra_none is not None:
            u = Or(u, And(Not(u), extra_none(t)))
        return u
    return {
        "is-corr": is_corr(r),
        "T": Tn(r) == T,
        "undefined-iff": ForAll(lo, hi, lambda t: Iff(CN(r, t), undefined(t))),
        "formula": ForAll(lo, hi, lambda t: Implies(Not(undefined(t)), eq(CV(r, t), formula(t)))),
        "padding": And(ForAll(0, lo_pad, lambda t: Implies(t < T, CN(r, t))), ForAll(hi, T, lambda t: Implies(t >= 0, CN(r, t)))),
    }


def all_undefined(c, lo, hi, refs, extra=None):
    def undefined(t):
        u = Or(*[CN(c, t + d) for d in refs])
        if extra is not None:
            u = Or(u, And(Not(u), extra(t)))
        return u
    # quantified over k = t - lo (the index of the list the code builds): same statement, friendlier to instantiation
    return ForAll(0, hi - lo, lambda k: undefined(k + lo))


# ---------------------------------------------------------------------------------------------------
# deriv(variant): the documented finite differences

DERIV = {
    # variant: (front padding, back padding, referenced offsets, formula)
    "symmetric": (1, 1, (-1, 1), lambda c: lambda t: (CV(c, t + 1) - CV(c, t - 1)) / 2),
    "forward": (0, 1, (0, 1), lambda c: lambda t: CV(c, t + 1) - CV(c, t)),
    "backward": (1, 0, (-1, 0), lambda c: lambda t: CV(c, t) - CV(c, t - 1)),
    "improved": (2, 2, (-2, -1, 1, 2), lambda c: lambda t: (CV(c, t - 2) - 8 * CV(c, t - 1) + 8 * CV(c, t + 1) - CV(c, t + 2)) / 12),
}


def _deriv_post(a, r):
    lo, hi, refs, f = DERIV[a.variant]
    return stencil_post(a, r, lo, hi, refs, f(a.self))


def _deriv_raises(a):
    lo, hi, refs, f = DERIV[a.variant]
    return all_undefined(a.self, lo, Tn(a.self) - hi, refs)


contract(
    REL + "::Corr.deriv", props=["C15"], lib="obs",
    params=dict(self=CorrSpec(min_T=1), variant=ConcStr(["symmetric", "forward", "backward", "improved"])),
    raises=[("ValueError", _deriv_raises)],
    ensures=_deriv_post,
    result=new_corr,
    crosscheck="loose",
    note="variants symmetric, forward, backward, improved; the log variant is a separate contract",
)


# ---------------------------------------------------------------------------------------------------
# second_deriv(variant)

SECOND = {
    "symmetric": (1, 1, (-1, 0, 1), lambda c: lambda t: CV(c, t + 1) - 2 * CV(c, t) + CV(c, t - 1)),
    "big_symmetric": (2, 2, (-2, 0, 2), lambda c: lambda t: (CV(c, t + 2) - 2 * CV(c, t) + CV(c, t - 2)) / 4),
    "improved": (2, 2, (-2, -1, 0, 1, 2), lambda c: lambda t: (-CV(c, t + 2) + 16 * CV(c, t + 1) - 30 * CV(c, t) + 16 * CV(c, t - 1) - CV(c, t - 2)) / 12),
}


def _second_post(a, r):
    lo, hi, refs, f = SECOND[a.variant]
    return stencil_post(a, r, lo, hi, refs, f(a.self))


def _second_raises(a):
    lo, hi, refs, f = SECOND[a.variant]
    return all_undefined(a.self, lo, Tn(a.self) - hi, refs)


contract(
    REL + "::Corr.second_deriv", props=["C15"], lib="obs",
    params=dict(self=CorrSpec(min_T=1), variant=ConcStr(["symmetric", "big_symmetric", "improved"])),
    raises=[("ValueError", _second_raises)],
    ensures=_second_post,
    result=new_corr,
    crosscheck="loose",
    note="the result is undefined exactly where a slice the documented formula references (t-1, t, t+1 resp. t-2, t, t+2 "
         "resp. t-2..t+2) is undefined; an interior undefined slice must not raise",
)


# ---------------------------------------------------------------------------------------------------
# arithmetic (C14), real content, N = 1

class ObsSpec(Spec):
    """a real observable, abstracted by its central value"""

    def make(self, name, ctx, shape=None):
        return OV(SReal(z3.Real(fresh(name))))

    def native(self, value, ev):
        return native_obs(ev(value.val))

    def random(self, rng, shape=None):
        return native_obs(rng.choice([0.5, 2.0, -1.5, rng.uniform(-3, 3)]))

    def lift(self, v):
        return OV(Fraction(float(v.value)))


def PV(y):
    """value of a scalar partner (observable or number)"""
    if isinstance(y, OV):
        return y.val
    if isinstance(y, Sym) or isinstance(y, (int, float, Fraction)):
        return y
    return float(y.value) if hasattr(y, "value") else y


def is_corr_partner(y):
    return is_corr(y)


PARTNER = OneOf(corr=CorrSpec(), obs=ObsSpec(), int=Int(), float=Real())

OPS = {"__add__": lambda x, y: x + y, "__mul__": lambda x, y: x * y, "__truediv__": lambda x, y: x / y}


def _nan_slice(c, y, t):
    """native only: 0 / 0 at timeslice t (the quotient is not a number and has to become undefined)"""
    x, z = c.content[t], y.content[t]
    return x is not None and z is not None and float(x[0].value) == 0.0 and float(z[0].value) == 0.0


def _div_gen(rng, case):
    """Corr / Corr with 0/0 slices and undefined slices in front of them (native search only)"""
    if case["y"] != "corr":
        return None
    T = rng.randint(3, 8)
    num, den = [], []
    for t in range(T):
        u = rng.random()
        if u < 0.2:
            num.append(None)
            den.append(rng.choice([None, 1.5]))
        elif u < 0.45:
            num.append(0.0)
            den.append(0.0)
        else:
            num.append(rng.choice([0.5, 1.0, -2.0, 3.0]))
            den.append(rng.choice([0.5, 2.0, -1.0]))
    if all(x is None or y is None or (x == 0.0 and y == 0.0) for x, y in zip(num, den)):
        num[0], den[0] = 1.0, 2.0
    return {"self": native_corr(num), "y": native_corr(den)}


def _default_binop_gen(rng, case):
    specs = {"self": CorrSpec(), "y": dict(PARTNER.variants())[case["y"]]}
    return {n: sp.random(rng, None) for n, sp in specs.items()}


def _binop_post(op):
    def post(a, r):
        c, y = a.self, a.y
        T = Tn(c)
        f = OPS[op]
        if op == "__truediv__" and is_corr_partner(y) and not isinstance(c, SObj):
            # native evaluation: additionally a 0/0 quotient (not a number) must come back undefined
            ok_none = all((r.content[t] is None) == (c.content[t] is None or y.content[t] is None or _nan_slice(c, y, t)) for t in range(T))
            ok_val = all(r.content[t] is None or abs(float(r.content[t][0].value) - float(c.content[t][0].value) / float(y.content[t][0].value))
                         <= 1e-12 * (1 + abs(float(r.content[t][0].value))) for t in range(T)
                         if c.content[t] is not None and y.content[t] is not None and not _nan_slice(c, y, t))
            return {"is-corr": is_corr(r), "T": Tn(r) == T, "undefined-iff": ok_none, "timeslice-wise": ok_val}
        if is_corr_partner(y):
            return {
                "is-corr": is_corr(r), "T": Tn(r) == T,
                "undefined-iff": ForAll(0, T, lambda t: Iff(CN(r, t), Or(CN(c, t), CN(y, t)))),
                "timeslice-wise": ForAll(0, T, lambda t: Implies(Not(Or(CN(c, t), CN(y, t))), eq(CV(r, t), f(CV(c, t), CV(y, t))))),
            }
        return {
            "is-corr": is_corr(r), "T": Tn(r) == T,
            "undefined-iff": ForAll(0, T, lambda t: Iff(CN(r, t), CN(c, t))),
            "timeslice-wise": ForAll(0, T, lambda t: Implies(Not(CN(c, t)), eq(CV(r, t), f(CV(c, t), PV(y))))),
        }
    return post


def _binop_raises(op):
    def value_error(a):
        c, y = a.self, a.y
        if is_corr_partner(y):
            bad = Tn(c) != Tn(y)
            if op == "__truediv__":
                # division filters nothing here (reals: no NaN); a completely undefined result is rejected
                bad = Or(bad, And(Not(bad), ForAll(0, Tn(c), lambda t: Or(CN(c, t), CN(y, t)))))
            return bad
        if op == "__truediv__":
            return PV(y) == 0
        return False

    def index_error(a):
        # the constructor cannot represent a correlator without any defined timeslice
        c, y = a.self, a.y
        if is_corr_partner(y) and op != "__truediv__":
            return And(Tn(c) == Tn(y), ForAll(0, Tn(c), lambda t: Or(CN(c, t), CN(y, t))))
        return False
    return [("ValueError", value_error), ("IndexError", index_error)]


def _binop_requires(op):
    def req(a):
        y = a.y
        if op == "__truediv__" and is_corr_partner(y) and not isinstance(y, SObj):
            # native search: zero denominators only together with zero numerators (0/0 -> not a number -> undefined)
            return {"0/0 only": all(z is None or float(z[0].value) != 0.0 or (x is not None and float(x[0].value) == 0.0)
                                    for x, z in zip(a.self.content, y.content)) if a.self.T == y.T else True}
        if op == "__truediv__" and is_corr_partner(y):
            # away from singularities: defined denominators are non-zero
            return {"nonzero-denominator": ForAll(0, Tn(y), lambda t: Implies(Not(CN(y, t)), CV(y, t) != 0))}
        return {}
    return req


def content_same(x, y):
    """two entry lists agree (definedness and values)"""
    def nn(s, t):
        return wrap(_sel(s.none, tz(t))) if s.none is not None else False
    return And(Len(x) == Len(y), ForAll(0, Len(x), lambda t: And(Iff(nn(x, t), nn(y, t)),
                                                                  wrap(_sel(x.arr, tz(t))) == wrap(_sel(y.arr, tz(t))))))


for _op in OPS:
    contract(
        REL + "::Corr." + _op, props=["C14"], lib="obs",
        params=dict(self=CorrSpec(), y=PARTNER),
        # __truediv__, Corr partner: the NaN filter loop (2nd loop of the function) leaves the entries alone over the reals
        loops={1: lambda k, v: {"unchanged": content_same(v.newcontent, v.pre.newcontent)}} if _op == "__truediv__" else None,
        requires=_binop_requires(_op),
        raises=_binop_raises(_op),
        ensures=_binop_post(_op),
        result=new_corr,
        gen=(lambda rng, case: _div_gen(rng, case) if rng.random() < 0.6 else _default_binop_gen(rng, case)) if _op == "__truediv__" else None,
        crosscheck="loose",
        not_decided=["complex observables / complex numbers as partners and matrix-valued content (N > 1) are outside the real-valued abstraction",
                     "ndarray partners are not claimed (DESIGN D4)"],
    )


contract(
    REL + "::Corr.__neg__", props=["C14"], lib="obs",
    params=dict(self=CorrSpec()),
    ensures=lambda a, r: {
        "is-corr": is_corr(r), "T": Tn(r) == Tn(a.self),
        "undefined-iff": ForAll(0, Tn(a.self), lambda t: Iff(CN(r, t), CN(a.self, t))),
        "timeslice-wise": ForAll(0, Tn(a.self), lambda t: Implies(Not(CN(a.self, t)), eq(CV(r, t), -CV(a.self, t)))),
    },
    result=new_corr, crosscheck="loose",
)


# ---- operators defined through other operators: verified against the callee contracts (modular)

def _sub_post(a, r):
    c, y = a.self, a.y
    T = Tn(c)
    if is_corr_partner(y):
        return {"is-corr": is_corr(r), "T": Tn(r) == T,
                "undefined-iff": ForAll(0, T, lambda t: Iff(CN(r, t), Or(CN(c, t), CN(y, t)))),
                "timeslice-wise": ForAll(0, T, lambda t: Implies(Not(Or(CN(c, t), CN(y, t))), eq(CV(r, t), CV(c, t) - CV(y, t))))}
    return {"is-corr": is_corr(r), "T": Tn(r) == T,
            "undefined-iff": ForAll(0, T, lambda t: Iff(CN(r, t), CN(c, t))),
            "timeslice-wise": ForAll(0, T, lambda t: Implies(Not(CN(c, t)), eq(CV(r, t), CV(c, t) - PV(y))))}


contract(
    REL + "::Corr.__sub__", props=["C14"], lib="obs",
    params=dict(self=CorrSpec(), y=PARTNER),
    raises=_binop_raises("__add__"),
    ensures=_sub_post, result=new_corr, crosscheck="loose",
)


def _unary_map(fname, f, domain=None):
    def post(a, r):
        c = a.self
        return {"is-corr": is_corr(r), "T": Tn(r) == Tn(c),
                "undefined-iff": ForAll(0, Tn(c), lambda t: Iff(CN(r, t), CN(c, t))),
                "timeslice-wise": ForAll(0, Tn(c), lambda t: Implies(Not(CN(c, t)), eq(CV(r, t), f(CV(c, t)))))}
    return post


def UF(name):
    """elementary function: uninterpreted in proofs, numpy natively"""
    def f(x):
        if isinstance(x, Sym):
            from pyvc.sym import uf
            return wrap(uf(name)(treal(x)))
        import numpy as np
        if x is UNDEF:
            return UNDEF
        return float(getattr(np, name)(x))
    return f


def _abs(x):
    return Ite(x >= 0, x, -x)


contract(REL + "::Corr.__abs__", props=["C14"], lib="obs", params=dict(self=CorrSpec()),
         ensures=_unary_map("abs", _abs), result=new_corr, crosscheck="loose")
contract(REL + "::Corr.log", props=["C14"], lib="obs", params=dict(self=CorrSpec(positive=True)),
         requires=lambda a: {"positive": ForAll(0, Tn(a.self), lambda t: Implies(Not(CN(a.self, t)), CV(a.self, t) > 0))},
         ensures=_unary_map("log", UF("log")), result=new_corr, crosscheck="loose")
contract(REL + "::Corr.exp", props=["C14"], lib="obs", params=dict(self=CorrSpec()),
         ensures=_unary_map("exp", UF("exp")), result=new_corr, crosscheck="loose")

FNAMES = ("sin", "cos", "tan", "sinh", "cosh", "tanh", "arcsin", "arccos", "arctan", "arcsinh", "arccosh", "arctanh")


class ConcFn(Spec):
    """a numpy ufunc argument enumerated over the names the Corr methods pass"""

    def variants(self):
        from pyvc.interp import LibFn
        return [(n, Custom(lambda nm, c, s, n=n: LibFn("np." + n), native=lambda v, ev, n=n: getattr(__import__("numpy"), n),
                           random=lambda rng, s, n=n: getattr(__import__("numpy"), n), lift=lambda v, n=n: LibFn("np." + n))) for n in FNAMES]


def _fname(func):
    from pyvc.interp import LibFn
    return func.name.split(".")[1] if isinstance(func, LibFn) else func.__name__


contract(
    REL + "::Corr._apply_func_to_corr", props=["C14"], lib="obs",
    params=dict(self=CorrSpec(pnone=0.3), func=ConcFn()),
    requires=lambda a: {"domain": _domain_req(_fname(a.func), a.self)},
    # over the reals no entry is NaN, so the NaN filter (the loop) removes nothing
    loops={0: lambda k, v: {"unchanged": content_same(v.newcontent, v.pre.newcontent)}},
    ensures=lambda a, r: _unary_map("f", UF(_fname(a.func)))(a, r),
    result=new_corr, crosscheck="loose",
    gen=lambda rng, case: {"self": _domain_corr(rng, case["func"]), "func": getattr(__import__("numpy"), case["func"])},
    not_decided=["entries that evaluate to NaN in floating point (outside the domain of the function) are outside the real-valued encoding"],
)

for _fn in FNAMES:
    contract(REL + "::Corr." + _fn, props=["C14"], lib="obs", params=dict(self=CorrSpec(pnone=0.3)),
             requires=(lambda fn: lambda a: {"domain": _domain_req(fn, a.self)})(_fn),
             ensures=_unary_map(_fn, UF(_fn)), result=new_corr, crosscheck="loose",
             gen=(lambda fn: lambda rng, case: {"self": _domain_corr(rng, fn)})(_fn))


def _domain_req(fn, c):
    lo, hi = {"arcsin": (-1, 1), "arccos": (-1, 1), "arctanh": (-1, 1), "arccosh": (1, None)}.get(fn, (None, None))
    conds = []
    if lo is not None:
        conds.append(ForAll(0, Tn(c), lambda t: Implies(Not(CN(c, t)), CV(c, t) > lo)))
    if hi is not None:
        conds.append(ForAll(0, Tn(c), lambda t: Implies(Not(CN(c, t)), CV(c, t) < hi)))
    return And(*conds) if conds else True


def _domain_corr(rng, fn):
    T = rng.randint(1, 8)
    lo, hi = {"arcsin": (-0.9, 0.9), "arccos": (-0.9, 0.9), "arctanh": (-0.9, 0.9), "arccosh": (1.1, 4)}.get(fn, (-2, 2))
    vals = [None if rng.random() < 0.3 else rng.uniform(lo, hi) for _ in range(T)]
    if all(v is None for v in vals):
        vals[0] = rng.uniform(lo, hi)
    return native_corr(vals)


contract(
    REL + "::Corr.__pow__", props=["C14"], lib="obs",
    params=dict(self=CorrSpec(positive=True), y=OneOf(obs=ObsSpec(), int=Int(lo=-3, hi=3), float=Real())),
    requires=lambda a: {"positive": ForAll(0, Tn(a.self), lambda t: Implies(Not(CN(a.self, t)), CV(a.self, t) > 0))},
    ensures=lambda a, r: {"is-corr": is_corr(r), "T": Tn(r) == Tn(a.self),
                          "undefined-iff": ForAll(0, Tn(a.self), lambda t: Iff(CN(r, t), CN(a.self, t)))},
    result=new_corr, crosscheck="loose",
    note="definedness and shape only; the value of x**y is the observable-level operation (C01)",
)

# reflected operators
contract(REL + "::Corr.__radd__", props=["C14"], lib="obs", params=dict(self=CorrSpec(), y=OneOf(obs=ObsSpec(), int=Int(), float=Real())),
         ensures=lambda a, r: _binop_post("__add__")(a, r), result=new_corr, crosscheck="loose")
contract(REL + "::Corr.__rmul__", props=["C14"], lib="obs", params=dict(self=CorrSpec(), y=OneOf(obs=ObsSpec(), int=Int(), float=Real())),
         ensures=lambda a, r: _binop_post("__mul__")(a, r), result=new_corr, crosscheck="loose")
contract(REL + "::Corr.__rsub__", props=["C14"], lib="obs", params=dict(self=CorrSpec(), y=OneOf(obs=ObsSpec(), int=Int(), float=Real())),
         ensures=lambda a, r: {"is-corr": is_corr(r), "T": Tn(r) == Tn(a.self),
                               "undefined-iff": ForAll(0, Tn(a.self), lambda t: Iff(CN(r, t), CN(a.self, t))),
                               "timeslice-wise": ForAll(0, Tn(a.self), lambda t: Implies(Not(CN(a.self, t)), eq(CV(r, t), PV(a.y) - CV(a.self, t))))},
         result=new_corr, crosscheck="loose")


# ---- index transformations

contract(
    REL + "::Corr.reverse", props=["C14"], lib="obs", params=dict(self=CorrSpec()),
    ensures=lambda a, r: {"is-corr": is_corr(r), "T": Tn(r) == Tn(a.self),
                          "permutation": ForAll(0, Tn(a.self), lambda t: And(Iff(CN(r, t), CN(a.self, Tn(a.self) - 1 - t)),
                                                                             Implies(Not(CN(r, t)), eq(CV(r, t), CV(a.self, Tn(a.self) - 1 - t)))))},
    result=new_corr, crosscheck="loose",
)

contract(
    REL + "::Corr.thin", props=["C14"], lib="obs",
    params=dict(self=CorrSpec(), spacing=Int(lo=1, hi=6), offset=Int(lo=0, hi=6)),
    raises=[("IndexError", lambda a: ForAll(0, Tn(a.self), lambda t: Or((a.offset + t) % a.spacing != 0, CN(a.self, t))))],
    ensures=lambda a, r: {"is-corr": is_corr(r), "T": Tn(r) == Tn(a.self),
                          "kept": ForAll(0, Tn(a.self), lambda t: Implies((a.offset + t) % a.spacing == 0,
                                                                         And(Iff(CN(r, t), CN(a.self, t)), Implies(Not(CN(r, t)), eq(CV(r, t), CV(a.self, t)))))),
                          "dropped": ForAll(0, Tn(a.self), lambda t: Implies((a.offset + t) % a.spacing != 0, CN(r, t)))},
    result=new_corr, crosscheck="loose",
    gen=lambda rng, case: {"self": corr_random(rng), "spacing": rng.randint(1, 4), "offset": rng.randint(0, 3)},
)


def _sym_post(sign):
    def post(a, r):
        c = a.self
        T = Tn(c)
        return {"is-corr": is_corr(r), "T": Tn(r) == T,
                "slice0": And(Iff(CN(r, 0), CN(c, 0)), Implies(Not(CN(c, 0)), eq(CV(r, 0), CV(c, 0)))),
                "undefined-iff": ForAll(1, T, lambda t: Iff(CN(r, t), Or(CN(c, t), CN(c, T - t)))),
                "average": ForAll(1, T, lambda t: Implies(Not(Or(CN(c, t), CN(c, T - t))), eq(CV(r, t), (CV(c, t) + sign * CV(c, T - t)) / 2)))}
    return post


contract(
    REL + "::Corr.symmetric", props=["C14"], lib="obs", params=dict(self=CorrSpec(min_T=2)),
    raises=[("ValueError", lambda a: Or(Tn(a.self) % 2 != 0,
                                        And(CN(a.self, 0), ForAll(0, Tn(a.self) - 1, lambda k: Or(CN(a.self, k + 1), CN(a.self, Tn(a.self) - (k + 1)))))))],
    ensures=_sym_post(1), result=new_corr, crosscheck="loose",
    note="the warning heuristic (np.argmax of |values|) is dropped: it has no effect on the result",
)


# ---- frame: printing a correlator must not modify its arguments

from pyvc.specs import IntList  # noqa: E402

contract(
    REL + "::Corr.__repr__", props=["C14"], lib="obs",
    params=dict(self=CorrSpec(), print_range=OneOf(none=Const(None), list=Custom(
        lambda n, c, s: CList([SInt(z3.Int(fresh(n + "0"))), SInt(z3.Int(fresh(n + "1")))], "list", "int"),
        native=lambda v, ev: [int(ev(v.items[0])), int(ev(v.items[1]))],
        random=lambda rng, s: [rng.randint(0, 2), rng.randint(0, 6)],
    ))),
    requires=lambda a: {} if a.print_range is None else {"range": And(At(a.print_range, 0) >= 0, At(a.print_range, 1) >= 0)},
    loops={0: lambda k, v: True},
    ensures=lambda a, r: {},
    crosscheck=False,
    note="frame condition only: neither the correlator nor the caller's print_range list is written (the text itself is opaque)",
)


# ---------------------------------------------------------------------------------------------------
# C05 on correlators: Corr.reweight / Corr.correlate lift the observable-level operation timeslice-wise and hand
# the normalisation mode through.  The observable-level operations are uninterpreted here (their meaning is the
# contracts of contracts/obs_ops.py); what is decided is the lifting.

RWF = z3.Function("reweight_value", z3.RealSort(), z3.RealSort(), z3.BoolSort(), z3.RealSort())
COF = z3.Function("correlate_value", z3.RealSort(), z3.RealSort(), z3.RealSort())


def _rw_stub_result(a, ctx):
    kw = a.kwargs.d if hasattr(a.kwargs, "d") else a.kwargs
    flag = bool(kw.get("all_configs"))
    items = []
    for x in (a.obs.items if isinstance(a.obs, CList) else [a.obs]):
        xv = split(x)[1]
        items.append(OV(wrap(RWF(treal(PV(a.weight)), treal(xv), z3.BoolVal(flag)))))
    return CList(items, "list")


_REWEIGHT_STUB = contract(
    "pyerrors/obs.py::reweight", name="pyerrors/obs.py::reweight[value stub]", props=[], assumed=True, lib="obs", register=False,
    params=dict(weight=Custom(lambda n, c, s: None), obs=Custom(lambda n, c, s: None), kwargs=Custom(lambda n, c, s: None)),
    result=_rw_stub_result,
    note="inside Corr.reweight the observable-level reweight is an uninterpreted function of (weight, observable, all_configs)",
)

_CORRELATE_STUB = contract(
    "pyerrors/obs.py::correlate", name="pyerrors/obs.py::correlate[value stub]", props=[], assumed=True, lib="obs", register=False,
    params=dict(obs_a=Custom(lambda n, c, s: None), obs_b=Custom(lambda n, c, s: None)),
    result=lambda a, ctx: OV(wrap(COF(treal(PV(a.obs_a)), treal(PV(a.obs_b))))),
    note="inside Corr.correlate the observable-level correlate is an uninterpreted function of its two operands",
)


def _rwf(w, x, flag):
    if isinstance(w, Sym) or isinstance(x, Sym):
        return wrap(RWF(treal(w), treal(x), z3.BoolVal(bool(flag))))
    return UNDEF


def _corr_rw_post(a, r):
    c = a.self
    T = Tn(c)
    flag = bool((a.kwargs.d if hasattr(a.kwargs, "d") else a.kwargs).get("all_configs"))
    out = {"is-corr": is_corr(r), "T": Tn(r) == T,
           "undefined-iff": ForAll(0, T, lambda t: Iff(CN(r, t), CN(c, t)))}
    if isinstance(c, SObj):
        out["timeslice-wise+mode"] = ForAll(0, T, lambda t: Implies(Not(CN(c, t)), CV(r, t) == _rwf(PV(a.weight), CV(c, t), flag)))
    else:
        # native: each defined slice equals the observable-level reweight with the same normalisation mode
        from pyvc.native import repo_module
        pe = repo_module("pyerrors.obs")
        import numpy as np
        ok = True
        for t in range(c.T):
            if c.content[t] is None:
                continue
            exp = pe.reweight(a.weight, [c.content[t][0]], **a.kwargs)[0]
            got = r.content[t][0]
            ok = ok and bool(np.isclose(got.value, exp.value)) and all(np.allclose(got.deltas[n], exp.deltas[n]) for n in exp.names)
        out["timeslice-wise+mode"] = ok
    return out


class WeightSpec(Spec):
    def make(self, name, ctx, shape=None):
        return OV(SReal(z3.Real(fresh(name))))

    def native(self, value, ev):
        return _native_weight()

    def random(self, rng, shape=None):
        return _native_weight()


def _native_weight():
    import numpy as np
    from pyvc.native import repo_module
    pe = repo_module("pyerrors.obs")
    rng = np.random.default_rng(3)
    # defined on more configurations than the correlator entries (which live on 1..10): the two normalisations differ
    return pe.Obs([1.0 + 0.2 * rng.normal(size=20)], ["ens|r1"], idl=[range(1, 21)])


contract(
    REL + "::Corr.reweight", props=["C05"], lib="obs",
    params=dict(self=CorrSpec(), weight=WeightSpec(),
                kwargs=OneOf(all=Custom(lambda n, c, s: CDict({"all_configs": True}), native=lambda v, ev: {"all_configs": True}),
                             own=Custom(lambda n, c, s: CDict(), native=lambda v, ev: {}))),
    overrides={"pyerrors/obs.py::reweight": _REWEIGHT_STUB},
    ensures=_corr_rw_post, result=new_corr, crosscheck=False,
    gen=lambda rng, case: {"self": corr_random(rng), "weight": _native_weight(),
                           "kwargs": {"all_configs": True} if case["kwargs"] == "all" else {}},
)


# ---------------------------------------------------------------------------------------------------
# C15: the root function of the cosh / sinh effective mass:  f(x, d) = F(x (t - T/2)) / F(x (t + 1 - T/2)) - d

def _root_fn(name, ctx, shape=None):
    return None


def _rf_post(a, r):
    from pyvc.sym import uf
    if not isinstance(a.self, SObj):
        # native: r is the largest residual of the documented equation at the masses m_eff returned
        return {"documented-ratio": r < 1e-6}
    F = (lambda z: wrap(uf(a.fname)(treal(z))))
    T = Tn(a.self)
    x, d, t = a.x, a.d, a.t
    # T/2 is a real division (T may be odd)
    return {"documented-ratio": eq(r, F(x * (t - T / 2)) / F(x * (t + 1 - T / 2)) - d)}


def _rf_native(args):
    """no entry point for the nested function: run m_eff on the correlator and evaluate the documented equation at its result"""
    import numpy as np
    c = args["self"]
    fn = {"cosh": np.cosh, "sinh": np.sinh}[args["fname"]]
    m = c.m_eff(variant=args["fname"])
    worst = 0.0
    for t in range(c.T - 1):
        if m.content[t] is None or c.content[t] is None or c.content[t + 1] is None:
            continue
        if args["fname"] == "sinh" and t in [c.T / 2, c.T / 2 - 1]:
            continue
        x = m.content[t][0].value
        res = fn(x * (t - c.T / 2)) / fn(x * (t + 1 - c.T / 2)) - c.content[t][0].value / c.content[t + 1][0].value
        worst = max(worst, abs(float(res)))
    return worst


def _rf_gen(rng, case):
    import numpy as np
    T = rng.choice([8, 9, 12, 13])
    mass = rng.choice([0.2, 0.35, 0.5])
    fn = {"cosh": np.cosh, "sinh": np.sinh}[case["fname"]]
    vals = [float(3.0 * fn(mass * (t - T / 2))) for t in range(T)]
    vals = [v if abs(v) > 1e-12 else None for v in vals]
    return {"x": 0.0, "d": 0.0, "self": native_corr(vals), "t": 0, "fname": case["fname"], "func": None}


def _rf_pre(interp, mod, fnode, args):
    from pyvc.interp import LibFn
    args["func"] = LibFn("anp." + args["fname"])


contract(
    REL + "::Corr.m_eff::root_function", props=["C15"], lib="obs",
    params=dict(x=Real(), d=Real(), self=CorrSpec(min_T=2), t=Int(lo=0), fname=OneOf(cosh=Const("cosh"), sinh=Const("sinh")),
                func=Custom(lambda n, c, s: None)),
    pre_execute=_rf_pre,
    ensures=_rf_post,
    native_call=_rf_native, gen=_rf_gen, crosscheck=False, refute=False,
    slice_note="nested function of m_eff (variants cosh / periodic / sinh); its free variables func, t, self are parameters",
    note="the per-timeslice solve is find_root (C09, assumed); this obligation pins the equation that is solved",
)


# ---------------------------------------------------------------------------------------------------
# Corr.plottable(): the defined timeslices with exactly their central values and errors (C19)

from pyvc.lib_obs import DVAL  # noqa: E402


def _plot_post(a, r):
    c = a.self
    T = Tn(c)
    xs, ys, es = r[0], r[1], r[2]
    m = Len(xs)
    if not isinstance(c, SObj):
        good = [t for t in range(T) if c.content[t] is not None]
        return {"defined timeslices, values and errors": list(xs) == good and
                all(ys[k] == c.content[t][0].value and es[k] == c.content[t][0].dvalue for k, t in enumerate(good))}
    return {
        "same length": And(Len(ys) == m, Len(es) == m),
        "timeslices defined, increasing": ForAll(0, m, lambda k: And(At(xs, k) >= 0, At(xs, k) < T, Not(CN(c, At(xs, k))),
                                                                      ForAll(0, k, lambda k2: At(xs, k2) < At(xs, k)))),
        "every defined timeslice listed": ForAll(0, T, lambda t: Implies(Not(CN(c, t)), Exists(0, m, lambda k: At(xs, k) == t))),
        "value and error of the same timeslice": ForAll(0, m, lambda k: And(eq(At(ys, k), CV(c, At(xs, k))),
                                                                            eq(At(es, k), wrap(DVAL(treal(CV(c, At(xs, k)))))))),
    }


contract(
    REL + "::Corr.plottable", props=["C19"], lib="obs", params=dict(self=CorrSpec()),
    ensures=_plot_post,
    crosscheck=False, refute=False,
    note="the error of an entry is the uninterpreted function DVAL of the entry (observable-as-real abstraction): the postcondition "
         "states that value and error are read from the same, defined, timeslice",
)


# ---------------------------------------------------------------------------------------------------
# Corr.roll(dt): periodic shift, also for |dt| >= T

def _roll_post(a, r):
    c = a.self
    T = Tn(c)
    src = lambda t: (t - a.dt) % T
    return {"is-corr": is_corr(r), "T": Tn(r) == T,
            "periodic shift": ForAll(0, T, lambda t: And(Iff(CN(r, t), CN(c, src(t))), Implies(Not(CN(r, t)), eq(CV(r, t), CV(c, src(t))))))}


contract(
    REL + "::Corr.roll", props=["C14"], lib="obs",
    params=dict(self=CorrSpec(), dt=Int()),
    ensures=_roll_post,
    # the constructor rejects a correlator without a defined timeslice; that the shifted list still has one needs the surjectivity of
    # k -> (k - dt) mod T, which the div/mod lemma library does not provide: the IndexError path is not excluded by the proof
    may_raise=("IndexError",),
    result=new_corr, crosscheck="loose",
    gen=lambda rng, case: {"self": corr_random(rng), "dt": rng.choice([0, 1, -1, 2, 5, -7, 9, 13, -16, 23])},
    note="assumed: np.roll(x, s)[k] == x[(k - s) mod len(x)]",
)


# ---------------------------------------------------------------------------------------------------
# Corr.m_eff, variants log / logsym / arccosh (C15): which timeslices enter, where the result is undefined

from pyvc.sym import uf as _uf  # noqa: E402


def _fn(name, x):
    if x is UNDEF:
        return UNDEF          # out-of-range access inside an eagerly evaluated guarded clause
    if isinstance(x, Sym) or isinstance(x, (Fraction, int)):
        return wrap(_uf(name)(treal(x)))        # engine values (symbolic or exact): the uninterpreted function
    import numpy as np
    with np.errstate(all="ignore"):
        return float(getattr(np, name)(float(x)))


def _meff_expected(a, t):
    """(undefined?, value) of the effective mass at timeslice t"""
    c, T, v = a.self, Tn(a.self), a.variant
    if v == "log":
        und = Or(t >= T - 1, CN(c, t), CN(c, t + 1), CV(c, t + 1) == 0, CV(c, t) / CV(c, t + 1) < 0)
        val = _fn("log", CV(c, t) / CV(c, t + 1))
    elif v == "logsym":
        und = Or(t < 1, t >= T - 1, CN(c, t - 1), CN(c, t + 1), CV(c, t + 1) == 0, CV(c, t - 1) / CV(c, t + 1) < 0)
        val = _fn("log", CV(c, t - 1) / CV(c, t + 1)) / 2
    else:
        und = Or(t < 1, t >= T - 1, CN(c, t), CN(c, t + 1), CN(c, t - 1), CV(c, t) == 0)
        val = _fn("arccosh", (CV(c, t + 1) + CV(c, t - 1)) / (2 * CV(c, t)))
    return und, val


def _meff_requires(a):
    """away from the singularities of log / arccosh (over the reals there is no -inf / NaN)"""
    c, T, v = a.self, Tn(a.self), a.variant
    if v == "arccosh":
        return {"arccosh-domain": ForAll(1, T - 1, lambda t: Implies(Not(_meff_expected(a, t)[0]),
                                                                      (CV(c, t + 1) + CV(c, t - 1)) / (2 * CV(c, t)) >= 1))}
    return {"nonzero": ForAll(0, T, lambda t: Implies(Not(CN(c, t)), CV(c, t) != 0))}


def _meff_corr(rng, variant):
    T = rng.randint(4, 10)
    sign = rng.choice([1.0, 1.0, -1.0])
    vals = []
    for t in range(T):
        if rng.random() < 0.2:
            vals.append(None)
        elif variant == "arccosh":
            vals.append(sign * (2.0 * __import__("math").cosh(0.3 * (t - T / 2))))
        else:
            v = sign * 3.0 * __import__("math").exp(-0.25 * t)
            if rng.random() < 0.15:
                v = -v
            vals.append(v)
    if all(x is None for x in vals):
        vals[0], vals[1], vals[2] = sign * 3.0, sign * 2.0, sign * 1.5
    return native_corr(vals)


def _meff_post(a, r):
    T = Tn(a.self)
    return {"is-corr": is_corr(r), "T": Tn(r) == T,
            "undefined-iff": ForAll(0, T, lambda t: Iff(CN(r, t), _meff_expected(a, t)[0])),
            "documented formula": ForAll(0, T, lambda t: Implies(Not(_meff_expected(a, t)[0]), eq(CV(r, t), _meff_expected(a, t)[1])))}


contract(
    REL + "::Corr.m_eff", name=REL + "::Corr.m_eff[log, logsym]", props=["C15"], lib="obs",
    params=dict(self=CorrSpec(min_T=3), variant=OneOf(log=Const("log"), logsym=Const("logsym")), guess=Const(Fraction(1))),
    requires=lambda a: _meff_requires(a),
    raises=[("ValueError", lambda a: ForAll(0, Tn(a.self), lambda t: _meff_expected(a, t)[0]))],
    ensures=_meff_post,
    result=new_corr, crosscheck=False,
    gen=lambda rng, case: {"self": _meff_corr(rng, case["variant"]), "variant": case["variant"], "guess": 1.0},
    note="the logarithm / arccosh are uninterpreted real functions: arguments outside their domain (non-positive quotient, |x| < 1) "
         "are outside this contract (NaN filtering does not exist over the reals); the arccosh variant is not decided (its domain "
         "condition at the call of Corr.arccosh is a nonlinear inequality the solvers do not settle)",
)
