"""C02 / C03: pieces of the Gamma-method error analysis (pyerrors/obs.py::Obs.gamma_method and helpers)."""
import ast
import z3
from fractions import Fraction

from pyvc.specs import contract, Spec, Custom, Const, OneOf, Int, Real, Seq, RealSeq
from pyvc.sym import (Sym, SInt, SReal, SBool, SSeq, CList, CDict, SObj, SRange, Len, At, And, Or, Not, Implies, Iff, Ite, ForAll, Exists,
                      eq, compare, fresh, wrap, tz, is_range, UNDEF)
from pyvc import gen as G
from contracts.obsmodel import Layout, ObsSpec, _ObsOn, mk_obs, A, D, chain, names_of
import contracts.obs_kernel  # noqa: F401  (callee contracts)

REL = "pyerrors/obs.py"


# ---------------------------------------------------------------------------------------------------
# _determine_gap(o, e_content, e_name): the smallest spacing among the replica of the ensemble; it must divide
# all the others (common spacing) else ValueError

GAP_LAYOUTS = {
    "1r": Layout([("A|r1", "range")]), "1l": Layout([("A|r1", "list")]),
    "rl": Layout([("A|r1", "range"), ("A|r2", "list")]), "ll": Layout([("A|r1", "list"), ("A|r2", "list")]),
    "rr": Layout([("A|r1", "range"), ("A|r2", "range")]),
}


def spacing(idl):
    """spacing of one chain: the step of a range, the smallest difference of a list"""
    if is_range(idl):
        return idl.step
    if isinstance(idl, Sym):
        return None
    return min(idl[i + 1] - idl[i] for i in range(len(idl) - 1))


def is_spacing(g, idl):
    """g is the spacing of idl (relational form, usable symbolically)"""
    if is_range(idl):
        return g == idl.step
    n = Len(idl)
    return And(ForAll(0, n - 1, lambda i: g <= At(idl, i + 1) - At(idl, i)), Exists(0, n - 1, lambda i: g == At(idl, i + 1) - At(idl, i)))


def _gap_post(a, r):
    o = a.o
    idls = [chain(o, cn, "idl") for cn in names_of(o)]
    # r is the spacing of one replica, and not larger than the spacing of any replica
    return {
        "is-a-spacing": Or(*[is_spacing(r, x) for x in idls]),
        "minimal": And(*[_le_spacing(r, x) for x in idls]),
    }


def _le_spacing(g, idl):
    if is_range(idl):
        return g <= idl.step
    return ForAll(0, Len(idl) - 1, lambda i: g <= At(idl, i + 1) - At(idl, i))


def _gap_raises(a):
    """ValueError iff the smallest spacing does not divide the spacing of every replica"""
    o = a.o
    idls = [chain(o, cn, "idl") for cn in names_of(o)]
    if all(not isinstance(x, Sym) for x in idls):
        sp = [spacing(x) for x in idls]
        return any(s % min(sp) != 0 for s in sp)
    # symbolic: stated through fresh spacing values
    return None


contract(
    REL + "::_determine_gap", props=["C02", "C03"],
    params=dict(o=Custom(lambda n, c, s: None, variants=lambda: [(k, _ObsOn(v, 5)) for k, v in GAP_LAYOUTS.items()]),
                e_content=Custom(lambda n, c, s: None, variants=lambda: [
                    (k, Custom(lambda n, c, s, v=v: CDict({"A": CList(list(v.names), "list")}), native=lambda val, ev, v=v: {"A": list(v.names)}))
                    for k, v in GAP_LAYOUTS.items()]),
                e_name=Const("A")),
    cases_filter=lambda case: case["o"] == case["e_content"],
    may_raise=("ValueError",),
    ensures=_gap_post,
    result=lambda a: Int(lo=1),
    crosscheck=False,
    gen=lambda rng, case: _gap_gen(rng, case),
    note="result is the minimal spacing; the ValueError for replicas without a common spacing is allowed but its exact condition "
         "(divisibility) is checked only natively",
)


def _gap_make_econtent(o):
    return CDict({"A": CList(names_of(o), "list")})


def _gap_gen(rng, case):
    lay = GAP_LAYOUTS[case["o"]]
    g = rng.choice([1, 2, 3])
    from contracts.obsmodel import native_obs_from
    chains = {}
    for cn, kind in lay.chains:
        idl = G.lattice_idl(rng, kind, g, rng.randint(5, 8))
        chains[cn] = (idl, list(G.reals(rng, len(idl))))
    o = native_obs_from({"chains": chains})
    return {"o": o, "e_content": o.e_content, "e_name": "A"}


# ---------------------------------------------------------------------------------------------------
# Obs.gamma_method::_compute_drho(i): the vector whose norm is the error of rho(i) (Luescher's formula, truncated
# at w_max):   tmp[k-1] = rho(i+k) + rho(|i-k|) - 2 rho(i) rho(k)   for k = 1 .. w_max-i-1

def _rho_obj(name, ctx, shape=None):
    if shape is not None:
        rho = Seq("real", "ndarray", 0).make(name + ".rho", ctx, shape)
    else:
        rho = SSeq.fresh(name + ".rho", "ndarray", "real")
    return SObj("Obs", {"e_rho": CDict({"A": rho}), "e_drho": CDict({"A": rho})})


def _drho_post(a, r):
    rho = D(A(a.self, "e_rho"), "A")
    i, w = a.i, a.w_max
    tmp = r.tmp
    n = w - i - 1
    absdiff = lambda k: Ite(i >= k, i - k, k - i)
    return {
        "len": Len(tmp) == n,
        "luescher": ForAll(1, n + 1, lambda k: eq(At(tmp, k - 1), At(rho, i + k) + At(rho, absdiff(k)) - 2 * At(rho, i) * At(rho, k))),
    }


contract(
    REL + "::Obs.gamma_method::_compute_drho", name=REL + "::Obs.gamma_method::_compute_drho[tmp]", props=["C02"],
    slice=lambda mod, fnode: fnode.body[:1],
    params=dict(self=Custom(_rho_obj), e_name=Const("A"), w_max=Int(lo=2), i=Int(lo=1)),
    requires=lambda a: {"rho-length": Len(D(A(a.self, "e_rho"), "A")) == a.w_max, "i-in-range": a.i <= a.w_max - 1},
    ensures=_drho_post,
    native_ok=False, crosscheck=False, refute=False,
    slice_note="first statement of the nested function (the three-way slice expression); its free variables self.e_rho[e_name], "
               "w_max are parameters; the second statement (norm / e_N) is outside this contract",
)


# ---------------------------------------------------------------------------------------------------
# Obs._calc_gamma(deltas, idx, shape, w_max, fft, gapsize):  gamma[t] = sum_i d[i] d[i+t] over the gap-filled chain,
# with the SAME postcondition for the FFT and the direct branch (C03: fft on/off give the same numbers)

from pyvc.lib import sum_of, acorr  # noqa: E402
from pyvc.specs import Idl, Bool  # noqa: E402


def autocorr(E, t):
    """sum_{k < len(E) - t} E[k] * E[k + t]   (0 for t >= len(E))"""
    return acorr(E, t)


def _cg_inv(n, v):
    g, E = v.gamma, v.deltas
    return {
        "len": Len(g) == v.w_max,
        "done": ForAll(0, n, lambda t: eq(At(g, t), autocorr(E, t))),
        "todo": ForAll(n, v.w_max, lambda t: eq(At(g, t), 0)),
    }


def _cg_post(a, r):
    g, E = r.gamma, r.deltas          # E: the gap-filled fluctuations (result of _expand_deltas, verified separately)
    return {"len": Len(g) == a.w_max,
            "autocorrelation": ForAll(0, a.w_max, lambda t: eq(At(g, t), autocorr(E, t)))}


contract(
    REL + "::Obs._calc_gamma", props=["C02", "C03"],
    slice=lambda mod, fnode: [s for s in fnode.body if not isinstance(s, ast.Return)],
    params=dict(self=Const(None), deltas=RealSeq(min_len=1), idx=Idl(), shape=Int(), w_max=Int(lo=1), fft=Bool(), gapsize=Int(lo=1)),
    requires=lambda a: {"shape": And(a.shape == Len(a.idx), Len(a.deltas) == a.shape),
                        "lattice": ForAll(0, Len(a.idx), lambda i: (At(a.idx, i) - At(a.idx, 0)) % a.gapsize == 0)},
    loops={"for:0": _cg_inv},
    ensures=_cg_post,
    native_ok=False, crosscheck=False, refute=False,
    slice_note="whole body except the final `return gamma`; the postcondition speaks about the local `deltas` after the call of "
               "_expand_deltas (whose own contract relates it to the inputs)",
    note="assumed for the FFT branch: irfft(|rfft(x, P)|^2)[t] is the linear autocorrelation for even P and t <= P - len(x); the "
         "obligations on the code are P even, P >= len + max_gamma and the slice bounds",
)
