"""C02 / C03: pieces of the Gamma-method error analysis (pyerrors/obs.py::Obs.gamma_method and helpers)."""
import ast
import z3
from fractions import Fraction

from pyvc.specs import contract, Spec, Custom, Const, OneOf, Int, Real, Seq, RealSeq
from pyvc.sym import (Sym, SInt, SReal, SBool, SSeq, CList, CDict, SObj, SRange, Len, At, And, Or, Not, Implies, Iff, Ite, ForAll, Exists,
                      eq, compare, fresh, wrap, tz, is_range, UNDEF)
from pyvc import gen as G
from contracts.obsmodel import Layout, ObsSpec, _ObsOn, mk_obs, A, D, chain, names_of
import contracts.obs_kernel  # noqa: F401  (callee contracts)

REL = "pyerrors/obs.py"


# ---------------------------------------------------------------------------------------------------
# _determine_gap(o, e_content, e_name): the smallest spacing among the replica of the ensemble; it must divide
# all the others (common spacing) else ValueError

GAP_LAYOUTS = {
    "1r": Layout([("A|r1", "range")]), "1l": Layout([("A|r1", "list")]),
    "rl": Layout([("A|r1", "range"), ("A|r2", "list")]), "ll": Layout([("A|r1", "list"), ("A|r2", "list")]),
    "rr": Layout([("A|r1", "range"), ("A|r2", "range")]),
}


def spacing(idl):
    """spacing of one chain: the step of a range, the smallest difference of a list"""
    if is_range(idl):
        return idl.step
    if isinstance(idl, Sym):
        return None
    return min(idl[i + 1] - idl[i] for i in range(len(idl) - 1))


def is_spacing(g, idl):
    """g is the spacing of idl (relational form, usable symbolically)"""
    if is_range(idl):
        return g == idl.step
    n = Len(idl)
    return And(ForAll(0, n - 1, lambda i: g <= At(idl, i + 1) - At(idl, i)), Exists(0, n - 1, lambda i: g == At(idl, i + 1) - At(idl, i)))


def _gap_post(a, r):
    o = a.o
    idls = [chain(o, cn, "idl") for cn in names_of(o)]
    # r is the spacing of one replica, and not larger than the spacing of any replica
    return {
        "is-a-spacing": Or(*[is_spacing(r, x) for x in idls]),
        "minimal": And(*[_le_spacing(r, x) for x in idls]),
    }


def _le_spacing(g, idl):
    if is_range(idl):
        return g <= idl.step
    return ForAll(0, Len(idl) - 1, lambda i: g <= At(idl, i + 1) - At(idl, i))


def _gap_raises(a):
    """ValueError iff the smallest spacing does not divide the spacing of every replica"""
    o = a.o
    idls = [chain(o, cn, "idl") for cn in names_of(o)]
    if all(not isinstance(x, Sym) for x in idls):
        sp = [spacing(x) for x in idls]
        return any(s % min(sp) != 0 for s in sp)
    # symbolic: stated through fresh spacing values
    return None


contract(
    REL + "::_determine_gap", props=["C02", "C03"],
    params=dict(o=Custom(lambda n, c, s: None, variants=lambda: [(k, _ObsOn(v, 5)) for k, v in GAP_LAYOUTS.items()]),
                e_content=Custom(lambda n, c, s: None, variants=lambda: [
                    (k, Custom(lambda n, c, s, v=v: CDict({"A": CList(list(v.names), "list")}), native=lambda val, ev, v=v: {"A": list(v.names)}))
                    for k, v in GAP_LAYOUTS.items()]),
                e_name=Const("A")),
    cases_filter=lambda case: case["o"] == case["e_content"],
    may_raise=("ValueError",),
    ensures=_gap_post,
    result=lambda a: Int(lo=1),
    crosscheck=False,
    gen=lambda rng, case: _gap_gen(rng, case),
    note="result is the minimal spacing; the ValueError for replicas without a common spacing is allowed but its exact condition "
         "(divisibility) is checked only natively",
)


def _gap_make_econtent(o):
    return CDict({"A": CList(names_of(o), "list")})


def _gap_gen(rng, case):
    lay = GAP_LAYOUTS[case["o"]]
    g = rng.choice([1, 2, 3])
    from contracts.obsmodel import native_obs_from
    chains = {}
    for cn, kind in lay.chains:
        idl = G.lattice_idl(rng, kind, g, rng.randint(5, 8))
        chains[cn] = (idl, list(G.reals(rng, len(idl))))
    o = native_obs_from({"chains": chains})
    return {"o": o, "e_content": o.e_content, "e_name": "A"}


# ---------------------------------------------------------------------------------------------------
# Obs.gamma_method::_compute_drho(i): the vector whose norm is the error of rho(i) (Luescher's formula, truncated
# at w_max):   tmp[k-1] = rho(i+k) + rho(|i-k|) - 2 rho(i) rho(k)   for k = 1 .. w_max-i-1

def _rho_obj(name, ctx, shape=None):
    if shape is not None:
        rho = Seq("real", "ndarray", 0).make(name + ".rho", ctx, shape)
    else:
        rho = SSeq.fresh(name + ".rho", "ndarray", "real")
    return SObj("Obs", {"e_rho": CDict({"A": rho}), "e_drho": CDict({"A": rho})})


def _drho_post(a, r):
    rho = D(A(a.self, "e_rho"), "A")
    i, w = a.i, a.w_max
    tmp = r.tmp
    n = w - i - 1
    absdiff = lambda k: Ite(i >= k, i - k, k - i)
    return {
        "len": Len(tmp) == n,
        "luescher": ForAll(1, n + 1, lambda k: eq(At(tmp, k - 1), At(rho, i + k) + At(rho, absdiff(k)) - 2 * At(rho, i) * At(rho, k))),
    }


contract(
    REL + "::Obs.gamma_method::_compute_drho", name=REL + "::Obs.gamma_method::_compute_drho[tmp]", props=["C02"],
    slice=lambda mod, fnode: fnode.body[:1],
    params=dict(self=Custom(_rho_obj), e_name=Const("A"), w_max=Int(lo=2), i=Int(lo=1)),
    requires=lambda a: {"rho-length": Len(D(A(a.self, "e_rho"), "A")) == a.w_max, "i-in-range": a.i <= a.w_max - 1},
    ensures=_drho_post,
    native_ok=False, crosscheck=False, refute=False,
    slice_note="first statement of the nested function (the three-way slice expression); its free variables self.e_rho[e_name], "
               "w_max are parameters; the second statement (norm / e_N) is outside this contract",
)


# ---------------------------------------------------------------------------------------------------
# Obs._calc_gamma(deltas, idx, shape, w_max, fft, gapsize):  gamma[t] = sum_i d[i] d[i+t] over the gap-filled chain,
# with the SAME postcondition for the FFT and the direct branch (C03: fft on/off give the same numbers)

from pyvc.lib import sum_of, acorr  # noqa: E402
from pyvc.specs import Idl, Bool  # noqa: E402


def autocorr(E, t):
    """sum_{k < len(E) - t} E[k] * E[k + t]   (0 for t >= len(E))"""
    return acorr(E, t)


def _cg_inv(n, v):
    g, E = v.gamma, v.deltas
    return {
        "len": Len(g) == v.w_max,
        "done": ForAll(0, n, lambda t: eq(At(g, t), autocorr(E, t))),
        "todo": ForAll(n, v.w_max, lambda t: eq(At(g, t), 0)),
    }


def _cg_native(args):
    """the real method; the gap-filled fluctuations the postcondition speaks about are rebuilt independently (zeros at the holes)"""
    import numpy as np
    from pyvc.native import repo_module
    from pyvc.driver import Namespace
    pe = repo_module("pyerrors.obs")
    o = pe.Obs([np.arange(5.0)], ["x"])
    g = o._calc_gamma(np.asarray(args["deltas"], dtype=float), args["idx"], args["shape"], args["w_max"], args["fft"], args["gapsize"])
    idx = list(args["idx"])
    n = (idx[-1] - idx[0]) // args["gapsize"] + 1
    E = np.zeros(n)
    for k, c in enumerate(idx):
        E[(c - idx[0]) // args["gapsize"]] = args["deltas"][k]
    return Namespace({"gamma": np.asarray(g), "deltas": E})


def _cg_gen(rng, case):
    g = rng.choice([1, 2, 3])
    kind = case["idx"]
    n = rng.randint(2, 9)
    idx = G.lattice_idl(rng, kind, g, n)
    if kind == "list" and rng.random() < 0.5 and len(idx) >= 2:
        idx = [idx[0]] + [c + 7 * g for c in idx[1:]]         # a sparse chain: more holes than measurements
    if kind == "range":
        g = idx.step
    return dict(self=None, deltas=G.reals(rng, len(idx)), idx=idx, shape=len(idx), w_max=rng.randint(1, 2 * len(idx) + 6), fft=case["fft"] == "T", gapsize=g)


def _cg_post(a, r):
    g, E = r.gamma, r.deltas          # E: the gap-filled fluctuations (result of _expand_deltas, verified separately)
    return {"len": Len(g) == a.w_max,
            "autocorrelation": ForAll(0, a.w_max, lambda t: eq(At(g, t), autocorr(E, t)))}


contract(
    REL + "::Obs._calc_gamma", props=["C02", "C03"],
    slice=lambda mod, fnode: [s for s in fnode.body if not isinstance(s, ast.Return)],
    params=dict(self=Const(None), deltas=RealSeq(min_len=1), idx=Idl(), shape=Int(), w_max=Int(lo=1), fft=Bool(), gapsize=Int(lo=1)),
    requires=lambda a: {"shape": And(a.shape == Len(a.idx), Len(a.deltas) == a.shape),
                        "lattice": ForAll(0, Len(a.idx), lambda i: (At(a.idx, i) - At(a.idx, 0)) % a.gapsize == 0)},
    loops={"for:0": _cg_inv},
    ensures=_cg_post,
    native_call=lambda args: _cg_native(args), gen=lambda rng, case: _cg_gen(rng, case), crosscheck=False, refute=False,
    slice_note="whole body except the final `return gamma`; the postcondition speaks about the local `deltas` after the call of "
               "_expand_deltas (whose own contract relates it to the inputs)",
    note="assumed for the FFT branch: irfft(|rfft(x, P)|^2)[t] is the linear autocorrelation for even P and t <= P - len(x); the "
         "obligations on the code are P even, P >= len + max_gamma and the slice bounds",
)


# ---------------------------------------------------------------------------------------------------
# gamma_method, automatic windowing (standard branch, S > 0): statement slice = the `else:` block that computes tau, g_w
# and runs the window search.  Live-in: the cumulative tau_int(W), its error, Gamma(0), N, S.

# C03: the analysis writes only its own result attributes (never value / deltas / idl / names / r_values / shape)
GM_WRITABLE = ["e_dvalue", "e_ddvalue", "e_tauint", "e_dtauint", "e_windowsize", "e_n_tauint", "e_n_dtauint", "e_rho", "e_drho",
               "S", "tau_exp", "N_sigma", "_dvalue", "ddvalue"]


def _find_block(pred):
    def pick(mod, fnode):
        for node in ast.walk(fnode):
            if pred(node):
                return node
        from pyvc.sym import CheckerError
        raise CheckerError("contract no longer binds: statement block not found in %s" % fnode.name)
    return pick


def _is_S_if(node):
    """`if self.S[e_name] == 0.0:` ... else: <standard windowing>"""
    return isinstance(node, ast.If) and isinstance(node.test, ast.Compare) and isinstance(node.test.left, ast.Subscript) and \
        isinstance(node.test.left.value, ast.Attribute) and node.test.left.value.attr == "S" and isinstance(node.test.ops[0], ast.Eq)


def _window_slice(mod, fnode):
    return _find_block(_is_S_if)(mod, fnode).orelse


def _gm_obj(name, ctx, shape=None):
    def arr(n):
        s = SSeq.fresh(name + "." + n, "ndarray", "real")
        ctx.assume(s.length >= 0)
        return s
    o = SObj("Obs", {k: CDict({"A": arr(k)}) for k in ("e_n_tauint", "e_n_dtauint", "e_rho", "e_drho")})
    for k in ("e_tauint", "e_dtauint", "e_dvalue", "e_ddvalue", "e_windowsize"):
        o.attrs[k] = CDict()
    o.attrs["S"] = CDict({"A": SReal(z3.Real(fresh("S")))})
    o.attrs["tau_exp"] = CDict({"A": SReal(z3.Real(fresh("tau_exp")))})
    o.attrs["N_sigma"] = CDict({"A": SReal(z3.Real(fresh("N_sigma")))})
    return o


def _gm_requires(a):
    o = a.self
    if not isinstance(o, SObj):
        return {}       # native: the arrays are produced by the gamma_method call itself
    return {"lengths": And(*[Len(D(A(o, k), "A")) == a.w_max for k in ("e_n_tauint", "e_n_dtauint", "e_rho", "e_drho")]),
            "gamma-length": Len(D(a.e_gamma, "A")) == a.w_max}


def _gamma_dict(name, ctx, shape=None):
    s = SSeq.fresh(name, "ndarray", "real")
    ctx.assume(s.length >= 0)
    return CDict({"A": s})


def _noop_closure(name, ctx, shape=None):
    from pyvc.interp import Closure, Env
    return Closure(ast.parse("lambda i: None").body[0].value, Env(None), "_compute_drho[stub]")


def _uf(name, x):
    from pyvc.sym import uf, treal
    if not isinstance(x, Sym):
        import numpy as np
        with np.errstate(all="ignore"):
            return float(getattr(np, name)(float(x)))
    return wrap(uf(name)(treal(x)))


def _sqrt(x):
    return _uf("sqrt", x)


def _src(a):
    """the object whose e_rho / e_n_tauint / ... arrays the window search reads: the pre-state object in proofs, the
    analysed object natively (the arrays are outputs of the same gamma_method call and are not changed by the search)"""
    return a.self if isinstance(a.self, SObj) else a.post.self


class _Pre:
    def __init__(self, a):
        self.self = _src(a)
        self.e_N = a.e_N


def g_w(a, n):
    """Wolff's automatic windowing function at W = n >= 1"""
    if not isinstance(a, (_Pre, _WinView)):
        a = _Pre(a)
    tint = At(D(A(a.self, "e_n_tauint"), "A"), n)
    S = D(A(a.self, "S"), "A")
    tau = S / _uf("log", (2 * tint + 1) / (2 * tint - 1))
    return _uf("exp", -n / tau) - tau / _sqrt(n * a.e_N)


def _win_post(a, r):
    o = r.self
    W = D(A(o, "e_windowsize"), "A")
    if W is UNDEF:
        return {"window-set": False}      # the search ended without choosing a window: must be unreachable
    w = a.w_max
    tint = D(A(_src(a), "e_n_tauint"), "A")
    N = a.e_N
    G0 = At(D(a.e_gamma, "A"), 0)
    tau = D(A(o, "e_tauint"), "A")
    dv = D(A(o, "e_dvalue"), "A")
    return {
        "window-in-range": And(W >= 1, W <= w - 1),
        # the first lag at which the criterion turns negative, or the largest admissible lag
        "first-negative": And(Or(g_w(a, W) < 0, W == w - 1), ForAll(1, W, lambda n: Not(g_w(a, n) < 0))),
        "tauint-bias-corrected": eq(tau, At(tint, W) * (1 + (2 * W + 1) / N) / (1 + 1 / N)),
        "dtauint": eq(D(A(o, "e_dtauint"), "A"), At(D(A(_src(a), "e_n_dtauint"), "A"), W)),
        "dvalue": eq(dv, _sqrt(2 * tau * G0 * (1 + 1 / N) / N)),
        "ddvalue": eq(D(A(o, "e_ddvalue"), "A"), dv * _sqrt((W + Fraction(1, 2)) / N)),
    }


def _gm_native(kw):
    def call(args):
        o = args["self"]
        o.gamma_method(**dict(kw(args)))
        from pyvc.driver import Namespace
        return Namespace({"self": o})
    return call


def _gm_gen(mode):
    def gen(rng, case):
        import numpy as np
        from pyvc.native import repo_module
        pe = repo_module("pyerrors.obs")
        n = rng.choice([12, 20, 33, 40, 64])
        r = np.random.default_rng(rng.randint(0, 10 ** 6))
        # AR(1) data with a random correlation so that windows of different sizes occur
        phi = rng.choice([0.0, 0.5, 0.9, 0.97])
        x = np.zeros(n)
        for i in range(1, n):
            x[i] = phi * x[i - 1] + r.normal()
        o = pe.Obs([x + 1.0], ["A"])
        w = n // 2
        d = o.deltas["A"]
        S = rng.choice([1.0, 2.0, 3.5])
        return {"self": o, "e_name": "A", "e_N": n, "w_max": w, "e_gamma": {"A": np.array([float(np.sum(d * d)) / n])},
                "_compute_drho": None, "_S": S, "_texp": rng.choice([1.0, 5.0, 20.0]), "_Nsigma": rng.choice([0.0, 1.0, 2.0])}
    return gen


def _win_inv(k, v):
    n = k + 1
    a = v
    return {"no-earlier-window": ForAll(1, n, lambda m: And(Not(g_w(_WinView(v), m) < 0), m < v.w_max - 1)),
            "nothing-written": len(A(v.self, "e_windowsize").d) == 0}


class _WinView:
    def __init__(self, v):
        self.self = v.self
        self.e_N = v.e_N


contract(
    REL + "::Obs.gamma_method", name=REL + "::Obs.gamma_method[automatic window]", props=["C02"],
    slice=_window_slice, loops={"for:7": _win_inv},
    params=dict(self=Custom(_gm_obj), e_name=Const("A"), e_N=Int(lo=5), w_max=Int(lo=2),
                e_gamma=Custom(_gamma_dict), _compute_drho=Custom(_noop_closure)),
    requires=_gm_requires,
    writable_attrs={"self": GM_WRITABLE},
    ensures=_win_post,
    native_call=_gm_native(lambda args: {"S": args["_S"]}), gen=_gm_gen("S"), crosscheck=False, refute=False,
    slice_note="the else-branch of `if self.S[e_name] == 0.0` inside the per-ensemble loop: tau, g_w and the window search; the "
               "nested _compute_drho is replaced by a no-op (it only writes e_drho, see its own contract)",
)


# ---------------------------------------------------------------------------------------------------
# gamma_method, tau_exp > 0 (critical slowing down, Schaefer et al.): the window is the first lag n at which
# rho(n) - N_sigma * drho(n) < 0, or the cap w_max//2 - 2; the tail tau_exp * |rho(W+1)| is attached

def _is_texp_if(node):
    return isinstance(node, ast.If) and isinstance(node.test, ast.Compare) and isinstance(node.test.left, ast.Subscript) and \
        isinstance(node.test.left.value, ast.Attribute) and node.test.left.value.attr == "tau_exp" and isinstance(node.test.ops[0], ast.Gt)


def _texp_slice(mod, fnode):
    return _find_block(_is_texp_if)(mod, fnode).body


def _crit(a, n):
    o = a.self if isinstance(a, _WinView) else _src(a)
    return At(D(A(o, "e_rho"), "A"), n) - D(A(o, "N_sigma"), "A") * At(D(A(o, "e_drho"), "A"), n)


def _absr(x):
    return Ite(x >= 0, x, -x)


def _texp_post(a, r):
    o = r.self
    W = D(A(o, "e_windowsize"), "A")
    if W is UNDEF:
        return {"window-set": False}
    w = a.w_max
    h = w // 2
    N = a.e_N
    texp = D(A(_src(a), "tau_exp"), "A")
    tint = D(A(_src(a), "e_n_tauint"), "A")
    dtint = D(A(_src(a), "e_n_dtauint"), "A")
    rho, drho = D(A(_src(a), "e_rho"), "A"), D(A(_src(a), "e_drho"), "A")
    G0 = At(D(a.e_gamma, "A"), 0)
    tau = D(A(o, "e_tauint"), "A")
    dv = D(A(o, "e_dvalue"), "A")
    return {
        "window-in-range": And(W >= 1, W < h),
        "first-crossing-or-cap": And(Or(_crit(a, W) < 0, W >= h - 2), ForAll(1, W, lambda n: And(Not(_crit(a, n) < 0), n < h - 2))),
        "tauint-with-tail": eq(tau, At(tint, W) * (1 + (2 * W + 1) / N) / (1 + 1 / N) + texp * _absr(At(rho, W + 1))),
        "dtauint": eq(D(A(o, "e_dtauint"), "A"), _sqrt(At(dtint, W) ** 2 + texp ** 2 * At(drho, W + 1) ** 2)),
        "dvalue": eq(dv, _sqrt(2 * tau * G0 * (1 + 1 / N) / N)),
        "ddvalue": eq(D(A(o, "e_ddvalue"), "A"), dv * _sqrt((W + Fraction(1, 2)) / N)),
    }


def _texp_inv(k, v):
    n = k + 1
    h = v.w_max // 2
    return {"no-earlier-window": ForAll(1, n, lambda m: And(Not(_crit(_WinView(v), m) < 0), m < h - 2)),
            "nothing-written": len(A(v.self, "e_windowsize").d) == 0}


contract(
    REL + "::Obs.gamma_method", name=REL + "::Obs.gamma_method[tau_exp window]", props=["C02"],
    slice=_texp_slice, loops={"for:6": _texp_inv},
    params=dict(self=Custom(_gm_obj), e_name=Const("A"), e_N=Int(lo=5), w_max=Int(lo=2),
                e_gamma=Custom(_gamma_dict), _compute_drho=Custom(_noop_closure)),
    requires=_gm_requires,
    writable_attrs={"self": GM_WRITABLE},
    raises=[("ValueError", lambda a: a.w_max // 2 <= 1)],
    ensures=_texp_post,
    native_call=_gm_native(lambda args: {"tau_exp": args["_texp"], "N_sigma": args["_Nsigma"]}), gen=_gm_gen("texp"),
    crosscheck=False, refute=False,
    slice_note="the body of `if self.tau_exp[e_name] > 0` inside the per-ensemble loop; _compute_drho replaced by a no-op "
               "(e_drho is an arbitrary given array here)",
)


# ---------------------------------------------------------------------------------------------------
# gamma_method: length of each replica in units of the common spacing, and w_max (C03: the error analysis must not
# change when all configuration numbers are multiplied by a common integer and shifted)

def _rl_slice(mod, fnode):
    loops = [n for n in ast.walk(fnode) if isinstance(n, ast.For)]
    loops.sort(key=lambda n: (n.lineno, n.col_offset))
    outer = loops[2]          # for e, e_name in enumerate(self.mc_names)
    out = []
    for st in outer.body:
        out.append(st)
        if isinstance(st, ast.Assign) and isinstance(st.targets[0], ast.Name) and st.targets[0].id == "w_max":
            return out
    from pyvc.sym import CheckerError
    raise CheckerError("contract no longer binds: `w_max = ...` not found in the per-ensemble loop of gamma_method")


def units(idl, gap):
    """extent of a chain in units of the spacing `gap`, in a form that is invariant under i -> a*i + b, gap -> a*gap"""
    if is_range(idl):
        return Len(idl) * idl.step // gap
    return (At(idl, Len(idl) - 1) - At(idl, 0)) // gap + 1


def _rl_post(a, r):
    o = a.self
    names = names_of(o)
    us = [units(chain(o, cn, "idl"), r.gapsize) for cn in names]
    mx = us[0]
    for u in us[1:]:
        mx = Ite(u > mx, u, mx)
    if not isinstance(o, SObj):
        return {"w_max": r.w_max == mx // 2}       # natively only w_max is observable (length of e_rho)
    out = {"count": Len(r.r_length) == len(names)}
    for j, cn in enumerate(names):
        out["units.%s" % cn] = At(r.r_length, j) == us[j]
    out["w_max"] = r.w_max == mx // 2
    return out


def _rl_native(args):
    from pyvc.driver import Namespace
    from pyvc.native import repo_module
    pe = repo_module("pyerrors.obs")
    o = args["self"]
    o.gamma_method()
    return Namespace({"w_max": len(o.e_rho["A"]), "gapsize": int(pe._determine_gap(o, o.e_content, "A"))})


def _rl_gen(rng, case):
    lay = GAP_LAYOUTS[case["self"]]
    g = rng.choice([1, 2, 2, 3])
    from contracts.obsmodel import native_obs_from
    chains = {}
    for cn, kind in lay.chains:
        idl = G.lattice_idl(rng, kind, g, rng.randint(6, 12))
        if kind == "list" and len(set(idl[j + 1] - idl[j] for j in range(len(idl) - 1))) == 1:
            idl[-1] += g
        chains[cn] = (idl, list(G.reals(rng, len(idl))))
    o = native_obs_from({"chains": chains})
    return {"self": o, "e_content": o.e_content, "e_name": "A"}


def _lemma_units_invariant():
    """units() is invariant under the affine relabelling (both kinds); over interpreted integer arithmetic"""
    a, b, D, g, n, s = z3.Ints("a b D g n s")
    lst = z3.Implies(z3.And(a >= 1, g >= 1, D >= 0), (a * D) / (a * g) + 1 == D / g + 1)
    rng = z3.Implies(z3.And(a >= 1, g >= 1, n >= 1, s >= 1), (n * (a * s)) / (a * g) == (n * s) / g)
    return z3.And(lst, rng)


contract(
    REL + "::Obs.gamma_method", name=REL + "::Obs.gamma_method[replica lengths]", props=["C03", "C02"],
    slice=_rl_slice,
    params=dict(self=Custom(lambda n, c, s: None, variants=lambda: [(k, _ObsOn(v, 5)) for k, v in GAP_LAYOUTS.items()]),
                e_content=Custom(lambda n, c, s: None, variants=lambda: [
                    (k, Custom(lambda n, c, s, v=v: CDict({"A": CList(list(v.names), "list")}), native=lambda val, ev, v=v: {"A": list(v.names)}))
                    for k, v in GAP_LAYOUTS.items()]),
                e_name=Const("A")),
    cases_filter=lambda case: case["self"] == case["e_content"],
    may_raise=("ValueError",),
    ensures=_rl_post,
    lemmas={"units-invariant-under-relabelling": _lemma_units_invariant},
    native_call=_rl_native, gen=_rl_gen, crosscheck=False, refute=False,
    slice_note="first statements of the per-ensemble loop (gapsize, r_length, e_N, w_max)",
    note="the postcondition fixes r_length to the relabelling-invariant extent; the lemma shows that extent invariant",
)



# ---------------------------------------------------------------------------------------------------
# gamma_method::_parse_kwarg(kwarg_name): explicit argument > per-ensemble dictionary > global default (C03)

def _pk_obj(name, ctx, shape=None):
    return SObj("Obs", {"names": CList(["A|r1", "B|r1"], "list"), "S": CDict(), "tau_exp": CDict(), "N_sigma": CDict(), "_covobs": CDict()})


class _KwSpec(Spec):
    def variants(self):
        return [("absent", Custom(lambda n, c, s: CDict())),
                ("float", Custom(lambda n, c, s: CDict({"S": SReal(z3.Real(fresh("S.arg")))}))),
                ("int", Custom(lambda n, c, s: CDict({"S": SInt(z3.Int(fresh("S.arg")))}))),
                ("str", Custom(lambda n, c, s: CDict({"S": "2.0"})))]


def _pk_post(a, r):
    got = A(a.post.self, "S")
    native = not isinstance(a.kwargs, CDict)
    kw = a.kwargs if native else a.kwargs.d
    sdict = a.__dict__["_S_dict"] if native else _PK_DICT.d
    sglobal = a.__dict__["_S_global"] if native else _PK_GLOBAL
    out = {}
    if native:
        # the analysis of one object must not write into the class-level dictionary (history of the class)
        out["class-level dictionary untouched"] = a.post.__dict__.get("_S_dict_after") == dict(sdict)
    for e in ("A", "B"):
        if "S" in kw:
            out["explicit.%s" % e] = eq(D(got, e), kw["S"])
        elif e in sdict:
            out["dictionary.%s" % e] = eq(D(got, e), sdict[e])
        else:
            out["global.%s" % e] = eq(D(got, e), sglobal)
    return out


def _kwd(a):
    return a.kwargs.d if isinstance(a.kwargs, CDict) else a.kwargs


def _pk_native(args):
    """the nested function cannot be called from outside: the harness runs gamma_method with the class-level dictionary / default
    set as in the contract and looks at the parameter dictionary _parse_kwarg filled in"""
    from pyvc.native import repo_module
    pe = repo_module("pyerrors.obs")
    saved = (pe.Obs.S_dict, pe.Obs.S_global)
    pe.Obs.S_dict, pe.Obs.S_global = dict(args["_S_dict"]), args["_S_global"]
    try:
        args["self"].gamma_method(**args["kwargs"])
        args["_S_dict_after"] = dict(pe.Obs.S_dict)
    finally:
        pe.Obs.S_dict, pe.Obs.S_global = saved
    return None


def _pk_gen(rng, case):
    import numpy as np
    from pyvc.native import repo_module
    pe = repo_module("pyerrors.obs")
    r = np.random.default_rng(rng.randint(0, 10 ** 6))
    o = pe.Obs([r.normal(size=30)], ["A|r1"]) + pe.Obs([r.normal(size=25)], ["B|r1"])
    kw = {"absent": {}, "float": {"S": rng.choice([0.0, 1.5, 3.0, -1.0])}, "int": {"S": rng.choice([0, 1, 3, -2])}, "str": {"S": "2.0"}}[case["kwargs"]]
    return {"kwarg_name": "S", "self": o, "kwargs": kw, "_S_dict": {"A": rng.choice([0.0, 0.0, 1.0, 2.5])}, "_S_global": rng.choice([2.0, 1.0, 3.0])}


_PK_DICT = CDict({"A": SReal(z3.Real("S_dict.A"))})
_PK_GLOBAL = SReal(z3.Real("S_global"))


contract(
    REL + "::Obs.gamma_method::_parse_kwarg", props=["C03"],
    params=dict(kwarg_name=Const("S"), self=Custom(_pk_obj), kwargs=_KwSpec()),
    class_attrs={"Obs.S_dict": _PK_DICT, "Obs.S_global": _PK_GLOBAL},
    inline=[REL + "::Obs.e_names"],
    writable_attrs={"self": ["S"]},
    raises=[("ValueError", lambda a: "S" in _kwd(a) and not isinstance(_kwd(a)["S"], str) and _kwd(a)["S"] < 0),
            ("TypeError", lambda a: "S" in _kwd(a) and isinstance(_kwd(a)["S"], str))],
    ensures=_pk_post,
    native_call=_pk_native, gen=_pk_gen, crosscheck=False, refute=False,
    slice_note="nested function of gamma_method; its free variables self and kwargs are parameters; the class-level dictionary and "
               "global default are symbolic (an entry for ensemble A, none for ensemble B)",
    note="the same code serves S, tau_exp and N_sigma (the name is a parameter); verified for S",
)


# ---------------------------------------------------------------------------------------------------
# gamma_method, S == 0: exactly the naive standard error of the mean

def _s0_slice(mod, fnode):
    return _find_block(_is_S_if)(mod, fnode).body


contract(
    REL + "::Obs.gamma_method", name=REL + "::Obs.gamma_method[S=0]", props=["C02"],
    slice=_s0_slice,
    params=dict(self=Custom(_gm_obj), e_name=Const("A"), e_N=Int(lo=5), w_max=Int(lo=2), e_gamma=Custom(_gamma_dict)),
    requires=_gm_requires,
    writable_attrs={"self": GM_WRITABLE},
    ensures=lambda a, r: {
        "tauint": eq(D(A(r.self, "e_tauint"), "A"), Fraction(1, 2)),
        "dtauint": eq(D(A(r.self, "e_dtauint"), "A"), 0),
        "naive-standard-error": eq(D(A(r.self, "e_dvalue"), "A"), _sqrt(At(D(a.e_gamma, "A"), 0) / (a.e_N - 1))),
        "ddvalue": eq(D(A(r.self, "e_ddvalue"), "A"), D(A(r.self, "e_dvalue"), "A") * _sqrt(Fraction(1, 2) / a.e_N)),
        "window": D(A(r.self, "e_windowsize"), "A") == 0,
    },
    native_ok=False, crosscheck=False, refute=False,
    slice_note="body of `if self.S[e_name] == 0.0`",
)


# ---------------------------------------------------------------------------------------------------
# gamma_method: vanishing-variance guard, normalised autocorrelation, cumulative tau_int with its clamp, dtauint (eq. 42)

def _is_tiny_if(node):
    return isinstance(node, ast.If) and "tiny" in ast.dump(node.test) and "e_gamma" in ast.dump(node.test)


def _rho_slice(mod, fnode):
    loops = [n for n in ast.walk(fnode) if isinstance(n, ast.For)]
    for lp in loops:
        for i, st in enumerate(lp.body):
            if _is_tiny_if(st):
                out = []
                for st2 in lp.body[i:]:
                    out.append(st2)
                    if isinstance(st2, ast.Assign) and "e_n_dtauint" in ast.dump(st2.targets[0]) and isinstance(st2.targets[0], ast.Subscript) \
                            and isinstance(st2.targets[0].value, ast.Subscript):
                        return out          # self.e_n_dtauint[e_name][0] = 0.0
    from pyvc.sym import CheckerError
    raise CheckerError("contract no longer binds: the vanishing-variance guard of gamma_method was not found")


def _rho_pre_hook(interp, mod, fnode, args):
    from pyvc.lib import CAPTURE
    CAPTURE.clear()


def _absr2(x):
    return Ite(x >= 0, x, -x)


def _rho_native(args):
    o = args["self"]
    o.gamma_method()
    from pyvc.driver import Namespace
    return Namespace({"self": o})


def _rho_gen(rng, case):
    import numpy as np
    from pyvc.native import repo_module
    pe = repo_module("pyerrors.obs")
    n = rng.choice([12, 20, 33])
    r = np.random.default_rng(rng.randint(0, 10 ** 6))
    scale = rng.choice([1.0, 1.0, 1e-3, 1e-9, 1e-12, 0.0])
    x = 1.0 + scale * r.normal(size=n)
    o = pe.Obs([x], ["A"])
    d = o.deltas["A"]
    return {"self": o, "e_name": "A", "e_N": n, "w_max": n // 2, "e_gamma": {"A": np.array([float(np.sum(d * d)) / n])}}


def _rho_post_native(a, r):
    import numpy as np
    o = r.self
    g0 = float(a.e_gamma["A"][0])
    small = abs(g0) < 10 * np.finfo(float).tiny
    shortcut = "A" not in o.e_rho or len(o.e_rho["A"]) == 0 or (o.e_dvalue["A"] == 0.0 and o.e_windowsize["A"] == 0 and o.e_tauint["A"] == 0.5
                                                                  and not np.any(o.e_rho["A"]))
    out = {"guard: only a vanishing variance short-circuits the analysis": bool(shortcut) == bool(small)}
    if not shortcut:
        rho, tau, dtau = o.e_rho["A"], o.e_n_tauint["A"], o.e_n_dtauint["A"]
        u = np.cumsum(np.concatenate(([0.5], rho[1:])))
        exp_tau = np.where(u <= 0.5, 0.5 + np.finfo(np.float64).eps, u)
        out["tau_int(W) = max-clamped 1/2 + sum_{t<=W} rho(t)"] = bool(np.allclose(tau, exp_tau, rtol=1e-12, atol=0))
        exp_d = tau * 2 * np.sqrt(np.abs(np.arange(len(tau)) + 0.5 - tau) / a.e_N)
        exp_d[0] = 0.0
        out["dtau_int (eq. 42)"] = bool(np.allclose(dtau, exp_d, rtol=1e-12, atol=0))
        out["rho = Gamma / Gamma(0)"] = bool(abs(rho[0] - 1.0) < 1e-12)
        # the error of rho at the chosen window, evaluated independently from the rho the analysis stored:
        # drho(i)^2 = sum_{k=1}^{w_max-i-1} (rho(i+k) + rho(|i-k|) - 2 rho(i) rho(k))^2 / N
        W = int(o.e_windowsize["A"])
        w = len(rho)
        if 1 <= W < w:
            tot = sum((rho[W + k] + rho[abs(W - k)] - 2 * rho[W] * rho[k]) ** 2 for k in range(1, w - W))
            out["drho at the window (eq. E.11 of hep-lat/0306017)"] = bool(np.isclose(o.e_drho["A"][W], np.sqrt(tot / a.e_N), rtol=1e-9, atol=1e-14))
    return out


def _rho_post(a, r):
    from pyvc.lib import CAPTURE, SUM, _TINY, _EPS
    if not isinstance(a.self, SObj):
        return _rho_post_native(a, r)
    o = r.self
    G = D(a.e_gamma, "A")
    g0 = At(G, 0)
    w, N = a.w_max, a.e_N
    small = _absr2(g0) < 10 * _TINY
    if r.__continued__ is True:
        return {"guard: only a vanishing variance short-circuits the analysis": small,
                "constant data": And(eq(D(A(o, "e_tauint"), "A"), Fraction(1, 2)), eq(D(A(o, "e_dtauint"), "A"), 0), eq(D(A(o, "e_dvalue"), "A"), 0),
                                     eq(D(A(o, "e_ddvalue"), "A"), 0), D(A(o, "e_windowsize"), "A") == 0)}
    rho, tau, dtau = D(A(o, "e_rho"), "A"), D(A(o, "e_n_tauint"), "A"), D(A(o, "e_n_dtauint"), "A")
    out = {"guard: only a vanishing variance short-circuits the analysis": Not(small),
           "rho = Gamma / Gamma(0)": And(Len(rho) == w, ForAll(0, w, lambda t: eq(At(rho, t), At(G, t) / g0)))}
    cs = CAPTURE.get("np.cumsum", [])
    if len(cs) != 1:
        out["tau_int is a cumulative sum"] = False
        return out
    X, U = cs[0]
    clamp = lambda x: Ite(x <= Fraction(1, 2), Fraction(1, 2) + _EPS, x)
    out["summands: 1/2, rho(1), rho(2), ..."] = And(Len(X) == w, eq(At(X, 0), Fraction(1, 2)), ForAll(1, w, lambda t: eq(At(X, t), At(rho, t))))
    out["tau_int(W) = max-clamped 1/2 + sum_{t<=W} rho(t)"] = And(Len(tau) == w, ForAll(0, w, lambda t: eq(At(tau, t), clamp(wrap(SUM(X.arr, t + 1))))))
    out["dtau_int (eq. 42)"] = And(Len(dtau) == w, eq(At(dtau, 0), 0), ForAll(1, w, lambda t: eq(
        At(dtau, t), At(tau, t) * 2 * _sqrt(_absr2(t + Fraction(1, 2) - At(tau, t)) / N))))
    return out


contract(
    REL + "::Obs.gamma_method", name=REL + "::Obs.gamma_method[rho, cumulative tau_int]", props=["C02", "C03"],
    slice=_rho_slice, pre_execute=_rho_pre_hook,
    params=dict(self=Custom(_gm_obj), e_name=Const("A"), e_N=Int(lo=5), w_max=Int(lo=2), e_gamma=Custom(_gamma_dict)),
    requires=lambda a: {"gamma-length": Len(D(a.e_gamma, "A")) == a.w_max} if isinstance(a.self, SObj) else {},
    writable_attrs={"self": GM_WRITABLE},
    ensures=_rho_post,
    native_call=_rho_native, gen=_rho_gen, crosscheck=False, refute=False,
    slice_note="from the vanishing-variance guard `if np.abs(e_gamma[e_name][0]) < 10 * tiny` to `self.e_n_dtauint[e_name][0] = 0.0`; "
               "live-in variables self, e_name, e_N, w_max, e_gamma (the normalised autocorrelation function)",
    note="float.tiny and float.eps are symbolic constants with 0 < tiny < eps < 1: a guard that compares with another constant is a "
         "different formula",
)


# ---------------------------------------------------------------------------------------------------
# gamma_method: accumulation of the autocorrelation function over the replicas and pair-count normalisation

_CG_CALLS = []


def _cg_stub_result(a, ctx):
    g = SSeq.fresh("calc_gamma", "ndarray", "real")
    g.length = a.w_max
    _CG_CALLS.append((a.deltas, a.idx, a.shape, a.w_max, a.fft, a.gapsize, g))
    return g


_CG_STUB = contract(
    REL + "::Obs._calc_gamma", props=[], assumed=True, register=False, name=REL + "::Obs._calc_gamma[result recorded]",
    params=dict(self=Custom(lambda n, c, s: None), deltas=Custom(lambda n, c, s: None), idx=Custom(lambda n, c, s: None),
                shape=Custom(lambda n, c, s: None), w_max=Custom(lambda n, c, s: None), fft=Custom(lambda n, c, s: None),
                gapsize=Custom(lambda n, c, s: None)),
    result=_cg_stub_result,
    note="inside the accumulation slice every call of _calc_gamma returns an array of length w_max that is recorded together with its "
         "arguments (what the array contains is the contract of _calc_gamma itself)",
)


def _acc_slice(mod, fnode):
    loops = [n for n in ast.walk(fnode) if isinstance(n, ast.For)]
    for lp in loops:
        start = end = None
        for i, st in enumerate(lp.body):
            if isinstance(st, ast.Assign) and isinstance(st.targets[0], ast.Subscript) and isinstance(st.targets[0].value, ast.Name) \
                    and st.targets[0].value.id == "e_gamma" and start is None:
                start = i
            if isinstance(st, ast.AugAssign) and isinstance(st.op, ast.Div) and "e_gamma" in ast.dump(st.target):
                end = i
        if start is not None and end is not None:
            return lp.body[start:end + 1]
    from pyvc.sym import CheckerError
    raise CheckerError("contract no longer binds: accumulation block of gamma_method not found")


ACC_REPLICAS = {"one": ["A|r1"], "two": ["A|r1", "A|r2"]}


def _acc_obj(reps):
    def make(name, ctx, shape=None):
        from pyvc.specs import IdlList
        o = SObj("Obs", {"deltas": CDict(), "idl": CDict(), "shape": CDict(), "e_rho": CDict(), "e_drho": CDict()})
        for r in reps:
            d = SSeq.fresh("%s.deltas.%s" % (name, r), "ndarray", "real")
            ctx.assume(d.length >= 1)
            o.attrs["deltas"].d[r] = d
            o.attrs["idl"].d[r] = IdlList(min_len=1).make("%s.idl.%s" % (name, r), ctx, None)
            o.attrs["shape"].d[r] = d.length
        return o
    return make


def _is_ones(x):
    return isinstance(x, SSeq) and z3.is_app(x.arr) and x.arr.decl().kind() == z3.Z3_OP_CONST_ARRAY and z3.simplify(x.arr.arg(0) == 1).eq(z3.BoolVal(True))


def _acc_post(a, r):
    if not isinstance(a.self, SObj):
        return _acc_post_native(a, r)
    reps = list(a.e_content.d["A"].items)
    o = a.self
    w = a.w_max
    calls = list(_CG_CALLS)
    out = {"two calls of _calc_gamma per replica": len(calls) == 2 * len(reps)}
    if len(calls) != 2 * len(reps):
        return out
    data, ones = [], []
    for rn in reps:
        dd = [c for c in calls if isinstance(c[0], SSeq) and c[0].arr.eq(o.attrs["deltas"].d[rn].arr)]
        on = [c for c in calls if _is_ones(c[0]) and tz(c[0].length).eq(tz(o.attrs["shape"].d[rn]))
              and isinstance(c[1], SSeq) and c[1].arr.eq(o.attrs["idl"].d[rn].arr)]
        ok_args = lambda c: (isinstance(c[1], SSeq) and c[1].arr.eq(o.attrs["idl"].d[rn].arr) and tz(c[2]).eq(tz(o.attrs["shape"].d[rn]))
                             and c[3] is a.w_max and c[4] is a.fft and c[5] is a.gapsize)
        out["fluctuations of %s with its own configuration list" % rn] = len(dd) == 1 and ok_args(dd[0])
        out["pair count of %s: ones on the same configuration list" % rn] = len(on) >= 1 and ok_args(on[0])
        if len(dd) != 1 or not on:
            return out
        data.append(dd[0][6])
        ones.append(on[0][6])
    G = D(r.e_gamma, "A")

    def tot(seqs, t):
        x = At(seqs[0], t)
        for s_ in seqs[1:]:
            x = x + At(s_, t)
        return x
    out["Gamma(t) = sum over replicas / max(1, number of pairs)"] = And(Len(G) == w, ForAll(0, w, lambda t: eq(
        At(G, t), tot(data, t) / Ite(tot(ones, t) < 1, Fraction(1), tot(ones, t)))))
    out["rho and drho start from zero arrays of length w_max"] = And(Len(D(A(r.self, "e_rho"), "A")) == w, Len(D(A(r.self, "e_drho"), "A")) == w)
    return out


def _acc_native(args):
    o = args["self"]
    o.gamma_method(fft=args["fft"])
    from pyvc.driver import Namespace
    return Namespace({"self": o, "e_gamma": None})


def _acc_gen(reps):
    def gen(rng, case):
        from contracts.obsmodel import native_obs_from
        g = rng.choice([1, 2, 3])
        chains = {}
        for rn in reps:
            kind = rng.choice(["range", "list"])
            idl = G.lattice_idl(rng, kind, g, rng.randint(8, 14))
            if kind == "list" and len(set(idl[j + 1] - idl[j] for j in range(len(idl) - 1))) == 1:
                idl[-1] += g
            chains[rn] = (idl, list(G.reals(rng, len(idl))))
        o = native_obs_from({"chains": chains})
        return {"self": o, "e_name": "A", "e_content": {"A": list(reps)}, "e_gamma": {}, "w_max": 1, "fft": case["fft"] == "T", "gapsize": g}
    return gen


def _acc_post_native(a, r):
    """independent evaluation of the normalised autocorrelation function: pairs of configurations t lattice steps apart, summed over
    the replicas, divided by the number of such pairs; compared through rho(t) = Gamma(t) / Gamma(0)"""
    import numpy as np
    o = r.self
    reps = list(a.e_content["A"])
    gaps = []
    for rn in reps:
        idl = list(o.idl[rn])
        gaps += [idl[k + 1] - idl[k] for k in range(len(idl) - 1)]
    g = int(np.gcd.reduce(gaps)) if gaps else 1
    rho = np.asarray(o.e_rho["A"])
    w = len(rho)
    num, cnt = np.zeros(w), np.zeros(w)
    for rn in reps:
        idl = list(o.idl[rn])
        pos = [(c - idl[0]) // g for c in idl]
        d = np.asarray(o.deltas[rn])
        where = {p: k for k, p in enumerate(pos)}
        for k, p in enumerate(pos):
            for t in range(w):
                j = where.get(p + t)
                if j is not None:
                    num[t] += d[k] * d[j]
                    cnt[t] += 1
    gam = num / np.where(cnt < 1, 1.0, cnt)
    if abs(gam[0]) < 1e-300:
        return {}
    return {"Gamma(t) = sum over replicas / max(1, number of pairs)": bool(np.allclose(rho, gam / gam[0], rtol=1e-9, atol=1e-12))}


def _acc_pre_hook(interp, mod, fnode, args):
    del _CG_CALLS[:]


for _lab, _reps in ACC_REPLICAS.items():
    contract(
        REL + "::Obs.gamma_method", name=REL + "::Obs.gamma_method[accumulation over replicas, %s]" % _lab, props=["C02"],
        slice=_acc_slice, pre_execute=_acc_pre_hook, overrides={REL + "::Obs._calc_gamma": _CG_STUB},
        params=dict(self=Custom(_acc_obj(_reps)), e_name=Const("A"), e_content=Const(CDict({"A": CList(list(_reps), "list")})),
                    e_gamma=Custom(lambda n, c, s: CDict()), w_max=Int(lo=1), fft=Bool(), gapsize=Int(lo=1)),
        writes=("e_gamma", "self"),
        writable_attrs={"self": GM_WRITABLE},
        ensures=_acc_post,
        native_call=_acc_native, gen=_acc_gen(_reps), crosscheck=False, refute=False,
        slice_note="from `e_gamma[e_name] = np.zeros(w_max)` to `e_gamma[e_name] /= gamma_div[:w_max]`; live-in variables self, e_name, "
                   "e_content, e_gamma, w_max, fft, gapsize; replicas of the ensemble: %s" % ", ".join(_reps),
    )


# ---------------------------------------------------------------------------------------------------
# gamma_method: totals - errors of the ensembles and of the covariance-defined inputs are added in quadrature

ERRSQ = z3.Function("covobs_errsq", z3.IntSort(), z3.RealSort())


def _tot_obj(ncov):
    def make(name, ctx, shape=None):
        covs = ["c%d" % i for i in range(ncov)]
        o = SObj("Obs", {"_dvalue": SReal(z3.Real(fresh("sum_sq"))), "ddvalue": SReal(z3.Real(fresh("sum_dd"))),
                         "e_dvalue": CDict({"A": SReal(z3.Real(fresh("e_dvalue.A")))}), "e_ddvalue": CDict({"A": SReal(z3.Real(fresh("e_ddvalue.A")))}),
                         "cov_names": CList(covs, "list"),
                         "_covobs": CDict({c: SObj("Covobs", {"_index": i}) for i, c in enumerate(covs)})})
        return o
    return make


_ERRSQ_STUB = contract(
    "pyerrors/covobs.py::Covobs.errsq", props=[], assumed=True, register=False, name="pyerrors/covobs.py::Covobs.errsq[uninterpreted]",
    params=dict(self=Custom(lambda n, c, s: None)),
    result=lambda a, ctx: wrap(ERRSQ(a.self.attrs["_index"])),
    note="squared error of a covariance-defined input (grad^T cov grad): an uninterpreted non-negative number per input",
)


def _tail_slice(mod, fnode):
    for i, st in enumerate(fnode.body):
        if isinstance(st, ast.For) and isinstance(st.iter, ast.Attribute) and st.iter.attr == "cov_names":
            return [s for s in fnode.body[i:] if not isinstance(s, ast.Return)]
    from pyvc.sym import CheckerError
    raise CheckerError("contract no longer binds: the loop over cov_names at the end of gamma_method was not found")


def _tot_post(a, r):
    o, o0 = r.self, a.self
    covs = list(o0.attrs["cov_names"].items)
    s1 = o0.attrs["_dvalue"]
    for i, c in enumerate(covs):
        s1 = s1 + wrap(ERRSQ(i))
    dv = A(o, "_dvalue")
    out = {"total error: quadrature sum of ensembles and covariance inputs": eq(dv, _sqrt(s1)),
           "error of the error": eq(A(o, "ddvalue"), Ite(dv == 0, Fraction(0), _sqrt(o0.attrs["ddvalue"]) / dv))}
    for i, c in enumerate(covs):
        out["covariance input %s" % c] = And(eq(D(A(o, "e_dvalue"), c), _sqrt(wrap(ERRSQ(i)))), eq(D(A(o, "e_ddvalue"), c), 0))
    return out


for _n in (0, 1, 2):
    contract(
        REL + "::Obs.gamma_method", name=REL + "::Obs.gamma_method[totals, %d covariance inputs]" % _n, props=["C02"],
        slice=_tail_slice, overrides={"pyerrors/covobs.py::Covobs.errsq": _ERRSQ_STUB},
        params=dict(self=Custom(_tot_obj(_n))),
        requires=(lambda n: lambda a: {"squared errors of covariance inputs are non-negative": And(*[wrap(ERRSQ(i) >= 0) for i in range(n)]) if n else True,
                                       "accumulated sums of squares are non-negative": And(a.self.attrs["_dvalue"] >= 0, a.self.attrs["ddvalue"] >= 0)})(_n),
        abstract_nl=False,
        inline=[REL + "::Obs.covobs"],
        writable_attrs={"self": GM_WRITABLE},
        ensures=_tot_post,
        native_ok=False, crosscheck=False, refute=False,
        slice_note="from `for e_name in self.cov_names:` to the end of gamma_method; live-in: self with _dvalue / ddvalue holding the sums of "
                   "squares accumulated over the Monte-Carlo ensembles",
    )


def _ens_acc_slice(mod, fnode):
    loops = [n for n in ast.walk(fnode) if isinstance(n, ast.For)]
    for lp in loops:
        tail = lp.body[-2:]
        if len(tail) == 2 and all(isinstance(s, ast.AugAssign) for s in tail) and "_dvalue" in ast.dump(tail[0].target) and "ddvalue" in ast.dump(tail[1].target):
            return tail
    from pyvc.sym import CheckerError
    raise CheckerError("contract no longer binds: per-ensemble accumulation of _dvalue / ddvalue not found")


contract(
    REL + "::Obs.gamma_method", name=REL + "::Obs.gamma_method[per-ensemble accumulation]", props=["C02"],
    slice=_ens_acc_slice,
    params=dict(self=Custom(_tot_obj(0)), e_name=Const("A")),
    writable_attrs={"self": GM_WRITABLE},
    ensures=lambda a, r: {
        "sum of squared ensemble errors": eq(A(r.self, "_dvalue"), a.self.attrs["_dvalue"] + D(a.self.attrs["e_dvalue"], "A") * D(a.self.attrs["e_dvalue"], "A")),
        "sum of squared (error x relative error of the error)": eq(A(r.self, "ddvalue"), a.self.attrs["ddvalue"] + (D(a.self.attrs["e_dvalue"], "A") * D(a.self.attrs["e_ddvalue"], "A")) * (D(a.self.attrs["e_dvalue"], "A") * D(a.self.attrs["e_ddvalue"], "A")))},
    abstract_nl=False,
    native_ok=False, crosscheck=False, refute=False,
    slice_note="last two statements of the per-ensemble loop of gamma_method",
)


# ---------------------------------------------------------------------------------------------------
# gamma_method entry: every result of an earlier analysis is discarded before anything is computed (C03: no history)

RESULT_DICTS = ["e_dvalue", "e_ddvalue", "e_tauint", "e_dtauint", "e_windowsize", "e_n_tauint", "e_n_dtauint", "e_rho", "e_drho",
                "S", "tau_exp", "N_sigma"]


def _reset_slice(mod, fnode):
    out = []
    for st in fnode.body:
        if isinstance(st, ast.Expr) and isinstance(st.value, ast.Constant):
            continue          # docstring
        if isinstance(st, ast.FunctionDef):
            return out
        out.append(st)
    from pyvc.sym import CheckerError
    raise CheckerError("contract no longer binds: `def _parse_kwarg` not found in gamma_method")


def _stale_obj(name, ctx, shape=None):
    """an observable that carries the results of an earlier analysis (arbitrary, symbolic)"""
    o = SObj("Obs", {"names": CList(["A|r1"], "list"), "_covobs": CDict()})
    for k in RESULT_DICTS:
        o.attrs[k] = CDict({"A": SReal(z3.Real(fresh("stale.%s" % k)))})
    o.attrs["_dvalue"] = SReal(z3.Real(fresh("stale._dvalue")))
    o.attrs["ddvalue"] = SReal(z3.Real(fresh("stale.ddvalue")))
    return o


def _reset_post(a, r):
    if not isinstance(a.self, SObj):
        return _history_post_native(a, r)
    o = r.self
    # the accumulators of the total error are `+=`-updated later on: they must not carry the previous analysis
    # (that the per-ensemble dictionaries are rebuilt is checked natively: a stale entry that is overwritten is harmless)
    return {"totals start from zero": And(eq(A(o, "_dvalue"), 0), eq(A(o, "ddvalue"), 0)),
            "fft default": (r.fft is True) if "fft" not in a.kwargs.d else (r.fft is False)}


def _history_native(args):
    """natively the whole analysis is run twice on the same object with different parameters"""
    o = args["self"]
    o.gamma_method(**args["_first"])
    o.gamma_method(**args["kwargs"])
    from pyvc.driver import Namespace
    return Namespace({"self": o, "fft": True})


def _history_gen(rng, case):
    import numpy as np
    from pyvc.native import repo_module
    pe = repo_module("pyerrors.obs")
    r = np.random.default_rng(rng.randint(0, 10 ** 6))
    n = rng.choice([40, 64])
    x = np.zeros(n)
    for i in range(1, n):
        x[i] = 0.7 * x[i - 1] + r.normal()
    o = pe.Obs([x[: n // 2] + 1.0, x[n // 2:] + 1.0], ["A|r1", "A|r2"])
    first = rng.choice([{"S": 4.0}, {"S": 0.0}, {"tau_exp": 3.0, "N_sigma": 1.5}, {"S": 1.0, "fft": False}])
    second = rng.choice([{}, {"S": 2.5}, {"tau_exp": 5.0}, {"fft": False}])
    return {"self": o, "kwargs": second, "_first": first}


def _history_post_native(a, r):
    import copy
    import numpy as np
    from pyvc.native import repo_module
    pe = repo_module("pyerrors.obs")
    o = r.self
    fresh_o = pe.Obs([o.deltas[n] + o.r_values[n] for n in o.names], list(o.names), idl=[o.idl[n] for n in o.names])
    fresh_o.gamma_method(**a.kwargs)
    ok = True
    for k in RESULT_DICTS + ["_dvalue", "ddvalue"]:
        x, y = getattr(o, k), getattr(fresh_o, k)
        if isinstance(x, dict):
            ok = ok and set(x) == set(y) and all(np.allclose(x[e], y[e], rtol=1e-12, atol=0, equal_nan=True) for e in x)
        else:
            ok = ok and bool(np.isclose(x, y, rtol=1e-12, atol=0))
    return {"independent of the earlier analysis": bool(ok)}


contract(
    REL + "::Obs.gamma_method", name=REL + "::Obs.gamma_method[results of earlier analyses are discarded]", props=["C03"],
    slice=_reset_slice,
    params=dict(self=Custom(_stale_obj), kwargs=OneOf(none=Custom(lambda n, c, s: CDict(), native=lambda v, ev: {}),
                                                       nofft=Custom(lambda n, c, s: CDict({"fft": False}), native=lambda v, ev: {"fft": False}))),
    inline=[REL + "::Obs.e_content", REL + "::Obs.e_names", REL + "::Obs.mc_names", REL + "::Obs.cov_names"],
    writable_attrs={"self": GM_WRITABLE},
    ensures=_reset_post,
    native_call=_history_native, gen=_history_gen, crosscheck=False, refute=False,
    slice_note="the statements of gamma_method before the nested function _parse_kwarg; the object carries arbitrary results of an earlier "
               "analysis; natively the complete analysis is run twice and compared with the analysis of a fresh copy",
)
