"""C04 (closure of arithmetic): the operand-type matrix of the operators of Obs and CObs.

Every operator method is executed symbolically for every partner kind; derived_observable is replaced by a stub that evaluates
the lambda on the operands' central values (the value of the result) - the point here is the *kind* of what comes back:
a real observable, or a complex observable whose parts are real observables; never an Obs with a complex central value, a
bare number, or an exception raised inside the operator.
"""
import z3
from fractions import Fraction

from pyvc.specs import contract, Spec, Custom, Const, OneOf, Int, Real
from pyvc.sym import (Sym, SInt, SReal, SBool, SSeq, CList, CDict, SObj, SOpaque, And, Or, Not, Implies, Iff, eq, fresh, wrap, UNDEF)
from pyvc.interp import NOT_IMPLEMENTED

REL = "pyerrors/obs.py"


def _do_stub(a, ctx):
    """derived_observable(func, data, ...): an Obs whose value is func(values of data)"""
    interp = ctx.interp
    data = a.data.items if isinstance(a.data, CList) else list(a.data)
    vals = []
    for o in data:
        if not (isinstance(o, SObj) and o.cls == "Obs"):
            # the real function fails on anything that is not an Obs (AttributeError on .names / .value)
            from pyvc.interp import PyRaise
            raise PyRaise("AttributeError", "derived_observable on a non-Obs operand", ctx.call_node)
        vals.append(o.attrs["_value"])
    kw = a.kwargs.d if isinstance(a.kwargs, CDict) else {}
    v = interp.call(a.func, [CList(vals, "ndarray")], {}, ctx.call_node)
    return SObj("Obs", {"_value": v, "derived": True})


contract(
    REL + "::derived_observable", props=[], assumed=True,
    params=dict(func=Custom(lambda n, c, s: None), data=Custom(lambda n, c, s: None), array_mode=Const(False),
                kwargs=Custom(lambda n, c, s: CDict())),
    result=_do_stub,
    note="stub used by the operand-type matrix: the result is an Obs whose central value is func(central values); the propagation "
         "of fluctuations is the subject of the derived_observable slices (C01)",
)


def mk_real_obs(name):
    return SObj("Obs", {"_value": SReal(z3.Real(fresh(name + ".value")))})


def mk_cobs(name):
    return SObj("CObs", {"_real": mk_real_obs(name + ".re"), "_imag": mk_real_obs(name + ".im"), "tag": None})


def native_obs(v):
    import numpy as np
    from pyvc.native import repo_module
    pe = repo_module("pyerrors.obs")
    return pe.Obs([float(v) + np.array([0.01, -0.01, 0.02, -0.02, 0.005, -0.005])], ["ens|r1"])


class ObsS(Spec):
    def make(self, name, ctx, shape=None):
        return mk_real_obs(name)

    def native(self, value, ev):
        return native_obs(ev(value.attrs["_value"]))

    def random(self, rng, shape=None):
        return native_obs(rng.choice([0.5, 1.3, 2.0]))


class CObsS(Spec):
    def __init__(self, imag="obs"):
        self.imag = imag

    def variants(self):
        return [("", self)] if self.imag != "both" else [("imag:obs", CObsS("obs")), ("imag:number", CObsS("number"))]

    def make(self, name, ctx, shape=None):
        c = mk_cobs(name)
        if self.imag == "number":
            c.attrs["_imag"] = SReal(z3.Real(fresh(name + ".imnum")))
        return c

    def random(self, rng, shape=None):
        from pyvc.native import repo_module
        pe = repo_module("pyerrors.obs")
        im = native_obs(rng.choice([0.7, -1.1])) if self.imag != "number" else rng.choice([0.0, 2.0, -0.5])
        return pe.CObs(native_obs(rng.choice([0.5, 1.3])), im)


class ComplexS(Spec):
    def make(self, name, ctx, shape=None):
        return SObj("complex", {"real": SReal(z3.Real(fresh(name + ".re"))), "imag": SReal(z3.Real(fresh(name + ".im")))})

    def random(self, rng, shape=None):
        return complex(rng.choice([0.5, 2.0, -1.0]), rng.choice([1.0, -0.5, 2.0, 0.0, 0.0]))


PARTNERS = OneOf(obs=ObsS(), cobs=CObsS(), int=Int(lo=1, hi=3), float=Real(), complex=ComplexS())


def real_valued(v):
    """a real (floating point) central value"""
    if isinstance(v, SObj):
        return False            # a complex value
    if isinstance(v, Sym) or isinstance(v, (int, float, Fraction)):
        return True
    import numpy as np
    return bool(np.isrealobj(v)) and not isinstance(v, complex)


def is_real_obs(x):
    if isinstance(x, SObj):
        return x.cls == "Obs" and real_valued(x.attrs.get("_value"))
    return type(x).__name__ == "Obs" and real_valued(x.value)


def closed(r):
    """a real observable, or a complex observable whose parts are real observables"""
    if is_real_obs(r):
        return True
    if isinstance(r, SObj) and r.cls == "CObs":
        return _real_part(r.attrs.get("_real")) and _real_part(r.attrs.get("_imag"))
    if type(r).__name__ == "CObs":
        return _real_part(r.real) and _real_part(r.imag)
    return False


def _real_part(x):
    """a part of a complex observable: a real observable, or a real number (CObs keeps plain numbers as parts, and its
    gamma_method / arithmetic handle them)"""
    if is_real_obs(x):
        return True
    if isinstance(x, SObj):
        return False
    if isinstance(x, Sym) or isinstance(x, (int, float, Fraction)):
        return True
    import numpy as np
    return isinstance(x, (np.floating, np.integer))


def _partner_kind(y):
    if isinstance(y, SObj):
        return y.cls
    return type(y).__name__


def _op_post(a, r):
    y = getattr(a, "y", None) if "y" in a.__dict__ else (getattr(a, "other", None) if "other" in a.__dict__ else None)
    if r is NOT_IMPLEMENTED or r is NotImplemented:
        # handing over to the partner's reflected method is fine when the partner is a complex observable (or a correlator)
        return {"closed": _partner_kind(y) in ("CObs", "Corr")}
    return {"closed": closed(r)}


def _rand_partner(rng, kind):
    if kind == "obs":
        return ObsS().random(rng)
    if kind == "cobs":
        return CObsS().random(rng)
    if kind == "complex":
        return ComplexS().random(rng)
    if kind == "int":
        return rng.randint(1, 3)
    return rng.uniform(0.5, 2)


def _gen_for(selfspec, pn):
    def gen(rng, case):
        return {"self": selfspec.random(rng), pn: _rand_partner(rng, case[pn])}
    return gen


def _obs_op_result(a, ctx):
    """at call sites: what the operator returns for this partner kind, according to its own contract (closed)"""
    y = a.y if "y" in a.__dict__ else None
    k = _partner_kind(y)
    if k == "CObs":
        return NOT_IMPLEMENTED
    if k == "complex":
        return mk_cobs("res")
    return mk_real_obs("res")


OBS_OPS = ["__add__", "__radd__", "__sub__", "__rsub__", "__mul__", "__rmul__", "__truediv__", "__rtruediv__"]
for _m in OBS_OPS:
    contract(
        REL + "::Obs." + _m, props=["C04"],
        params=dict(self=ObsS(), y=PARTNERS),
        ensures=_op_post,
        result=_obs_op_result,
        crosscheck=False,
        gen=_gen_for(ObsS(), "y"),
        note="operand-type matrix: partner in {Obs, CObs, int, float, complex}; ndarray partners map the operator over the array (not modelled)",
    )

COBS_OPS = [("__add__", "other"), ("__radd__", "y"), ("__sub__", "other"), ("__rsub__", "other"), ("__mul__", "other"), ("__rmul__", "other"),
            ("__truediv__", "other"), ("__rtruediv__", "other")]
for _m, _pn in COBS_OPS:
    contract(
        REL + "::CObs." + _m, props=["C04"],
        params={"self": CObsS("both"), _pn: PARTNERS},
        ensures=_op_post,
        crosscheck=False,
        gen=(lambda pn: lambda rng, case: {"self": CObsS("number" if case.get("self") == "imag:number" else "obs").random(rng),
                                           pn: _rand_partner(rng, case[pn])})(_pn),
    )


for _m in ("__pow__", "__rpow__"):
    contract(
        REL + "::Obs." + _m, props=["C04"],
        params=dict(self=ObsS(), y=(OneOf(obs=ObsS(), int=Int(lo=1, hi=3), float=Real()) if _m == "__pow__" else OneOf(int=Int(lo=1, hi=3), float=Real()))),
        ensures=_op_post, result=lambda a, ctx: mk_real_obs("res"), crosscheck=False, gen=_gen_for(ObsS(), "y"),
        not_decided=["complex exponents / bases (Obs ** complex, complex ** Obs) are not part of this matrix: there is no complex power"],
    )
contract(REL + "::Obs.__neg__", props=["C04"], params=dict(self=ObsS()), ensures=_op_post, result=lambda a, ctx: mk_real_obs("res"),
         crosscheck=False, gen=lambda rng, case: {"self": ObsS().random(rng)})
