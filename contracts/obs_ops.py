"""C05: reweight, correlate, merge_obs (pyerrors/obs.py) pair samples by configuration number."""
import z3
from fractions import Fraction

from pyvc.specs import contract, Spec, Custom, Const, OneOf, Bool
from pyvc.sym import (Sym, SInt, SReal, SBool, SSeq, CList, CDict, SObj, SRange, SOpaque, Len, At, And, Or, Not, Implies, Iff, Ite,
                      ForAll, Exists, eq, compare, fresh, wrap, member, UNDEF, is_range)
from pyvc import gen as G
from contracts.obsmodel import Layout, ObsSpec, _ObsOn, mk_obs, A, D, chain, names_of, native_obs_from, is_obs
from contracts.obs_kernel import subset, pyeq
from contracts.obs_init import ListSpec

REL = "pyerrors/obs.py"

L1R = Layout([("A|r1", "range")])
L1L = Layout([("A|r1", "list")])
L2 = Layout([("A|r1", "range"), ("A|r2", "list")])
L2b = Layout([("A|r1", "list"), ("A|r2", "list")])
LB = Layout([("B|r1", "range")])
L12 = Layout([("A|r2", "list")])


def sample(o, cn, k):
    """the per-configuration sample: fluctuation + replica mean"""
    return At(chain(o, cn, "deltas"), k) + chain(o, cn, "r_values")


# ---------------------------------------------------------------------------------------------------
# an assumed contract of Obs.__truediv__ that only records its operands (the arithmetic itself is C01)

def _div_result(a, ctx):
    return SObj("Obs", {"_quotient_of": (a.self, a.y), "reweighted": SBool(z3.Bool(fresh("q.rw"))), "names": A(a.self, "names")})


_DIV_STUB = contract(
    REL + "::Obs.__truediv__", props=[], assumed=True, register=False, name=REL + "::Obs.__truediv__[operands recorded]",
    params=dict(self=Custom(lambda n, c, s: None), y=Custom(lambda n, c, s: None)),
    result=_div_result,
    note="at call sites inside reweight the quotient is kept symbolic (numerator, denominator); its value / fluctuations are C01",
)


# ---------------------------------------------------------------------------------------------------
# reweight(weight, obs, all_configs=...)

RW_LAYOUTS = {
    # key: (layout of weight, layout of obs[0])
    "same-1": (L1R, L1R), "list-in-range": (L1R, L1L), "list-in-list": (L1L, L1L), "range-in-list": (L1L, L1R),
    "two-of-two": (L2, L2), "one-of-two": (L2, L12), "other-ensemble": (L1R, LB), "extra-replica": (L1R, L2),
}


class PairSpec(Spec):
    def __init__(self, table, which):
        self.table, self.which = table, which

    def variants(self):
        out = []
        for k, pair in self.table.items():
            lay = pair[self.which]
            sp = _ObsOn(lay, 5)
            out.append((k, sp if self.which == 0 else _ListOfObs(sp)))
        return out


class _ListOfObs(Spec):
    def __init__(self, sp):
        self.sp = sp

    def make(self, name, ctx, shape=None):
        return CList([self.sp.make(name + "0", ctx, shape)], "list")

    def shapes(self, bound):
        return self.sp.shapes(bound)

    def native(self, value, ev):
        return [self.sp.native(value.items[0], ev)]

    def random(self, rng, shape=None):
        return [self.sp.random(rng, shape)]

    def lift(self, v):
        return CList([self.sp.lift(v[0])], "list")


def _first(obs):
    return obs.items[0] if isinstance(obs, CList) else obs[0]


def _rw_value_error(a):
    w, o = a.weight, _first(a.obs)
    wn, on = names_of(w), names_of(o)
    conds = [not set(on).issubset(wn)]
    conds.append(len(set(n.split("|")[0] for n in on)) > 1 or len(set(n.split("|")[0] for n in wn)) > 1)
    for n in on:
        if n in wn:
            conds.append(Not(subset(chain(o, n, "idl"), chain(w, n, "idl"))))
    return Or(*conds)


def _all_configs(a):
    kw = a.kwargs
    d = kw.d if isinstance(kw, CDict) else kw
    return bool(d.get("all_configs"))


def w_at(w, cn, c):
    """sample of the weight on configuration number c of chain cn (native only)"""
    idl = list(w.idl[cn])
    return float(w.deltas[cn][idl.index(c)] + w.r_values[cn])


def _rw_post(a, r):
    w, o = a.weight, _first(a.obs)
    res = _first(r)
    out = {"one-result": Len(r) == 1, "flag": _flag_true(res)}
    if isinstance(res, SObj):
        num, den = res.attrs["_quotient_of"]
        for cn in names_of(o):
            oi, wi = chain(o, cn, "idl"), chain(w, cn, "idl")
            n = Len(oi)
            # numerator: the observable of the per-configuration products w(c) * o(c), on o's configurations
            out["numerator.idl.%s" % cn] = pyeq_seq(chain(num, cn, "idl"), oi)
            out["numerator.%s" % cn] = ForAll(0, n, lambda k, cn=cn, oi=oi, wi=wi: ForAll(0, Len(wi), lambda j: Implies(
                At(wi, j) == At(oi, k), eq(sample(num, cn, k), sample(w, cn, j) * sample(o, cn, k)))))
        if _all_configs(a):
            out["denominator"] = den is a.post.weight
        else:
            for cn in names_of(o):
                oi, wi = chain(o, cn, "idl"), chain(w, cn, "idl")
                out["denominator.idl.%s" % cn] = pyeq_seq(chain(den, cn, "idl"), oi)
                out["denominator.%s" % cn] = ForAll(0, Len(oi), lambda k, cn=cn, oi=oi, wi=wi: ForAll(0, Len(wi), lambda j: Implies(
                    At(wi, j) == At(oi, k), eq(sample(den, cn, k), sample(w, cn, j)))))
        return out
    # native: compare with the quotient built independently by configuration-number lookup
    import numpy as np
    from pyvc.native import repo_module
    pe = repo_module("pyerrors.obs")
    names = sorted(o.names)
    prod = [np.array([w_at(w, n, c) * float(o.deltas[n][k] + o.r_values[n]) for k, c in enumerate(o.idl[n])]) for n in names]
    wsub = [np.array([w_at(w, n, c) for c in o.idl[n]]) for n in names]
    idls = [o.idl[n] for n in names]
    expected = pe.Obs(prod, names, idl=idls) / (w if _all_configs(a) else pe.Obs(wsub, names, idl=idls))
    out["value"] = eq(float(res.value), float(expected.value))
    for n in names:
        out["fluctuations.%s" % n] = bool(np.allclose(res.deltas[n], expected.deltas[n], rtol=1e-9, atol=1e-12)) and \
            list(res.idl[n]) == list(expected.idl[n])
    return out


def pyeq_seq(x, y):
    if x is UNDEF or y is UNDEF:
        return False
    return And(Len(x) == Len(y), ForAll(0, Len(x), lambda i: At(x, i) == At(y, i)))


def _flag_true(res):
    f = A(res, "reweighted")
    if isinstance(f, Sym):
        return f
    return f is True


def _rw_gen(rng, case):
    key = case["weight"]
    wl, ol = RW_LAYOUTS[key]
    w = _ObsOn(wl, 5).random(rng)
    w.reweighted = False
    chains = {}
    for cn, kind in ol.chains:
        if cn in w.idl and rng.random() < 0.85:
            sub = G.sub_idl(rng, w.idl[cn], kind)
            tries = 0
            while (sub is None or len(sub) < 5) and tries < 30:
                sub = G.sub_idl(rng, w.idl[cn], kind)
                tries += 1
            if sub is None or len(sub) < 5:
                sub = w.idl[cn] if kind == "range" or not isinstance(w.idl[cn], range) else list(w.idl[cn])
        else:
            sub = G.idl(rng, kind, rng.randint(5, 8))
        if kind == "list" and len(set(sub[j + 1] - sub[j] for j in range(len(sub) - 1))) == 1 and len(sub) > 2:
            pass
        chains[cn] = (sub, list(G.reals(rng, len(sub)) + 2.0))
    o = native_obs_from({"chains": chains})
    return {"weight": w, "obs": [o], "kwargs": {"all_configs": True} if case["kwargs"] == "all" else {}}


contract(
    REL + "::reweight", props=["C05"], overrides={REL + "::Obs.__truediv__": _DIV_STUB},
    params=dict(weight=PairSpec(RW_LAYOUTS, 0), obs=PairSpec(RW_LAYOUTS, 1),
                kwargs=OneOf(all=Custom(lambda n, c, s: CDict({"all_configs": True}), native=lambda v, ev: {"all_configs": True}),
                             own=Custom(lambda n, c, s: CDict(), native=lambda v, ev: {}))),
    cases_filter=lambda case: case["weight"] == case["obs"],
    inline=[REL + "::Obs.mc_names", REL + "::Obs.cov_names", REL + "::Obs.covobs"],
    raises=[("ValueError", _rw_value_error)],
    ensures=_rw_post,
    native_call=lambda args: __import__("pyvc.native", fromlist=["x"]).repo_module("pyerrors.obs").reweight(args["weight"], args["obs"], **args["kwargs"]),
    gen=_rw_gen, crosscheck=False, abstract_real=True,
    note="one observable per call; chain layouts of weight and observable enumerated; covariance inputs not modelled "
         "(their rejection is not decided); the quotient itself is the Obs division of C01",
    not_decided=["rejection of observables carrying covariance inputs", "lists of several observables (the loop body is the same)"],
)


# ---------------------------------------------------------------------------------------------------
# correlate(obs_a, obs_b): observable of the per-configuration products; identical chains and lists required

CO_LAYOUTS = {
    "same-range": (L1R, L1R), "same-list": (L1L, L1L), "range-vs-list": (L1R, L1L), "two-rep": (L2, L2),
    "other-ensemble": (L1R, LB), "missing-replica": (L2, L1R),
}


def _co_value_error(a):
    x, y = a.obs_a, a.obs_b
    xn, yn = names_of(x), names_of(y)
    conds = [sorted(xn) != sorted(yn)]
    conds.append(len(set(n.split("|")[0] for n in xn)) > 1 or len(set(n.split("|")[0] for n in yn)) > 1)
    if sorted(xn) == sorted(yn):
        for n in xn:
            conds.append(Not(py_idl_eq(chain(x, n, "idl"), chain(y, n, "idl"))))
    return Or(*conds)


def py_idl_eq(x, y):
    """Python == of two configuration lists as the code compares them (range == list is False)"""
    if is_range(x) != is_range(y):
        return False
    return pyeq_seq(x, y)


def _co_post(a, r):
    x, y = a.obs_a, a.obs_b
    out = {"is-obs": is_obs(r), "names": names_of(r) == sorted(names_of(x))}
    for cn in names_of(x):
        xi = chain(x, cn, "idl")
        n = Len(xi)
        out["idl.%s" % cn] = pyeq_seq(chain(r, cn, "idl"), xi)
        # per-configuration products: sample_r(c) = sample_a(c) * sample_b(c), and fluctuation = sample - mean
        prod = lambda k, cn=cn: sample(x, cn, k) * sample(y, cn, k)
        out["products.%s" % cn] = ForAll(0, n, lambda k, cn=cn, prod=prod: eq(sample(r, cn, k), prod(k)))
    fa, fb, fr = A(x, "reweighted"), A(y, "reweighted"), A(r, "reweighted")
    out["flag"] = Iff(_b(fr), Or(_b(fa), _b(fb)))
    return out


def _b(f):
    return f if isinstance(f, Sym) else bool(f)


def _co_gen(rng, case):
    xl, yl = CO_LAYOUTS[case["obs_a"]]
    x = _ObsOn(xl, 5).random(rng)
    chains = {}
    for cn, kind in yl.chains:
        if cn in x.idl and rng.random() < 0.8 and (isinstance(x.idl[cn], range) == (kind == "range")):
            chains[cn] = (x.idl[cn], list(G.reals(rng, len(x.idl[cn])) + 1.0))
        else:
            idl = G.idl(rng, kind, rng.randint(5, 8))
            chains[cn] = (idl, list(G.reals(rng, len(idl)) + 1.0))
    y = native_obs_from({"chains": chains, "reweighted": rng.random() < 0.3})
    return {"obs_a": x, "obs_b": y}


contract(
    REL + "::correlate", props=["C05"],
    params=dict(obs_a=PairSpec(CO_LAYOUTS, 0), obs_b=Custom(lambda n, c, s: None, variants=lambda: [
        (k, _ObsOn(CO_LAYOUTS[k][1], 5)) for k in CO_LAYOUTS])),
    cases_filter=lambda case: case["obs_a"] == case["obs_b"],
    inline=[REL + "::Obs.mc_names", REL + "::Obs.cov_names", REL + "::Obs.covobs"],
    raises=[("ValueError", _co_value_error)],
    ensures=_co_post,
    gen=_co_gen, crosscheck=False, abstract_real=True,
    note="chain layouts enumerated; covariance inputs not modelled; the RuntimeWarning for reweighted inputs is dropped",
)


# ---------------------------------------------------------------------------------------------------
# merge_obs(list_of_obs): chains = disjoint union of the inputs' chains, samples preserved

MG_LAYOUTS = {
    "two-replicas": [L1R, L12], "list+range": [L1L, Layout([("A|r2", "range")])], "duplicate": [L1R, L1R],
    "two-ensembles": [L1R, LB], "three": [L1R, L12, Layout([("A|r3", "range")])],
}


class MergeSpec(Spec):
    def variants(self):
        return [(k, _MergeOn(v)) for k, v in MG_LAYOUTS.items()]


class _MergeOn(Spec):
    def __init__(self, layouts):
        self.sps = [_ObsOn(l, 5) for l in layouts]

    def make(self, name, ctx, shape=None):
        return CList([sp.make("%s%d" % (name, i), ctx, None if shape is None else shape[i]) for i, sp in enumerate(self.sps)], "list")

    def shapes(self, bound):
        import itertools
        return [list(c) for c in itertools.product(*[sp.shapes(bound)[:2] for sp in self.sps])]

    def native(self, value, ev):
        return [sp.native(v, ev) for sp, v in zip(self.sps, value.items)]

    def random(self, rng, shape=None):
        return [sp.random(rng) for sp in self.sps]


def _items(x):
    return x.items if isinstance(x, CList) else x


def _mg_value_error(a):
    obs = _items(a.list_of_obs)
    allnames = [n for o in obs for n in names_of(o)]
    dup = len(allnames) != len(set(allnames))
    multi = len(set(n.split("|")[0] for n in allnames)) > 1
    return dup or multi


def _mg_post(a, r):
    obs = _items(a.list_of_obs)
    allnames = sorted(n for o in obs for n in names_of(o))
    out = {"is-obs": is_obs(r), "names": names_of(r) == allnames}
    for o in obs:
        for cn in names_of(o):
            oi = chain(o, cn, "idl")
            out["idl.%s" % cn] = pyeq_seq(chain(r, cn, "idl"), oi)
            out["samples.%s" % cn] = ForAll(0, Len(oi), lambda k, o=o, cn=cn: eq(sample(r, cn, k), sample(o, cn, k)))
    fr = A(r, "reweighted")
    out["flag"] = Iff(_b(fr), Or(*[_b(A(o, "reweighted")) for o in obs]))
    # the flag of a merged observable is a plain Python bool (it is written to JSON as such)
    out["flag-kind"] = isinstance(fr, (bool, SBool)) if isinstance(r, SObj) else type(fr) is bool
    return out


contract(
    REL + "::merge_obs", props=["C05"],
    params=dict(list_of_obs=MergeSpec()),
    inline=[REL + "::Obs.mc_names", REL + "::Obs.cov_names", REL + "::Obs.covobs"],
    raises=[("ValueError", _mg_value_error)],
    ensures=_mg_post,
    crosscheck=False,
    note="2..3 single-chain inputs on enumerated layouts; covariance inputs not modelled",
)


# ---------------------------------------------------------------------------------------------------
# reweight with SEVERAL observables in one call: every observable is paired with the weight on ITS OWN configurations

class _TwoObs(Spec):
    def __init__(self, sp):
        self.sp = sp

    def make(self, name, ctx, shape=None):
        return CList([self.sp.make(name + "0", ctx, shape), self.sp.make(name + "1", ctx, shape)], "list")

    def shapes(self, bound):
        return self.sp.shapes(bound)

    def native(self, value, ev):
        return [self.sp.native(value.items[0], ev), self.sp.native(value.items[1], ev)]

    def random(self, rng, shape=None):
        return [self.sp.random(rng, shape), self.sp.random(rng, shape)]


def _rw2_post(a, r):
    from pyvc.driver import Namespace
    out = {"two results": Len(r) == 2}
    items = r.items if isinstance(r, CList) else list(r)
    obs = a.obs.items if isinstance(a.obs, CList) else list(a.obs)
    if len(items) != 2:
        return out
    for i in (0, 1):
        sub = Namespace(dict(a.__dict__))
        sub.__dict__["obs"] = CList([obs[i]], "list") if isinstance(a.obs, CList) else [obs[i]]
        ri = CList([items[i]], "list") if isinstance(r, CList) else [items[i]]
        for k, v in _rw_post(sub, ri).items():
            if k != "one-result":
                out["obs%d.%s" % (i, k)] = v
    return out


def _rw2_value_error(a):
    from pyvc.driver import Namespace
    obs = a.obs.items if isinstance(a.obs, CList) else list(a.obs)
    conds = []
    for i in (0, 1):
        sub = Namespace(dict(a.__dict__))
        sub.__dict__["obs"] = CList([obs[i]], "list") if isinstance(a.obs, CList) else [obs[i]]
        conds.append(_rw_value_error(sub))
    return Or(*conds)


def _rw2_gen(rng, case):
    g = _rw_gen(rng, {"weight": "list-in-list" if case["obs"] == "ll" else "list-in-range", "kwargs": case["kwargs"]})
    g2 = None
    for _ in range(20):
        cand = _rw_gen(rng, {"weight": "list-in-list" if case["obs"] == "ll" else "list-in-range", "kwargs": case["kwargs"]})
        if True:
            g2 = cand
            break
    # both observables must live on the SAME weight: rebuild the second one on subsets of the first weight
    w = g["weight"]
    chains = {}
    for cn in g["obs"][0].names:
        sub = G.sub_idl(rng, w.idl[cn], "list")
        tries = 0
        while (sub is None or len(sub) < 5) and tries < 40:
            sub = G.sub_idl(rng, w.idl[cn], "list")
            tries += 1
        if sub is None or len(sub) < 5:
            sub = list(w.idl[cn])
        chains[cn] = (list(sub), list(G.reals(rng, len(sub)) + 1.0))
    o1 = native_obs_from({"chains": chains})
    return {"weight": w, "obs": [g["obs"][0], o1], "kwargs": g["kwargs"]}


contract(
    REL + "::reweight", name=REL + "::reweight[two observables in one call]", props=["C05"], overrides={REL + "::Obs.__truediv__": _DIV_STUB},
    params=dict(weight=OneOf(ll=_ObsOn(L1L, 5), lr=_ObsOn(L1R, 5)), obs=OneOf(ll=_TwoObs(_ObsOn(L1L, 5)), lr=_TwoObs(_ObsOn(L1L, 5))),
                kwargs=OneOf(all=Custom(lambda n, c, s: CDict({"all_configs": True}), native=lambda v, ev: {"all_configs": True}),
                             own=Custom(lambda n, c, s: CDict(), native=lambda v, ev: {}))),
    cases_filter=lambda case: case["weight"] == case["obs"],
    inline=[REL + "::Obs.mc_names", REL + "::Obs.cov_names", REL + "::Obs.covobs"],
    raises=[("ValueError", _rw2_value_error)],
    ensures=_rw2_post,
    native_call=lambda args: __import__("pyvc.native", fromlist=["x"]).repo_module("pyerrors.obs").reweight(args["weight"], args["obs"], **args["kwargs"]),
    gen=_rw2_gen, crosscheck=False, abstract_real=True,
    note="two observables on independent configuration subsets of the same chain; the weight's chain is a list or a range",
)
