"""C20: constant tables of pyerrors/dirac.py (exact, exhaustive) and the epsilon tensors (all integers)."""
import ast
from fractions import Fraction
import itertools

from pyvc.specs import contract, Int, Custom
from pyvc.sym import And, Or, Not, Implies, Iff, Ite, eq, CheckerError

REL = "pyerrors/dirac.py"


# ---------------------------------------------------------------------------------------------------
# exact Gaussian rationals and 4x4 matrices, evaluated from the AST of the module (no floats involved)

class GQ:
    __slots__ = ("re", "im")

    def __init__(self, re=0, im=0):
        self.re, self.im = Fraction(re), Fraction(im)

    def __add__(self, o):
        return GQ(self.re + o.re, self.im + o.im)

    def __sub__(self, o):
        return GQ(self.re - o.re, self.im - o.im)

    def __mul__(self, o):
        return GQ(self.re * o.re - self.im * o.im, self.re * o.im + self.im * o.re)

    def conj(self):
        return GQ(self.re, -self.im)

    def __eq__(self, o):
        return self.re == o.re and self.im == o.im

    def __repr__(self):
        return "(%s%+sj)" % (self.re, self.im)


def mmul(A, B):
    n = len(A)
    return [[_sum(A[i][k] * B[k][j] for k in range(n)) for j in range(n)] for i in range(n)]


def _sum(xs):
    t = GQ()
    for x in xs:
        t = t + x
    return t


def madd(A, B):
    return [[a + b for a, b in zip(ra, rb)] for ra, rb in zip(A, B)]


def msub(A, B):
    return [[a - b for a, b in zip(ra, rb)] for ra, rb in zip(A, B)]


def mscale(c, A):
    return [[c * a for a in r] for r in A]


def mdag(A):
    return [[A[j][i].conj() for j in range(len(A))] for i in range(len(A))]


def ident(n=4):
    return [[GQ(1 if i == j else 0) for j in range(n)] for i in range(n)]


def ev_scalar(node):
    if isinstance(node, ast.Constant):
        v = node.value
        if isinstance(v, complex):
            return GQ(Fraction(repr(v.real)) if v.real else 0, Fraction(repr(v.imag)))
        if isinstance(v, (int, float)):
            return GQ(Fraction(repr(v)) if isinstance(v, float) else v)
    if isinstance(node, ast.UnaryOp) and isinstance(node.op, ast.USub):
        return GQ() - ev_scalar(node.operand)
    if isinstance(node, ast.UnaryOp) and isinstance(node.op, ast.UAdd):
        return ev_scalar(node.operand)
    raise CheckerError("dirac.py: matrix entry %s is outside the exact evaluator" % ast.dump(node))


def ev_expr(node, env):
    """exact value of a module-level / Grid_gamma expression"""
    if isinstance(node, ast.Name):
        if node.id not in env:
            raise CheckerError("dirac.py: unknown name %s" % node.id)
        return env[node.id]
    if isinstance(node, ast.Constant) or (isinstance(node, ast.UnaryOp) and isinstance(node.operand, ast.Constant)):
        return ev_scalar(node)
    if isinstance(node, ast.Subscript):
        base = ev_expr(node.value, env)
        if isinstance(node.slice, ast.Constant) and isinstance(node.slice.value, int):
            return base[node.slice.value]
        raise CheckerError("dirac.py: subscript")
    if isinstance(node, ast.BinOp):
        a, b = ev_expr(node.left, env), ev_expr(node.right, env)
        if isinstance(node.op, ast.MatMult):
            return mmul(a, b)
        if isinstance(node.op, ast.Sub):
            return msub(a, b) if isinstance(a, list) else a - b
        if isinstance(node.op, ast.Add):
            return madd(a, b) if isinstance(a, list) else a + b
        if isinstance(node.op, ast.Mult):
            if isinstance(a, GQ) and isinstance(b, list):
                return mscale(a, b)
            if isinstance(b, GQ) and isinstance(a, list):
                return mscale(b, a)
            if isinstance(a, GQ) and isinstance(b, GQ):
                return a * b
        raise CheckerError("dirac.py: operator %s" % type(node.op).__name__)
    if isinstance(node, ast.Call) and isinstance(node.func, ast.Attribute) and node.func.attr == "array":
        arg = node.args[0]
        if isinstance(arg, ast.List) and arg.elts and isinstance(arg.elts[0], ast.List):
            return [[ev_scalar(e) for e in row.elts] for row in arg.elts]
        if isinstance(arg, ast.List):
            return [ev_expr(e, env) for e in arg.elts]
    raise CheckerError("dirac.py: expression %s is outside the exact evaluator" % ast.dump(node)[:80])


def module_env(reg):
    mod = reg.module(REL)
    env = {}
    for name, val in mod.assigns.items():
        env[name] = ev_expr(val, env)
    return mod, env


MU = ["X", "Y", "Z", "T"]


def finite_tables(reg):
    mod, env = module_env(reg)
    out = []
    need = ["gammaX", "gammaY", "gammaZ", "gammaT", "gamma", "gamma5", "identity"]
    for n in need:
        if n not in env:
            raise CheckerError("contract no longer binds: %s not defined in dirac.py" % n)
    g = [env["gamma" + m] for m in MU]
    one = ident()
    two = mscale(GQ(2), one)
    zero = mscale(GQ(0), one)
    for a in range(4):
        for b in range(a, 4):
            anti = madd(mmul(g[a], g[b]), mmul(g[b], g[a]))
            out.append(("clifford.%s%s" % (MU[a], MU[b]), anti == (two if a == b else zero), None))
    for a in range(4):
        out.append(("hermitian.gamma%s" % MU[a], mdag(g[a]) == g[a], None))
        out.append(("gamma-array.%d" % a, env["gamma"][a] == g[a], "gamma[%d] is gamma%s" % (a, MU[a])))
    out.append(("hermitian.gamma5", mdag(env["gamma5"]) == env["gamma5"], None))
    out.append(("gamma5.product", env["gamma5"] == mmul(mmul(g[0], g[1]), mmul(g[2], g[3])), None))
    for a in range(4):
        out.append(("gamma5.anticommutes.%s" % MU[a], madd(mmul(env["gamma5"], g[a]), mmul(g[a], env["gamma5"])) == zero, None))
    out.append(("identity", env["identity"] == one, None))
    return out


def grid_spec(tag, g, g5):
    """the structure a Grid tag names (from the property statement / Grid conventions)"""
    ix = {"X": 0, "Y": 1, "Z": 2, "T": 3}
    if tag == "Identity":
        return ident()
    if tag == "Gamma5":
        return g5
    if tag.startswith("Gamma") and tag.endswith("Gamma5"):
        return mmul(g[ix[tag[5]]], g5)
    if tag.startswith("Gamma"):
        return g[ix[tag[5]]]
    if tag.startswith("Sigma"):
        a, b = ix[tag[5]], ix[tag[6]]
        return mscale(GQ(Fraction(1, 2)), msub(mmul(g[a], g[b]), mmul(g[b], g[a])))
    raise KeyError(tag)


GRID_TAGS = ["Identity", "Gamma5", "GammaX", "GammaY", "GammaZ", "GammaT", "GammaXGamma5", "GammaYGamma5", "GammaZGamma5",
             "GammaTGamma5", "SigmaXT", "SigmaXY", "SigmaXZ", "SigmaYT", "SigmaYZ", "SigmaZT"]


def finite_grid(reg):
    mod, env = module_env(reg)
    fn = mod.functions.get("Grid_gamma")
    if fn is None:
        raise CheckerError("contract no longer binds: Grid_gamma not found")
    g = [env["gamma" + m] for m in MU]
    body = [s for s in fn.body if not (isinstance(s, ast.Expr) and isinstance(s.value, ast.Constant))]
    if len(body) != 2 or not isinstance(body[0], ast.If) or not isinstance(body[1], ast.Return):
        raise CheckerError("Grid_gamma no longer has the shape `if/elif chain; return g`")
    param = fn.args.args[0].arg
    ret = body[1].value
    table = {}
    node = body[0]
    else_body = None
    while True:
        t = node.test
        if not (isinstance(t, ast.Compare) and len(t.ops) == 1 and isinstance(t.ops[0], ast.Eq) and isinstance(t.left, ast.Name)
                and t.left.id == param and isinstance(t.comparators[0], ast.Constant)):
            raise CheckerError("Grid_gamma: unexpected test at line %d" % node.lineno)
        if len(node.body) != 1 or not isinstance(node.body[0], ast.Assign) or not isinstance(node.body[0].targets[0], ast.Name) \
                or not isinstance(ret, ast.Name) or node.body[0].targets[0].id != ret.id:
            raise CheckerError("Grid_gamma: branch at line %d is not a single assignment to the returned name" % node.lineno)
        tag = t.comparators[0].value
        if tag not in table:      # the first matching branch wins
            table[tag] = node.body[0].value
        if len(node.orelse) == 1 and isinstance(node.orelse[0], ast.If):
            node = node.orelse[0]
            continue
        else_body = node.orelse
        break
    out = []
    for tag in GRID_TAGS:
        if tag not in table:
            out.append(("grid.%s" % tag, False, "tag not accepted"))
            continue
        val = ev_expr(table[tag], env)
        out.append(("grid.%s" % tag, val == grid_spec(tag, g, env["gamma5"]), None))
    extra = [t for t in table if t not in GRID_TAGS]
    out.append(("grid.no-other-tags", not extra, extra or None))
    raises = len(else_body) == 1 and isinstance(else_body[0], ast.Raise) and isinstance(else_body[0].exc, ast.Call) and \
        isinstance(else_body[0].exc.func, ast.Name) and else_body[0].exc.func.id == "ValueError"
    out.append(("grid.unknown-tag-raises-ValueError", bool(raises), None))
    return out


def native_tables(oid):
    """the same relation evaluated with the real numpy arrays of the imported module"""
    import numpy as np
    from pyvc.native import repo_module
    d = repo_module("pyerrors.dirac")
    g = [d.gammaX, d.gammaY, d.gammaZ, d.gammaT]
    ix = {"X": 0, "Y": 1, "Z": 2, "T": 3}
    one = np.eye(4)
    kind, _, rest = oid.partition(".")
    if kind == "clifford":
        a, b = ix[rest[0]], ix[rest[1]]
        lhs, rhs = g[a] @ g[b] + g[b] @ g[a], 2 * one * (a == b)
    elif kind == "hermitian":
        m = d.gamma5 if rest == "gamma5" else g[ix[rest[-1]]]
        lhs, rhs = m.conj().T, m
    elif kind == "gamma-array":
        lhs, rhs = d.gamma[int(rest)], g[int(rest)]
    elif oid == "gamma5.product":
        lhs, rhs = d.gamma5, g[0] @ g[1] @ g[2] @ g[3]
    elif oid.startswith("gamma5.anticommutes"):
        a = ix[oid[-1]]
        lhs, rhs = d.gamma5 @ g[a] + g[a] @ d.gamma5, 0 * one
    elif oid == "identity":
        lhs, rhs = d.identity, one
    elif kind == "grid":
        tag = rest
        if tag in GRID_TAGS:
            def spec(tag):
                if tag == "Identity":
                    return one
                if tag == "Gamma5":
                    return d.gamma5
                if tag.startswith("Gamma") and tag.endswith("Gamma5"):
                    return g[ix[tag[5]]] @ d.gamma5
                if tag.startswith("Gamma"):
                    return g[ix[tag[5]]]
                a, b = ix[tag[5]], ix[tag[6]]
                return 0.5 * (g[a] @ g[b] - g[b] @ g[a])
            try:
                lhs, rhs = d.Grid_gamma(tag), spec(tag)
            except Exception as e:
                return True, "Grid_gamma(%r) raises %s" % (tag, type(e).__name__)
        elif tag == "unknown-tag-raises-ValueError":
            try:
                d.Grid_gamma("NoSuchTag")
                return True, "Grid_gamma('NoSuchTag') does not raise"
            except ValueError:
                return False, "Grid_gamma('NoSuchTag') raises ValueError"
            except Exception as e:
                return True, "Grid_gamma('NoSuchTag') raises %s" % type(e).__name__
        else:
            return False, "no native form"
    else:
        return False, "no native form"
    bad = not np.array_equal(np.asarray(lhs), np.asarray(rhs))
    return bad, "%s: lhs=%s rhs=%s" % (oid, np.asarray(lhs).tolist(), np.asarray(rhs).tolist())


contract(REL + "::Grid_gamma", name=REL + "::<tables>", props=["C20"], finite=finite_tables, locate=lambda mod: mod.tree,
         native_ok=False, crosscheck=False, refute=False, finite_native=native_tables,
         note="module-level matrices read from the AST as exact Gaussian rationals; Clifford algebra, hermiticity, gamma5")
contract(REL + "::Grid_gamma", name=REL + "::Grid_gamma[table]", props=["C20"], finite=finite_grid, native_ok=False, crosscheck=False,
         refute=False, finite_native=native_tables, note="every branch of the if/elif chain evaluated exactly against the structure its tag names")


# ---------------------------------------------------------------------------------------------------
# epsilon tensors: all integer arguments (not only 0..4)

def sgn(x):
    return Ite(x > 0, 1, Ite(x < 0, -1, 0))


def perm_sign(*xs):
    """sign of the permutation that sorts xs (0 if two entries coincide)"""
    s = 1
    for a, b in itertools.combinations(range(len(xs)), 2):
        s = s * sgn(xs[b] - xs[a])
    return s


def within(xs, lo, hi):
    return And(*[And(x >= lo, x <= hi) for x in xs])


contract(
    REL + "::epsilon_tensor", props=["C20"],
    params=dict(i=Int(), j=Int(), k=Int()),
    raises=[("ValueError", lambda a: Not(Or(within((a.i, a.j, a.k), 1, 3), within((a.i, a.j, a.k), 0, 2))))],
    ensures=lambda a, r: {"sign": eq(r, perm_sign(a.i, a.j, a.k))},
    gen=lambda rng, case: dict(i=rng.randint(-1, 5), j=rng.randint(-1, 5), k=rng.randint(-1, 5)),
    note="all integer triples, not only {0..4}^3", abstract_nl=False,
)

contract(
    REL + "::epsilon_tensor_rank4", props=["C20"],
    params=dict(i=Int(), j=Int(), k=Int(), o=Int()),
    raises=[("ValueError", lambda a: Not(Or(within((a.i, a.j, a.k, a.o), 1, 4), within((a.i, a.j, a.k, a.o), 0, 3))))],
    ensures=lambda a, r: {"sign": eq(r, perm_sign(a.i, a.j, a.k, a.o))},
    gen=lambda rng, case: dict(i=rng.randint(-1, 5), j=rng.randint(-1, 5), k=rng.randint(-1, 5), o=rng.randint(-1, 5)),
    abstract_nl=False,
)
