"""C09: find_root and quad pass exactly the implicit-function / Leibniz-rule gradients to derived_observable."""
from fractions import Fraction
import z3

from pyvc.specs import contract, Spec, Custom, Const, OneOf, Int, Real, Bool
from pyvc.sym import (Sym, SInt, SReal, SBool, SObj, SOpaque, CDict, CList, Len, At, And, Or, Not, Implies, Iff, Ite, eq, compare, fresh, wrap, tz,
                      treal, UNDEF)
from pyvc.lib_calc import user_fn, partial, integral, INT
from pyvc.lib import _EPS
import contracts.fmt  # noqa: F401  (contract of Obs.__float__, used at the call sites of scipy.integrate.quad)

ROOTS = "pyerrors/roots.py"
INTEG = "pyerrors/integrate.py"
OBS = "pyerrors/obs.py"


def _obs(name, ctx=None, shape=None):
    return SObj("Obs", {"_value": SReal(z3.Real(fresh(name + ".value")))}, name=name)


def _do_result(a, ctx):
    """derived_observable at the call sites of roots.py / integrate.py: central value = func(central values); the operands and the
    gradients handed over are recorded (what derived_observable does with them is C01)"""
    interp = ctx.interp
    ops = list(a.data.items) if isinstance(a.data, CList) else [a.data]
    vals = CList([o.attrs["_value"] for o in ops], "ndarray")
    v = interp.call(a.func, [vals], {}, ctx.call_node)
    kw = a.kwargs.d if isinstance(a.kwargs, CDict) else {}
    mg = kw.get("man_grad")
    return SObj("Obs", {"_value": v, "_operands": CList(ops, "list"), "_man_grad": mg})


_DO_STUB = contract(
    OBS + "::derived_observable", props=[], assumed=True, register=False, name=OBS + "::derived_observable[operands and gradients recorded]",
    params=dict(func=Custom(lambda n, c, s: None), data=Custom(lambda n, c, s: None), array_mode=Const(False),
                kwargs=Custom(lambda n, c, s: CDict())),
    result=_do_result,
    note="the result is an Obs with central value func(central values); operands and man_grad are recorded for the postcondition; "
         "the propagation itself is C01",
)


def _grads(r):
    mg = r.attrs["_man_grad"]
    return list(mg.items) if isinstance(mg, CList) else [mg]


# ---------------------------------------------------------------------------------------------------
# find_root(d, func, guess)

def _fr_post(a, r):
    if not isinstance(a.d, SObj):
        return _fr_post_native(a, r)
    G = user_fn("user_G", 2)
    x, dval = r.attrs["_value"], a.d.attrs["_value"]
    g = _grads(r)
    ops = r.attrs["_operands"].items
    return {
        "root": eq(wrap(G(treal(x), treal(dval))), 0),
        "operand": len(ops) == 1 and ops[0] is a.post.d,
        "inverse-function gradient": len(g) == 1 and eq(g[0], -wrap(partial(G, 1)(treal(x), treal(dval))) / wrap(partial(G, 0)(treal(x), treal(dval)))),
    }


contract(
    ROOTS + "::find_root", props=["C09"], overrides={OBS + "::derived_observable": _DO_STUB},
    params=dict(d=Custom(_obs), func=Const(SOpaque("userfn", "user_G")), guess=Real(), kwargs=Const(CDict())),
    requires=lambda a: {"value is not -eps (the value lambda divides by d.value + eps)":
                        (a.d.attrs["_value"] + _EPS != 0) if isinstance(a.d, SObj) else True},
    ensures=_fr_post,
    abstract_nl=False,
    native_call=lambda args: _fr_native(args), gen=lambda rng, case: _fr_gen(rng, case), crosscheck=False, refute=False,
    note="func is an arbitrary differentiable function G(x, d) (uninterpreted, partial derivatives D0_G / D1_G); d a single observable",
    not_decided=["vector-valued d (several observables)", "the TypeError path for non-autograd functions"],
)


# ---------------------------------------------------------------------------------------------------
# quad(func, p, a, b)

P_VARIANTS = {"[obs]": "o", "[float;obs]": "fo", "[obs;obs]": "oo", "[float]": "f", "[obs;float;obs]": "ofo"}


def _mk_p(code):
    def make(name, ctx, shape):
        return CList([_obs("%s%d" % (name, i)) if c == "o" else SReal(z3.Real(fresh("%s%d" % (name, i)))) for i, c in enumerate(code)], "list")
    return make


P = Custom(None, variants=lambda: [(lab, Custom(_mk_p(code))) for lab, code in P_VARIANTS.items()])
BOUND = OneOf(float=Real(), obs=Custom(_obs))


def _v(x):
    return x.attrs["_value"] if isinstance(x, SObj) else x


def _quad_post(a, r):
    if not isinstance(a.p, CList):
        return _quad_post_native(a, r)
    ps = list(a.p.items)
    n = len(ps)
    F = user_fn("user_F", n + 1)
    pv = [treal(_v(x)) for x in ps]
    av, bv = _v(a.a), _v(a.b)
    val = integral(lambda t: wrap(F(*(pv + [treal(t)]))), av, bv)
    exp_ops = [x for x in a.post.p.items if isinstance(x, SObj)] + [x for x in (a.post.a, a.post.b) if isinstance(x, SObj)]
    if not exp_ops:
        return {"plain scipy result": eq(r[0], val)}
    res = r[0]
    g = _grads(res)
    ops = res.attrs["_operands"].items
    exp_g = [integral((lambda i: lambda t: wrap(partial(F, i)(*(pv + [treal(t)]))))(i), av, bv) for i, x in enumerate(ps) if isinstance(x, SObj)]
    if isinstance(a.a, SObj):
        exp_g.append(-wrap(F(*(pv + [treal(av)]))))
    if isinstance(a.b, SObj):
        exp_g.append(wrap(F(*(pv + [treal(bv)]))))
    out = {"value": eq(res.attrs["_value"], val),
           "operands: observable parameters, then observable limits": len(ops) == len(exp_ops) and all(x is y for x, y in zip(ops, exp_ops)),
           "number of gradients": len(g) == len(exp_g)}
    for j, (x, y) in enumerate(zip(g, exp_g)):
        out["gradient %d: derivative under the integral / -+ integrand at the limits" % j] = eq(x, y)
    return out


contract(
    INTEG + "::quad", props=["C09"], overrides={OBS + "::derived_observable": _DO_STUB},
    params=dict(func=Const(SOpaque("userfn", "user_F")), p=P, a=BOUND, b=BOUND, kwargs=Const(CDict())),
    ensures=_quad_post,
    abstract_nl=False,
    native_call=lambda args: _quad_native(args), gen=lambda rng, case: _quad_gen(rng, case), crosscheck=False, refute=False,
    note="func is an arbitrary differentiable function F(p, x) (uninterpreted, partial derivatives D<i>_F); the parameter list is "
         "enumerated over Obs / float patterns, the limits over Obs / float; scipy's quadrature is an uninterpreted exact integral",
    not_decided=["extra keyword arguments handed to scipy.integrate.quad"],
)


# ---------------------------------------------------------------------------------------------------
# native harnesses: concrete differentiable functions (named by a marker string so that inputs can be replayed)

def _nobs(rng, mean):
    import numpy as np
    from pyvc.native import repo_module
    pe = repo_module("pyerrors.obs")
    r = np.random.default_rng(rng.randint(0, 10 ** 6))
    return pe.Obs([mean + 0.05 * r.normal(size=12)], ["A"])


def _is_nobs(x):
    return type(x).__name__ == "Obs"


def _F_native(n):
    import autograd.numpy as anp
    def F(p, x):
        prod = 1.0
        for j in range(1, n):
            prod = prod * p[j]
        return sum(p[i] * x ** (i + 1) for i in range(n)) + anp.sin(p[0] * x) * prod
    return F


def _quad_native(args):
    from pyvc.native import repo_module
    mod = repo_module("pyerrors.integrate")
    return mod.quad(_F_native(len(args["p"])), args["p"], args["a"], args["b"])


def _quad_gen(rng, case):
    code = P_VARIANTS[case["p"]]
    p = [_nobs(rng, rng.uniform(0.5, 1.5)) if c == "o" else rng.uniform(0.5, 1.5) for c in code]
    lo, hi = rng.uniform(0.0, 0.4), rng.uniform(0.8, 1.6)
    if rng.random() < 0.4:
        lo, hi = hi, lo            # integration from the larger to the smaller limit is legitimate
    a_ = _nobs(rng, lo) if case["a"] == "obs" else lo
    b_ = _nobs(rng, hi) if case["b"] == "obs" else hi
    return dict(func="poly+sin", p=p, a=a_, b=b_, kwargs={})


def _quad_post_native(a, r):
    import numpy as np
    import scipy.integrate as si
    ps = list(a.p)
    n = len(ps)
    val_of = lambda x: float(x.value) if _is_nobs(x) else float(x)
    pv = [val_of(x) for x in ps]
    av, bv = val_of(a.a), val_of(a.b)
    def prod_except(pp, skip):
        out = 1.0
        for j in range(1, n):
            if j != skip:
                out *= pp[j]
        return out
    # every derivative depends on the other parameters: F = sum_i p_i x^(i+1) + sin(p_0 x) * p_1 * ... * p_(n-1)
    F = lambda pp, x: sum(pp[i] * x ** (i + 1) for i in range(n)) + np.sin(pp[0] * x) * prod_except(pp, None)
    dF = lambda i, x: x ** (i + 1) + (x * np.cos(pv[0] * x) * prod_except(pv, None) if i == 0 else np.sin(pv[0] * x) * prod_except(pv, i))
    val = si.quad(lambda x: F(pv, x), av, bv)[0]
    ops = [x for x in ps if _is_nobs(x)] + [x for x in (a.a, a.b) if _is_nobs(x)]
    if not ops:
        return {"plain scipy result": abs(r[0] - val) <= 1e-9 * (1 + abs(val))}
    g = [si.quad(lambda x, i=i: dF(i, x), av, bv)[0] for i, x in enumerate(ps) if _is_nobs(x)]
    if _is_nobs(a.a):
        g.append(-F(pv, av))
    if _is_nobs(a.b):
        g.append(F(pv, bv))
    res = r[0]
    exp = sum(gj * oj.deltas["A"] for gj, oj in zip(g, ops))
    return {"value": abs(res.value - val) <= 1e-9 * (1 + abs(val)),
            "gradients (fluctuations of the result = sum of gradient x fluctuation)": bool(np.allclose(res.deltas["A"], exp, rtol=1e-6, atol=1e-10))}


def _fr_native(args):
    from pyvc.native import repo_module
    mod = repo_module("pyerrors.roots")
    sgn = 1.0 if args["func"] == "x^3+x-d" else -1.0      # the second family is decreasing in x: d - x^3 - x
    return mod.find_root(args["d"], lambda x, d: sgn * (x ** 3 + x - d), args["guess"])


def _fr_gen(rng, case):
    return dict(d=_nobs(rng, rng.uniform(0.5, 3.0)), func=rng.choice(["x^3+x-d", "d-x^3-x"]), guess=1.0, kwargs={})


def _fr_post_native(a, r):
    import numpy as np
    x, d = float(r.value), float(a.d.value)
    g = 1.0 / (3 * x * x + 1)      # dx/dd of the explicit inverse, the same for both sign conventions of the root function
    return {"root": abs(x ** 3 + x - d) <= 1e-8,
            "inverse-function gradient": bool(np.allclose(r.deltas["A"], g * a.d.deltas["A"], rtol=1e-6, atol=1e-12))}
