"""C16 / C10: algebraic identities of the GEVP solver and of the complex matrix product, over an abstract matrix ring."""
import ast
from fractions import Fraction
import z3

from pyvc.specs import contract, Spec, Custom, Const, OneOf, Int, Real, Bool
from pyvc.sym import (Sym, SInt, SReal, SBool, SObj, SOpaque, CDict, CList, Len, At, And, Or, Not, Implies, Iff, Ite, eq, compare, fresh, wrap)
from pyvc.lib_amat import (AMat, fresh_mat, axioms, MM, ADD, SUB, NEG, TR, INV, CHOL, EIGV, LAM, GEIGV, GLAM, I, J, SPD)

CORR = "pyerrors/correlators.py"
LINALG = "pyerrors/linalg.py"


def _mat(n):
    return Custom(lambda name, ctx, shape: fresh_mat(name, n))


def _dims():
    return OneOf(**{"n%d" % n: Const(n) for n in (2, 3)})


class _MatN(Spec):
    """abstract n x n matrix, n enumerated"""

    def variants(self):
        return [("n%d" % n, _mat(n)) for n in (2, 3)]


# ---------------------------------------------------------------------------------------------------
# _GEVP_solver(Gt, G0, method, chol_inv): rows of the result are generalised eigenvectors, largest eigenvalue first

def _gevp_post(a, r):
    if not isinstance(a.Gt, AMat):
        return _gevp_post_native(a, r)
    if not isinstance(r, AMat):
        return {"a matrix of eigenvectors is returned": False}
    V = TR(r.t)                       # columns = returned vectors
    if a.method == "eigh":
        lam = GLAM(a.Gt.t, a.G0.t)
    else:
        C = INV(CHOL(a.G0.t)) if a.chol_inv is None else a.chol_inv.t
        lam = LAM(MM(MM(C, a.Gt.t), TR(C)))
    # eigenvalues ascending in `lam` (numpy / scipy convention); J lam J is the same diagonal in descending order
    return {"G(t) v_s = lambda_s G(t0) v_s with lambda_0 >= lambda_1 >= ...": wrap(MM(a.Gt.t, V) == MM(MM(a.G0.t, V), MM(MM(J, lam), J)))}


def _gevp_requires(a):
    if not isinstance(a.Gt, AMat):
        return {}
    out = {"G(t0) symmetric positive definite (checked by the caller with a Cholesky decomposition)": wrap(SPD(a.G0.t))}
    if a.chol_inv is not None:
        out["chol_inv is the inverse Cholesky factor of G(t0)"] = wrap(a.chol_inv.t == INV(CHOL(a.G0.t)))
    return out


contract(
    CORR + "::_GEVP_solver", props=["C16"],
    params=dict(Gt=_MatN(), G0=_MatN(), method=OneOf(eigh=Const("eigh"), cholesky=Const("cholesky")),
                chol_inv=OneOf(none=Const(None), given=_MatN())),
    cases_filter=lambda case: case["Gt"] == case["G0"] and (case["chol_inv"] == "none" or case["chol_inv"].endswith(case["Gt"])),
    requires=_gevp_requires,
    ensures=_gevp_post,
    axioms=axioms,
    gen=lambda rng, case: _gevp_gen(rng, case), crosscheck=False, refute=False,
    note="matrices are elements of an abstract ring (pyvc/lib_amat.py): the postcondition is the eigen-equation in matrix form "
         "G(t) V = G(t0) V Lambda with Lambda in descending order; numpy / scipy decompositions are characterised by their defining "
         "equations (assumed); float entries (vector_obs=False)",
    not_decided=["the Obs-valued branch (linalg.cholesky / inv / eigv / matmul on observables)", "the LinAlgError fall-back (rows None)",
                 "agreement of the two methods up to sign and normalisation"],
)


def _gevp_gen(rng, case):
    import numpy as np
    n = int(case["Gt"][1:])
    r = np.random.default_rng(rng.randint(0, 10 ** 6))
    A = r.normal(size=(n, n))
    G0 = A @ A.T + n * np.eye(n)
    B = r.normal(size=(n, n))
    Gt = B @ B.T + 0.5 * np.eye(n)
    chol_inv = None if case["chol_inv"] == "none" else np.linalg.inv(np.linalg.cholesky(G0))
    return dict(Gt=Gt, G0=G0, method=case["method"], chol_inv=chol_inv)


def _gevp_post_native(a, r):
    import numpy as np
    out = np.asarray(r, dtype=float)
    lams = []
    ok = True
    for v in out:
        lam = float(v @ a.Gt @ v) / float(v @ a.G0 @ v)
        lams.append(lam)
        ok = ok and bool(np.allclose(a.Gt @ v, lam * (a.G0 @ v), rtol=1e-7, atol=1e-9))
    ok = ok and all(lams[k] >= lams[k + 1] - 1e-10 for k in range(len(lams) - 1))
    return {"G(t) v_s = lambda_s G(t0) v_s with lambda_0 >= lambda_1 >= ...": ok}


# ---------------------------------------------------------------------------------------------------
# matmul: the nested multi_dot of the complex branch computes real and imaginary part of the complex matrix product

def _locate_multi_dot(which):
    def locate(mod):
        fn = mod.functions.get("matmul")
        if fn is None:
            return None
        found = [n for n in ast.walk(fn) if isinstance(n, ast.FunctionDef) and n.name == "multi_dot"]
        found.sort(key=lambda n: n.lineno)
        for n in found:
            if (len(n.args.args) == 2) == (which == "complex"):
                return n
        return None
    return locate


def _ops_spec(k):
    """[re_0, im_0, re_1, im_1, ...] for k complex operands (abstract n x n matrices)"""
    return Custom(lambda name, ctx, shape: CList([fresh_mat("%s_%s%d" % (name, "ri"[j % 2], j // 2), 2) for j in range(2 * k)], "list"))


def _expanded(ops, part):
    """real / imaginary part of (r0 + i i0)(r1 + i i1)... written out as the sum over all choices of factors"""
    import itertools
    k = len(ops) // 2
    terms = []
    for choice in itertools.product((0, 1), repeat=k):      # 1 = imaginary factor of operand j
        n_im = sum(choice)
        if (n_im % 2 == 0) != (part == "Real"):
            continue
        sign = -1 if (n_im // 2) % 2 == 1 else 1
        t = ops[choice[0]].t
        for j in range(1, k):
            t = MM(t, ops[2 * j + choice[j]].t)
        terms.append(NEG(t) if sign < 0 else t)
    acc = terms[0]
    for t in terms[1:]:
        acc = ADD(acc, t)
    return acc


def _md_native(args):
    """the nested function has no entry point: matmul is called on complex observable matrices with the given central values and the
    requested part of the central values of the result is returned"""
    import numpy as np
    from pyvc.native import repo_module
    pe = repo_module("pyerrors.obs")
    la = repo_module("pyerrors.linalg")
    noise = np.array([0.01, -0.01, 0.02, -0.02, 0.005, -0.005])
    ops = args["operands"]
    mats = []
    for j in range(0, len(ops), 2):
        re_, im_ = ops[j], ops[j + 1]
        m = np.empty(re_.shape, dtype=object)
        for idx in np.ndindex(*re_.shape):
            m[idx] = pe.CObs(pe.Obs([re_[idx] + noise], ["e"]), pe.Obs([im_[idx] + 2 * noise], ["e"]))
        mats.append(m)
    res = la.matmul(*mats)
    pick = (lambda c: c.real.value) if args["part"] == "Real" else (lambda c: c.imag.value)
    return np.vectorize(pick)(res).astype(float)


def _md_gen(rng, case):
    import numpy as np
    k = 2 if case["operands"] == "two" else 3
    r = np.random.default_rng(rng.randint(0, 10 ** 6))
    return dict(operands=[r.normal(size=(2, 2)) for _ in range(2 * k)], part=case["part"])


def _md_post(a, r):
    if not isinstance(a.operands, CList):
        import numpy as np
        ops = a.operands
        prod = ops[0] + 1j * ops[1]
        for j in range(2, len(ops), 2):
            prod = prod @ (ops[j] + 1j * ops[j + 1])
        exp = prod.real if a.part == "Real" else prod.imag
        return {"part of the complex product": bool(np.allclose(r, exp, rtol=1e-10, atol=1e-12))}
    ops = a.operands.items
    return {"part of the complex product": isinstance(r, AMat) and wrap(r.t == _expanded(ops, a.part))}


contract(
    LINALG + "::matmul::multi_dot", name=LINALG + "::matmul::multi_dot[complex]", props=["C10"], locate=_locate_multi_dot("complex"),
    params=dict(operands=OneOf(two=_ops_spec(2), three=_ops_spec(3)), part=OneOf(Real=Const("Real"), Imag=Const("Imag"))),
    ensures=_md_post,
    axioms=axioms,
    native_call=_md_native, gen=_md_gen, crosscheck=False, refute=False,
    bounded="2 and 3 complex operands (the operand loop is unrolled); the matrix ring is abstract (any dimension)",
    note="nested function of matmul (complex branch); operands are the real and imaginary parts of 2 or 3 complex matrices as elements of "
         "an abstract (non-commutative) matrix ring; the postcondition is the fully expanded real / imaginary part of the product",
)


def _mdr_native(args):
    import numpy as np
    from pyvc.native import repo_module
    pe = repo_module("pyerrors.obs")
    la = repo_module("pyerrors.linalg")
    noise = np.array([0.01, -0.01, 0.02, -0.02, 0.005, -0.005])
    mats = []
    for v in args["operands"]:
        m = np.empty(v.shape, dtype=object)
        for idx in np.ndindex(*v.shape):
            m[idx] = pe.Obs([v[idx] + noise], ["e"])
        mats.append(m)
    res = la.matmul(*mats)
    return np.vectorize(lambda o: o.value)(res).astype(float)


def _mdr_gen(rng, case):
    import numpy as np
    k = 2 if case["operands"] == "two" else 3
    r = np.random.default_rng(rng.randint(0, 10 ** 6))
    return dict(operands=[r.normal(size=(2, 2)) for _ in range(k)])


def _mdr_post(a, r):
    if not isinstance(a.operands, CList):
        import numpy as np
        prod = a.operands[0]
        for m in a.operands[1:]:
            prod = prod @ m
        return {"ordered product": bool(np.allclose(r, prod, rtol=1e-10, atol=1e-12))}
    ops = a.operands.items
    t = ops[0].t
    for o in ops[1:]:
        t = MM(t, o.t)
    return {"ordered product": isinstance(r, AMat) and wrap(r.t == t)}


contract(
    LINALG + "::matmul::multi_dot", name=LINALG + "::matmul::multi_dot[real]", props=["C10"], locate=_locate_multi_dot("real"),
    params=dict(operands=OneOf(two=Custom(lambda n, c, s: CList([fresh_mat("op%d" % j, 2) for j in range(2)], "list")),
                               three=Custom(lambda n, c, s: CList([fresh_mat("op%d" % j, 2) for j in range(3)], "list")))),
    ensures=_mdr_post,
    axioms=axioms,
    native_call=_mdr_native, gen=_mdr_gen, crosscheck=False, refute=False,
    note="nested function of matmul (real branch): the operands are multiplied in the given order",
)


# ---------------------------------------------------------------------------------------------------
# _scalar_mat_op::_mat: the raveled list is turned back into the matrix row by row before `op` is applied

from pyvc.lib_calc import user_fn  # noqa: E402
from pyvc.sym import treal  # noqa: E402


def _locate_mat(mod):
    fn = mod.functions.get("_scalar_mat_op")
    if fn is None:
        return None
    for n in ast.walk(fn):
        if isinstance(n, ast.FunctionDef) and n.name == "_mat":
            return n
    return None


def _vec(k):
    return Custom(lambda name, ctx, shape: CList([SReal(z3.Real(fresh("%s_%d" % (name, j)))) for j in range(k)], "ndarray", "real"))


def _mat_post(a, r):
    xs = a.x.items
    F = user_fn("user_op", len(xs))
    # op receives the matrix [[x0, x1, ...], [x_dim, ...], ...]: applied to the entries in row-major order
    return {"row-major reconstruction": eq(r, wrap(F(*[treal(v) for v in xs])))}


contract(
    LINALG + "::_scalar_mat_op::_mat", props=["C10"], locate=_locate_mat,
    params=dict(x=OneOf(d1=_vec(1), d2=_vec(4), d3=_vec(9)), op=Const(SOpaque("userfn", "user_op")), kwargs=Const(CDict())),
    ensures=_mat_post,
    bounded="matrix dimension 1..3 (the reconstruction loops are unrolled); entries symbolic",
    native_ok=False, crosscheck=False, refute=False,
    note="nested function of _scalar_mat_op (used by det); `op` is an arbitrary function of the matrix entries; dimensions 1..3 enumerated "
         "(bounded in the dimension, symbolic in the entries)",
)


# ---------------------------------------------------------------------------------------------------
# Corr.prune: the projected matrix G'_ij(t) = (v_i, G(t) v_j) for ALL i, j (no symmetry of G(t) may be assumed)

def _prune_slice(mod, fnode):
    out = []
    started = False
    for st in fnode.body:
        if isinstance(st, ast.Assign) and isinstance(st.targets[0], ast.Name) and st.targets[0].id == "tmpmat":
            started = True
        if started:
            out.append(st)
            if isinstance(st, ast.For):
                return out
    from pyvc.sym import CheckerError
    raise CheckerError("contract no longer binds: projection loop of Corr.prune not found")


def _corr_mats(T):
    def make(name, ctx, shape):
        content = CList([CList([fresh_mat("%s_G%d" % (name, t), 3)], "list") for t in range(T)], "list")
        # content[t] is the N x N array itself (len > 1): __getitem__ returns it; a one-element wrapper list stands for that here
        return SObj("Corr", {"content": content, "T": T, "N": 3})
    return make


_GETITEM_STUB = contract(
    CORR + "::Corr.__getitem__", props=[], assumed=True, register=False, name=CORR + "::Corr.__getitem__[matrix timeslice]",
    params=dict(self=Custom(lambda n, c, s: None), idx=Custom(lambda n, c, s: None)),
    result=lambda a, ctx: a.self.attrs["content"].items[a.idx].items[0],
    note="for a matrix-valued correlator self[t] is the N x N array of timeslice t (defined timeslices only)",
)


def _prune_post(a, r):
    if not isinstance(a.self, SObj):
        return _prune_post_native(a, r)
    vs = a.evecs.items
    out = {"one matrix per timeslice": len(r.rmat.items) == a.self.attrs["T"]}
    for t in range(a.self.attrs["T"]):
        G = a.self.attrs["content"].items[t].items[0].t
        for i in range(2):
            for j in range(2):
                cell = r.rmat.items[t].items[i].items[j]
                out["G'[%d][%d](t=%d) = (v_%d, G(t) v_%d)" % (i, j, t, i, j)] = isinstance(cell, AMat) and wrap(cell.t == MM(MM(TR(vs[i].t), G), vs[j].t))
    return out


def _prune_native(args):
    c = args["self"]
    return c.prune(2, tproj=args["tproj"], t0proj=args["t0proj"])


def _prune_gen(rng, case):
    import numpy as np
    from pyvc.native import repo_module
    pe = repo_module("pyerrors.obs")
    co = repo_module("pyerrors.correlators")
    r = np.random.default_rng(rng.randint(0, 10 ** 6))
    noise = np.array([0.01, -0.01, 0.02, -0.02, 0.005, -0.005])
    E = np.array([0.3, 0.7, 1.2])
    U = r.normal(size=(3, 3)) + 2 * np.eye(3)
    A = r.normal(size=(3, 3)) * 0.05
    A = A - A.T            # antisymmetric part: the correlator matrix is NOT symmetric
    content = []
    for t in range(6):
        G = U @ np.diag(np.exp(-E * t)) @ U.T + A * np.exp(-0.5 * t)
        m = np.empty((3, 3), dtype=object)
        for idx in np.ndindex(3, 3):
            m[idx] = pe.Obs([G[idx] + noise * 1e-3], ["e"])
        content.append(m)
    return dict(self=co.Corr(content), evecs=None, Ntrunc=2, basematrix=None, tproj=3, t0proj=2)


def _prune_post_native(a, r):
    import numpy as np
    c = a.self
    evecs = c.GEVP(a.t0proj, a.tproj, sort=None)[:2]
    ok = True
    for t in range(c.T):
        G = np.vectorize(lambda o: o.value)(c.content[t])
        for i in range(2):
            for j in range(2):
                ok = ok and abs(r.content[t][i][j].value - float(evecs[i] @ G @ evecs[j])) <= 1e-9 * (1 + abs(float(evecs[i] @ G @ evecs[j])))
    return {"G'[i][j](t) = (v_i, G(t) v_j)": bool(ok)}


contract(
    CORR + "::Corr.prune", name=CORR + "::Corr.prune[projection loop]", props=["C16"],
    slice=_prune_slice, overrides={CORR + "::Corr.__getitem__": _GETITEM_STUB},
    params=dict(self=OneOf(T1=Custom(_corr_mats(1)), T2=Custom(_corr_mats(2))), Ntrunc=Const(2),
                basematrix=Custom(lambda n, c, s: None),
                evecs=Custom(lambda n, c, s: CList([fresh_mat("v0", 3), fresh_mat("v1", 3)], "list")),
                tproj=Const(3), t0proj=Const(2)),
    pre_execute=lambda interp, mod, fnode, args: args.__setitem__("basematrix", args["self"]),
    ensures=_prune_post,
    axioms=axioms,
    native_call=_prune_native, gen=_prune_gen, crosscheck=False, refute=False,
    bounded="T in {1, 2} and Ntrunc = 2 (loops unrolled); matrices and vectors are abstract, so the statement is dimension-free per entry",
    slice_note="from `tmpmat = np.empty(...)` to the end of the loop over timeslices; live-in variables self (= basematrix), evecs, Ntrunc = 2",
    note="eigenvectors and timeslice matrices are elements of the abstract matrix ring; T in {1, 2}, Ntrunc = 2 enumerated (the loops are "
         "unrolled); natively the whole method is run on a 3 x 3 correlator matrix that is NOT symmetric",
)


# ---------------------------------------------------------------------------------------------------
# Corr.GEVP: which timeslices are solved against which, and how the vectors are arranged (state, time)

from pyvc.lib_amat import VALS, M as _MSORT  # noqa: E402

SOLVE = z3.Function("GEVP_SOLVE", _MSORT, _MSORT, _MSORT)


def _solver_stub_result(a, ctx):
    return AMat(SOLVE(a.Gt.t, a.G0.t), a.Gt.n)


_SOLVER_STUB = contract(
    CORR + "::_GEVP_solver", props=[], assumed=True, register=False, name=CORR + "::_GEVP_solver[named result]",
    params=dict(Gt=Custom(lambda n, c, s: None), G0=Custom(lambda n, c, s: None), method=Custom(lambda n, c, s: None),
                chol_inv=Custom(lambda n, c, s: None)),
    result=_solver_stub_result,
    note="inside Corr.GEVP the solver's result is a symbol in (G(t), G(t0)); what it satisfies is the solver's own contract",
)

_SYM_STUB = contract(
    CORR + "::Corr.is_matrix_symmetric", props=[], assumed=True, register=False, name=CORR + "::Corr.is_matrix_symmetric[symmetric input]",
    params=dict(self=Custom(lambda n, c, s: None)), result=lambda a, ctx: True,
    note="the correlator matrix is taken to be symmetric (the symmetrisation branch of GEVP is not covered)",
)

GEVP_T = 4


def _gevp_corr(pattern):
    def make(name, ctx, shape):
        content = CList([None if pattern[t] == "n" else CList([fresh_mat("%s_G%d" % (name, t), 3)], "list") for t in range(GEVP_T)], "list")
        return SObj("Corr", {"content": content, "T": GEVP_T, "N": 3})
    return make


def _gevp_getitem(a, ctx):
    x = a.self.attrs["content"].items[a.idx]
    return None if x is None else x.items[0]


_GETITEM2_STUB = contract(
    CORR + "::Corr.__getitem__", props=[], assumed=True, register=False, name=CORR + "::Corr.__getitem__[matrix timeslice or None]",
    params=dict(self=Custom(lambda n, c, s: None), idx=Custom(lambda n, c, s: None)),
    result=_gevp_getitem,
    note="for a matrix-valued correlator self[t] is the N x N array of timeslice t, or None",
)


def _G(a, t):
    x = a.self.attrs["content"].items[t]
    return None if x is None else VALS(x.items[0].t)


def _row_is(cell, mat_term, s):
    return isinstance(cell, SOpaque) and cell.tag == "amatrow" and cell.payload[1] == s and isinstance(cell.payload[0], AMat) and \
        wrap(cell.payload[0].t == mat_term)


def _gevp_all_native(args):
    return args["self"].GEVP(args["t0"], ts=args["ts"], sort=args["sort"])


def _gevp_all_gen(rng, case):
    import numpy as np
    from pyvc.native import repo_module
    pe = repo_module("pyerrors.obs")
    co = repo_module("pyerrors.correlators")
    r = np.random.default_rng(rng.randint(0, 10 ** 6))
    noise = np.array([0.01, -0.01, 0.02, -0.02, 0.005, -0.005]) * 1e-3
    E = np.array([0.3, 0.7, 1.2])
    U = r.normal(size=(3, 3)) + 2 * np.eye(3)
    pattern = {"full": "dddd", "hole": "ddnd", "tail": "dddn"}[case["self"]]
    content = []
    for t in range(GEVP_T):
        if pattern[t] == "n":
            content.append(None)
            continue
        G = U @ np.diag(np.exp(-E * t)) @ U.T
        m = np.empty((3, 3), dtype=object)
        for i in range(3):
            for j in range(i, 3):
                m[i, j] = pe.Obs([G[i, j] + noise], ["e"])
                m[j, i] = m[i, j]
        content.append(m)
    return dict(self=co.Corr(content), t0=int(case["t0"][1:]), ts=None, sort="Eigenvalue", vector_obs=False, kwargs={})


def _gevp_all_post_native(a, r):
    import numpy as np
    from pyvc.native import repo_module
    co = repo_module("pyerrors.correlators")
    c = a.self
    vals = lambda m: np.vectorize(lambda o: o.value)(m)
    G0 = vals(c.content[a.t0])
    ok = len(r) == 3 and all(len(x) == c.T for x in r)
    if ok:
        for t in range(c.T):
            if t <= a.t0 or c.content[t] is None:
                ok = ok and all(r[s][t] is None for s in range(3))
            else:
                ref = co._GEVP_solver(vals(c.content[t]), G0)
                ok = ok and all(r[s][t] is not None and np.allclose(r[s][t], ref[s], rtol=1e-9, atol=1e-12) for s in range(3))
    return {"vectors arranged as [state][time], solved against G(t0)": bool(ok)}


def _gevp_all_post(a, r):
    if not isinstance(a.self, SObj):
        return _gevp_all_post_native(a, r)
    t0 = a.t0
    out = {}
    rows = r.items if isinstance(r, CList) else list(r)
    out["one list per state"] = len(rows) == 3
    if len(rows) != 3:
        return out
    for s in range(3):
        per_t = rows[s].items if isinstance(rows[s], CList) else list(rows[s])
        out["state %d: one entry per timeslice" % s] = len(per_t) == GEVP_T
        if len(per_t) != GEVP_T:
            continue
        for t in range(GEVP_T):
            Gt = _G(a, t)
            if t <= t0 or Gt is None:
                out["state %d, t=%d: undefined (t <= t0 or undefined timeslice)" % (s, t)] = per_t[t] is None
            else:
                out["state %d, t=%d: row %d of solve(G(t), G(t0))" % (s, t, s)] = _row_is(per_t[t], SOLVE(Gt, _G(a, t0)), s)
    return out


contract(
    CORR + "::Corr.GEVP", name=CORR + "::Corr.GEVP[sort by eigenvalue]", props=["C16"],
    overrides={CORR + "::_GEVP_solver": _SOLVER_STUB, CORR + "::Corr.is_matrix_symmetric": _SYM_STUB, CORR + "::Corr.__getitem__": _GETITEM2_STUB},
    params=dict(self=OneOf(full=Custom(_gevp_corr("dddd")), hole=Custom(_gevp_corr("ddnd")), tail=Custom(_gevp_corr("dddn"))),
                t0=OneOf(t0=Const(0), t1=Const(1)), ts=Const(None), sort=Const("Eigenvalue"), vector_obs=Const(False), kwargs=Const(CDict())),
    requires=lambda a: {"G(t0) positive definite": wrap(SPD(VALS(a.self.attrs["content"].items[a.t0].items[0].t)))} if isinstance(a.self, SObj) else {},
    ensures=_gevp_all_post,
    axioms=axioms,
    native_call=_gevp_all_native, gen=_gevp_all_gen, crosscheck=False, refute=False,
    bounded="T = 4, N = 3, t0 in {0, 1}, three patterns of undefined timeslices (the time loop is unrolled)",
    note="T = 4, N = 3, t0 in {0, 1}, patterns of undefined timeslices enumerated; matrices abstract; the solver is a stub "
         "(its own contract is separate); symmetric input",
    not_decided=["sort='Eigenvector' (_sort_vectors: determinants of permuted vector sets)", "vector_obs=True", "the symmetrisation branch"],
)


# Corr.GEVP with sort=None: one solve, G(ts) against G(t0)

def _gevp_none_post(a, r):
    if not isinstance(a.self, SObj):
        import numpy as np
        from pyvc.native import repo_module
        co = repo_module("pyerrors.correlators")
        vals = lambda m: np.vectorize(lambda o: o.value)(m)
        ref = co._GEVP_solver(vals(a.self.content[a.ts]), vals(a.self.content[a.t0]))
        return {"G(ts) solved against G(t0)": bool(np.allclose(np.asarray(r, dtype=float), np.asarray(ref, dtype=float), rtol=1e-9, atol=1e-12))}
    return {"G(ts) solved against G(t0)": isinstance(r, AMat) and wrap(r.t == SOLVE(_G(a, a.ts), _G(a, a.t0)))}


def _gevp_none_gen(rng, case):
    g = _gevp_all_gen(rng, {"self": case["self"], "t0": case["t0"]})
    g["ts"] = int(case["ts"][1:])
    g["sort"] = None
    return g


contract(
    CORR + "::Corr.GEVP", name=CORR + "::Corr.GEVP[sort=None]", props=["C16"],
    overrides={CORR + "::_GEVP_solver": _SOLVER_STUB, CORR + "::Corr.is_matrix_symmetric": _SYM_STUB, CORR + "::Corr.__getitem__": _GETITEM2_STUB},
    params=dict(self=OneOf(full=Custom(_gevp_corr("dddd")), tail=Custom(_gevp_corr("dddn"))),
                t0=OneOf(t0=Const(0), t1=Const(1)), ts=OneOf(s1=Const(1), s2=Const(2), s3=Const(3)), sort=Const(None), vector_obs=Const(False),
                kwargs=Const(CDict())),
    requires=lambda a: {"G(t0) positive definite": wrap(SPD(VALS(a.self.attrs["content"].items[a.t0].items[0].t)))} if isinstance(a.self, SObj) else {},
    raises=[("ValueError", lambda a: (a.ts <= a.t0) or (a.self.attrs["content"].items[a.ts] is None if isinstance(a.self, SObj) else a.self.content[a.ts] is None))],
    ensures=_gevp_none_post,
    axioms=axioms,
    native_call=_gevp_all_native, gen=_gevp_none_gen, crosscheck=False, refute=False,
    bounded="T = 4, N = 3, t0 in {0, 1}, ts in {1, 2, 3}, the last timeslice defined or not",
    note="sort=None: the single generalised eigenvalue problem G(ts) v = lambda G(t0) v; ValueError iff ts <= t0 or the timeslice is undefined",
)
