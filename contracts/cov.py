"""C06: covariance() assembly, sort_corr, _covariance_element."""
from fractions import Fraction
import z3

from pyvc.specs import contract, Spec, Custom, Const, OneOf, Int, Real, Bool, Seq, RealSeq, lift_native
from pyvc.sym import (Sym, SInt, SReal, SBool, SSeq, CList, CDict, SObj, SOpaque, Len, At, And, Or, Not, Implies, Iff, Ite, ForAll, eq,
                      compare, fresh, wrap, tz, treal, UNDEF)
from pyvc.lib_mat import SMat, SObjSeq, Rows, Cols, At2

REL = "pyerrors/obs.py"


class SquareMat(Spec):
    """numpy 2-D float array with as many rows as columns"""

    def __init__(self, min_n=0, sym=True):
        self.min_n, self.sym = min_n, sym

    def make(self, name, ctx, shape=None):
        if shape is not None:
            return CList([CList([SReal(z3.Real(fresh("%s_%d_%d" % (name, i, j)))) for j in range(shape)], "ndarray", "real")
                          for i in range(shape)], "ndarray")
        m = SMat.fresh(name)
        m.cols = m.rows
        ctx.assume(compare(">=", m.rows, self.min_n))
        return m

    def shapes(self, bound):
        return list(range(max(self.min_n, 1), bound + 1))

    def native(self, value, ev):
        import numpy as np
        return np.array([[float(ev(x)) for x in r.items] for r in value.items], dtype=float).reshape(len(value.items), len(value.items))

    def random(self, rng, shape=None):
        import numpy as np
        n = shape if shape is not None else rng.randint(max(self.min_n, 1), 5)
        m = np.array([[rng.choice([0.0, 1.0, -0.5, 0.25, rng.uniform(-1, 1)]) for _ in range(n)] for _ in range(n)], dtype=float).reshape(n, n)
        return m if self.sym is False else (m + m.T) / 2


# ---------------------------------------------------------------------------------------------------
# sort_corr(corr, kl, yd): re-sorting a correlation matrix by keys is the corresponding block permutation

KEY_ORDERS = [("a",), ("a", "b"), ("b", "a"), ("a", "b", "c"), ("c", "a", "b"), ("b", "c", "a"), ("c", "b", "a")]
ALL_KEYS = ("a", "b", "c")


def _yd_make(name, ctx, shape):
    d = CDict()
    for i, k in enumerate(ALL_KEYS):
        d.d[k] = Seq("real", "list").make("%s.%s" % (name, k), ctx, None if shape is None else shape[i])
    return d


def _yd_random(rng, shape=None):
    return {k: [rng.uniform(-1, 1) for _ in range(shape[i] if shape is not None else rng.randint(0, 3))] for i, k in enumerate(ALL_KEYS)}


YD = Custom(_yd_make, shapes=lambda b: [[x, y, z] for x in range(0, 3) for y in range(0, 3) for z in range(0, 2)],
            native=lambda v, ev: {k: [float(ev(x)) for x in v.d[k].items] for k in ALL_KEYS}, random=_yd_random,
            lift=lambda v: CDict({k: lift_native(list(x)) for k, x in v.items()}))

KL = Custom(None, variants=lambda: [("".join(ks), Const(CList(list(ks), "list"))) for ks in KEY_ORDERS])


def _klist(kl):
    return list(kl.items) if isinstance(kl, CList) else list(kl)


def _offsets(order, yd):
    off, o = {}, 0
    for k in order:
        off[k] = o
        o = o + Len(At_d(yd, k))
    return off, o


def At_d(d, k):
    return d.d[k] if isinstance(d, CDict) else d[k]


def _sc_total(a):
    return _offsets(_klist(a.kl), a.yd)[1]


def _sc_post(a, r):
    kl = _klist(a.kl)
    off, tot = _offsets(kl, a.yd)
    soff, _ = _offsets(sorted(kl), a.yd)
    out = {"shape": And(Rows(r) == Rows(a.corr), Cols(r) == Cols(a.corr))}
    for k1 in kl:
        for k2 in kl:
            n1, n2 = Len(At_d(a.yd, k1)), Len(At_d(a.yd, k2))
            out["block.%s.%s" % (k1, k2)] = ForAll(0, n1, lambda p: ForAll(0, n2, lambda q: eq(
                At2(r, soff[k1] + p, soff[k2] + q), At2(a.corr, off[k1] + p, off[k2] + q))))
    return out


def _sc_outer(i, v):
    n = v.corr.rows
    return {"rows-done": ForAll(0, i, lambda a_: ForAll(0, n, lambda b: eq(
        At2(v.corr_sorted, a_, b), At2(v.corr, At(v.mapping, a_), At(v.mapping, b)))))}


def _sc_inner(j, v):
    n = v.corr.rows
    return {"rows-done": ForAll(0, v.i, lambda a_: ForAll(0, n, lambda b: eq(
        At2(v.corr_sorted, a_, b), At2(v.corr, At(v.mapping, a_), At(v.mapping, b))))),
        "row-part": ForAll(0, j, lambda b: eq(At2(v.corr_sorted, v.i, b), At2(v.corr, At(v.mapping, v.i), At(v.mapping, b))))}


def _sc_gen(rng, case):
    import numpy as np
    kl = list(case["kl"])
    yd = _yd_random(rng)
    n = sum(len(yd[k]) for k in kl)
    if n == 0:
        yd[kl[0]] = [0.5]
        n = 1
    m = np.array([[rng.uniform(-1, 1) for _ in range(n)] for _ in range(n)], dtype=float).reshape(n, n)
    return dict(corr=(m + m.T) / 2, kl=kl, yd=yd)


contract(
    REL + "::sort_corr", props=["C06"],
    params=dict(corr=SquareMat(), kl=KL, yd=YD),
    requires=lambda a: {"dimension = number of data points": Rows(a.corr) == _sc_total(a),
                        # a correlation matrix: a change that transposes the gather is not a violation
                        "symmetric": ForAll(0, Rows(a.corr), lambda p: ForAll(0, Rows(a.corr), lambda q: eq(At2(a.corr, p, q), At2(a.corr, q, p))))},
    loops={3: _sc_outer, 4: _sc_inner},
    ensures=_sc_post,
    gen=_sc_gen,
    note="key lists enumerated (1..3 distinct keys in several orders); the number of data points per key and the matrix "
         "dimension are unbounded",
)


# ---------------------------------------------------------------------------------------------------
# covariance(obs, ...): assembly of the matrix from the pairwise elements and rescaling by the full errors

import ast
from pyvc.lib import uf

CE = z3.Function("covariance_element", z3.IntSort(), z3.IntSort(), z3.RealSort())


def ce(i, j, obs=None):
    if obs is not None and not isinstance(obs, Sym):
        from pyvc.native import repo_module
        i, j = int(i), int(j)
        if not (0 <= i < len(obs) and 0 <= j < len(obs)):
            return UNDEF
        return float(repo_module("pyerrors.obs")._covariance_element(obs[i], obs[j]))
    return wrap(CE(tz(i), tz(j)))


def _ce_result(a, ctx):
    return ce(a.obs1.attrs["_index"], a.obs2.attrs["_index"])


_CE_STUB = contract(
    REL + "::_covariance_element", props=[], assumed=True, register=False, name=REL + "::_covariance_element[pure function of the pair]",
    params=dict(obs1=Custom(lambda n, c, s: None), obs2=Custom(lambda n, c, s: None)),
    result=_ce_result,
    note="inside covariance() the pairwise element is an uninterpreted function of the two positions in the list (its own contract is separate)",
)


def _cov_slice(mod, fnode):
    for i, st in enumerate(fnode.body):
        if isinstance(st, ast.Assign) and isinstance(st.targets[0], ast.Name) and st.targets[0].id == "cov":
            return fnode.body[i:]
    from pyvc.sym import CheckerError
    raise CheckerError("contract no longer binds: `cov = ...` not found in covariance")


def _obs_list(name, ctx, shape):
    n = SInt(z3.Int(fresh(name + ".len"))) if shape is None else shape
    if shape is None:
        ctx.assume(compare(">=", n, 1))
    arr = z3.Const(fresh(name + ".dvalue"), z3.ArraySort(z3.IntSort(), z3.RealSort()))
    return SObjSeq("Obs", n, {"_dvalue": (arr, "real")}, name=name)


def dv(obs, k):
    if not isinstance(obs, Sym):
        k = int(k)
        return float(obs[k].dvalue) if 0 <= k < len(obs) else UNDEF
    return wrap(z3.Select(obs.attrs["_dvalue"][0], tz(k)))


def _sqrt(x):
    if not isinstance(x, Sym):
        import math
        return math.sqrt(x) if not (x is UNDEF) and x >= 0 else UNDEF
    return wrap(uf("sqrt")(treal(x)))


def _csym(a_, b, obs=None):
    return Ite(a_ <= b, ce(a_, b, obs), ce(b, a_, obs))


def _corr_spec(a_, b, obs=None):
    return (1 / _sqrt(ce(a_, a_, obs))) * _csym(a_, b, obs) * (1 / _sqrt(ce(b, b, obs)))


def _cov_outer(i, v):
    n = v.length
    return {"filled": ForAll(0, n, lambda p: ForAll(0, n, lambda q: eq(
        At2(v.cov, p, q), Ite(And(p < i, p <= q), ce(p, q), Fraction(0)))))}


def _cov_inner(k, v):
    n = v.length
    i = v.i
    return {"filled": ForAll(0, n, lambda p: ForAll(0, n, lambda q: eq(
        At2(v.cov, p, q), Ite(Or(And(p < i, p <= q), And(p == i, i <= q, q < i + k)), ce(p, q), Fraction(0)))))}


def _cov_native(args):
    from pyvc.native import repo_module
    return repo_module("pyerrors.obs").covariance(args["obs"], visualize=args["visualize"], correlation=args["correlation"], smooth=args["smooth"])


def _cov_gen(rng, case):
    import numpy as np
    from pyvc.native import repo_module
    pe = repo_module("pyerrors.obs")
    r = np.random.default_rng(rng.randint(0, 10 ** 6))
    n = rng.choice([20, 33, 50])
    m = rng.randint(1, 4)
    base = r.normal(size=n)
    obs = []
    for k in range(m):
        if rng.random() < 0.3:
            # an observable on another ensemble only (no chain in common with the others): zero covariance, and it must not
            # disturb the entries of the pairs around it
            o = pe.Obs([r.normal(size=17) + k], ["B"])
            o.gamma_method(S=rng.choice([0.0, 1.0, 2.0]))
            obs.append(o)
            continue
        o = pe.Obs([rng.uniform(0.2, 1.0) * base + r.normal(size=n) + k], ["A"])
        if rng.random() < 0.3:
            o = o + pe.Obs([r.normal(size=17)], ["B"])
        if rng.random() < 0.3:
            o = o * rng.uniform(0.5, 2.0)
        o.gamma_method(S=rng.choice([0.0, 1.0, 2.0]))
        obs.append(o)
    return dict(obs=obs, length=m, visualize=False, correlation=(case["correlation"] == "T"), smooth=None)


def _cov_post(a, r):
    n = a.length
    O = None if isinstance(a.obs, Sym) else a.obs
    _cs = lambda p, q: _corr_spec(p, q, O)
    out = {"shape": And(Rows(r) == n, Cols(r) == n)}
    if a.correlation is True:
        out["entries"] = ForAll(0, n, lambda p: ForAll(0, n, lambda q: eq(At2(r, p, q), _cs(p, q))))
        out["unit-diagonal"] = ForAll(0, n, lambda p: eq(At2(r, p, p), 1))
    else:
        out["entries"] = ForAll(0, n, lambda p: ForAll(0, n, lambda q: eq(At2(r, p, q), dv(a.obs, p) * _cs(p, q) * dv(a.obs, q))))
        out["lem.normalised-diagonal"] = ForAll(0, n, lambda p: eq(_cs(p, p), 1))
        out["diagonal = squared errors"] = ForAll(0, n, lambda p: eq(At2(r, p, p), dv(a.obs, p) * dv(a.obs, p)))
    out["symmetric"] = ForAll(0, n, lambda p: ForAll(0, n, lambda q: eq(At2(r, p, q), At2(r, q, p))))
    return out


contract(
    REL + "::covariance", name=REL + "::covariance[assembly and rescaling]", props=["C06"],
    slice=_cov_slice, overrides={REL + "::_covariance_element": _CE_STUB},
    params=dict(obs=Custom(_obs_list), length=Int(lo=1), visualize=Const(False), correlation=Bool(), smooth=Const(None)),
    requires=lambda a: {"length": a.length == Len(a.obs),
                        # analysed observables with fluctuations: cov(a, a) > 0 (otherwise the normalisation divides by zero)
                        "positive-diagonal": ForAll(0, a.length, lambda p: ce(p, p, None if isinstance(a.obs, Sym) else a.obs) > 0)},
    loops={0: _cov_outer, 1: _cov_inner},
    ensures=_cov_post,
    abstract_nl=False,
    native_call=_cov_native, gen=_cov_gen, crosscheck=False, refute=False,
    slice_note="from `cov = np.zeros((length, length))` to the end of covariance(); live-in variables obs, length, visualize, "
               "correlation, smooth; the rank warning before it is outside this contract",
    not_decided=["smooth = E (eigenvalue smoothing needs the spectral theorem), visualize = True"],
)


# ---------------------------------------------------------------------------------------------------
# _covariance_element(obs1, obs2): window-0 correlation on the common configurations of every common replica

from contracts.obsmodel import Layout, mk_obs, native_obs_from, chain, names_of
from contracts.obs_kernel import member, in_all
from pyvc.specs import REGISTRY
from pyvc.sym import strictly_increasing, is_range
from pyvc.lib import sum_of
from pyvc import gen as G

CE_LAYOUTS = {
    # label: (chains of obs1, chains of obs2)
    "one-chain-rr": ([("A|r1", "range")], [("A|r1", "range")]),
    "one-chain-rl": ([("A|r1", "range")], [("A|r1", "list")]),
    "one-chain-ll": ([("A|r1", "list")], [("A|r1", "list")]),
    "two-replica": ([("A|r1", "list"), ("A|r2", "range")], [("A|r1", "range"), ("A|r2", "list")]),
    "partial-replica": ([("A|r1", "range"), ("A|r2", "range")], [("A|r2", "list")]),
    "disjoint": ([("A|r1", "range")], [("B|r1", "range")]),
    "other-ensemble-too": ([("A|r1", "range"), ("B|r1", "list")], [("A|r1", "list")]),
}

_CAPTURE = []


def _ens(cn):
    return cn.split("|")[0]


def _mk_ce_obs(name, chains, ctx, shape, analysed=True):
    o = mk_obs(name, Layout(chains), ctx, shape, min_len=1)
    ens = sorted(set(_ens(cn) for cn, _ in chains))
    o.attrs["mc_names"] = CList(ens, "list")
    o.attrs["e_names"] = CList(ens, "list")
    o.attrs["cov_names"] = CList([], "list")
    o.attrs["e_content"] = CDict({e: CList(sorted(cn for cn, _ in chains if _ens(cn) == e), "list") for e in ens})
    if analysed:
        o.attrs["e_dvalue"] = CDict({e: SReal(z3.Real(fresh("%s.e_dvalue.%s" % (name, e)))) for e in ens})
    o.frozen = True
    return o


class _CEObs(Spec):
    def __init__(self, which):
        self.which = which

    def variants(self):
        out = []
        for lab, pair in CE_LAYOUTS.items():
            out.append((lab, Custom((lambda ch: lambda n, c, s: _mk_ce_obs(n, ch, c, s))(pair[self.which]))))
        if self.which == 0:
            out.append(("not-analysed", Custom(lambda n, c, s: _mk_ce_obs(n, CE_LAYOUTS["one-chain-rr"][0], c, s, analysed=False))))
        else:
            out.append(("not-analysed", Custom(lambda n, c, s: _mk_ce_obs(n, CE_LAYOUTS["one-chain-rr"][1], c, s))))
        return out


def _wrap_callee(qual, record):
    """the verified contract of a callee, used at the call sites of this function with the returned value recorded for the
    postcondition (same pre- and postcondition: nothing is assumed beyond what that contract proves)"""
    orig = REGISTRY[qual]

    def result(a, ctx):
        r = orig.result(a, ctx) if orig.result.__code__.co_argcount == 2 else orig.result(a)
        if isinstance(r, Spec):
            r = r.make("res", ctx, None)
        record(a, r)
        return r
    return contract(qual, props=[], register=False, name=qual + "[verified contract, result recorded]", assumed=True,
                    params=orig.params, requires=orig.requires, ensures=orig.ensures, raises=orig.raises, result=result,
                    note="pre / postcondition of the contract proved for this function (C06 kernel); only the returned value is recorded")


def _ii_result(a, ctx):
    from pyvc.sym import tb, sym_range, range_axioms
    from contracts.obs_kernel import all_pyeq
    items = a.idl.items
    same = all_pyeq(a.idl)
    if same is True or (same is not False and ctx.branch(tb(same))):
        return items[0]
    # a range or a list: nothing in _covariance_element may depend on which (inspecting the type is a checker error)
    u = SSeq.fresh("inter", "idl", "int")
    ctx.assume(u.length >= 0)
    return u


def _make_ii_stub():
    orig = REGISTRY[REL + "::_intersection_idx"]

    def result(a, ctx):
        r = _ii_result(a, ctx)
        _CAPTURE.append((a.idl.items[0], a.idl.items[1], r))
        return r
    return contract(REL + "::_intersection_idx", props=[], register=False, name=REL + "::_intersection_idx[verified contract, result recorded]",
                    assumed=True, params=orig.params, requires=orig.requires, ensures=orig.ensures, raises=orig.raises, result=result,
                    note="pre / postcondition of the contract proved for _intersection_idx; the returned list is recorded so that the "
                         "postcondition of _covariance_element can name it")


_II_STUB = _make_ii_stub()
_RD_CAPTURE = []
_AR, _AI = z3.ArraySort(z3.IntSort(), z3.RealSort()), z3.ArraySort(z3.IntSort(), z3.IntSort())
GATHER = z3.Function("GATHER", _AR, _AI, z3.IntSort(), _AI, z3.IntSort(), _AR)


def _make_rd_stub():
    """_reduce_deltas at the call sites of _covariance_element: pre / postcondition of its proved contract; the returned array is
    named as a function of the arguments (the postcondition determines every element, so equal arguments give equal results)"""
    orig = REGISTRY[REL + "::_reduce_deltas"]

    def arr_of(x):
        if isinstance(x, SSeq):
            return x.arr
        if getattr(x, "arr", None) is not None:
            return x.arr
        return None

    def result(a, ctx):
        d, io, inew = a.deltas, a.idx_old, a.idx_new
        ao, an = arr_of(io), arr_of(inew)
        if isinstance(d, SSeq) and ao is not None and an is not None:
            r = SSeq(Len(inew), GATHER(d.arr, ao, tz(Len(io)), an, tz(Len(inew))), "ndarray", "real")
        else:
            r = Seq("real", "ndarray").make("res", ctx, None)
        _RD_CAPTURE.append((d, io, inew, r))
        return r
    return contract(REL + "::_reduce_deltas", props=[], register=False, name=REL + "::_reduce_deltas[verified contract, result named]",
                    assumed=True, params=orig.params, requires=orig.requires, ensures=orig.ensures, raises=orig.raises, result=result,
                    note="pre / postcondition of the contract proved for _reduce_deltas; the result is a function of the arguments "
                         "(its postcondition determines every element)")


_RD_STUB = _make_rd_stub()


def _common_chains(o1, o2):
    n2 = names_of(o2)
    return [cn for cn in names_of(o1) if cn in n2]


def _native_inter(l1, l2):
    s2 = set(l2)
    return [c for c in l1 if c in s2]


def _gather_native(deltas, idl, I):
    pos = {c: k for k, c in enumerate(idl)}
    return [float(deltas[pos[c]]) for c in I]


def _ce_parts(a):
    """per common chain: (I, G1, G2, hypotheses, clauses about I).  Symbolic: I is the list returned by _intersection_idx for this
    pair of configuration lists, G1 / G2 are arrays constrained to be the gathers of the fluctuations on I."""
    o1, o2 = a.obs1, a.obs2
    parts = []
    for cn in _common_chains(o1, o2):
        i1, i2 = chain(o1, cn, "idl"), chain(o2, cn, "idl")
        d1, d2 = chain(o1, cn, "deltas"), chain(o2, cn, "deltas")
        if isinstance(o1, SObj):
            I = None
            for x, y, r in _CAPTURE:
                if _same_arr(x, i1) and _same_arr(y, i2):
                    I = r
            if I is None:
                continue
            n = Len(I)
            # the arrays _reduce_deltas returns for (fluctuations, own configurations, I): their meaning is the clause `gather` below
            g1 = SSeq(n, GATHER(d1.arr, _arr_of(i1), tz(Len(i1)), _arr_of(I), tz(n)), "ndarray", "real")
            g2 = SSeq(n, GATHER(d2.arr, _arr_of(i2), tz(Len(i2)), _arr_of(I), tz(n)), "ndarray", "real")
            hyp = True
        else:
            I = _native_inter(list(i1), list(i2))
            g1, g2 = _gather_native(d1, list(i1), I), _gather_native(d2, list(i2), I)
            hyp = True
        parts.append((cn, I, g1, g2, hyp, i1, i2))
    return parts


def _arr_of(x):
    return x.arr


def _same_arr(x, y):
    return x is y or (isinstance(x, SSeq) and isinstance(y, SSeq) and x.arr.eq(y.arr) and tz(x.length).eq(tz(y.length)))


def _div(x, y):
    if not isinstance(x, Sym) and not isinstance(y, Sym):
        return UNDEF if y == 0 else float(x) / float(y)
    return x / y


def _dot(x, y, n):
    return sum_of(n, lambda k: At(x, k) * At(y, k))


def _ce_post(a, r):
    o1, o2 = a.obs1, a.obs2
    common = _common_chains(o1, o2)
    if not common:
        return {"no common chain: zero": eq(r, 0)}
    parts = _ce_parts(a)
    out = {}
    if len(parts) != len(common):
        out["intersection computed for every common replica"] = False
        return out
    hyps = []
    for cn, I, g1, g2, hyp, i1, i2 in parts:
        out["common-configurations.%s" % cn] = And(
            strictly_increasing(I),
            ForAll(0, Len(I), lambda k: And(member(At(I, k), i1), member(At(I, k), i2))),
            ForAll(0, Len(i1), lambda j: Implies(member(At(i1, j), i2), member(At(i1, j), I))))
        hyps.append(hyp)
    for cn, I, g1, g2, hyp, i1, i2 in parts:
        d1, d2 = chain(o1, cn, "deltas"), chain(o2, cn, "deltas")
        out["gather.%s" % cn] = And(
            ForAll(0, Len(I), lambda k: ForAll(0, Len(i1), lambda j: Implies(At(i1, j) == At(I, k), eq(At(g1, k), At(d1, j))))),
            ForAll(0, Len(I), lambda k: ForAll(0, Len(i2), lambda j: Implies(At(i2, j) == At(I, k), eq(At(g2, k), At(d2, j))))))
    s12 = 0
    norm = 0
    for cn, I, g1, g2, hyp, i1, i2 in parts:
        n = Len(I)
        # a replica without common configurations contributes nothing (empty sums)
        s12 = s12 + Ite(n == 0, Fraction(0), _dot(g1, g2, n))
        norm = norm + Ite(n == 0, Fraction(0), _sqrt(_dot(g1, g1, n) * _dot(g2, g2, n)))
    out["pearson-correlation"] = Ite(eq(s12, 0), eq(r, 0), eq(r, _div(s12, norm)))
    return out


def _has_edv(o):
    return ("e_dvalue" in o.attrs) if isinstance(o, SObj) else hasattr(o, "e_dvalue")


def _ce_pre_hook(interp, mod, fnode, args):
    del _CAPTURE[:]
    del _RD_CAPTURE[:]


def _ce_gen(rng, case):
    lab = case["obs1"]
    if lab == "not-analysed":
        ch1, ch2 = CE_LAYOUTS["one-chain-rr"]
    else:
        ch1, ch2 = CE_LAYOUTS[lab]
    base = {}
    obs = []
    for chs in (ch1, ch2):
        chains = {}
        for cn, kind in chs:
            if cn not in base:
                base[cn] = G.idl(rng, "range", n=rng.randint(8, 14))
            idl = G.sub_idl(rng, base[cn], kind) if rng.random() < 0.8 else G.idl(rng, kind, rng.randint(5, 9))
            if len(idl) < 5:
                idl = list(base[cn]) if kind == "list" else base[cn]
            if kind == "list":
                idl = list(idl)
                if len(set(idl[j + 1] - idl[j] for j in range(len(idl) - 1))) == 1:
                    idl[-1] += 1
            chains[cn] = (idl, list(G.reals(rng, len(idl))))
        obs.append(native_obs_from({"chains": chains}))
    try:
        if lab != "not-analysed":
            obs[0].gamma_method()
        obs[1].gamma_method()
    except ValueError:
        return None          # replicas without a common spacing cannot be analysed: not an input of this function
    return dict(obs1=obs[0], obs2=obs[1])


contract(
    REL + "::_covariance_element", props=["C06"],
    params=dict(obs1=_CEObs(0), obs2=_CEObs(1)),
    cases_filter=lambda case: case["obs1"] == case["obs2"],
    overrides={REL + "::_intersection_idx": _II_STUB, REL + "::_reduce_deltas": _RD_STUB},
    pre_execute=_ce_pre_hook,
    raises=[("Exception", lambda a: And(len(_common_chains(a.obs1, a.obs2)) > 0, Not(_has_edv(a.obs1) and _has_edv(a.obs2))))],
    ensures=_ce_post,
    sum_axioms="ext", abstract_real=True,
    gen=_ce_gen, crosscheck=False, refute=False,
    note="chain layouts enumerated (one chain, two replicas, a replica missing in one operand, disjoint ensembles, an extra ensemble); "
         "configuration lists, lengths and fluctuations unbounded. e_content / mc_names / cov_names are taken as data consistent with "
         "the names (they are properties computed from the names).",
    not_decided=["covariance inputs (the J1 Sigma J2^T term)", "|correlation| <= 1 (Cauchy-Schwarz) and positive semi-definiteness are "
                 "consequences of the Pearson form proved here, not separate obligations"],
)
