"""C04: construction of observables (pyerrors/obs.py::Obs.__init__): what is accepted is well-formed, what is
malformed is rejected."""
import ast
import itertools
from fractions import Fraction
import z3

from pyvc.specs import contract, Spec, Custom, Const, Seq, IdlRange, IdlList, OneOf, lift_native
from pyvc.sym import (Sym, SInt, SReal, SBool, SSeq, CList, CDict, SObj, SRange, Len, At, And, Or, Not, Implies, Iff, Ite, ForAll, Exists,
                      eq, compare, fresh, wrap, tz, strictly_increasing, is_range, UNDEF)
from pyvc import gen as G
from contracts.obsmodel import A, D, chain, names_of, seq_sum, value_of

REL = "pyerrors/obs.py"


class Fixed(Spec):
    """a concrete value (same natively and in the engine)"""

    def __init__(self, native_value):
        self.v = native_value

    def make(self, name, ctx, shape=None):
        return lift_native(self.v)

    def native(self, value, ev):
        return self.v

    def random(self, rng, shape=None):
        return self.v


class ListSpec(Spec):
    """list with a fixed number of elements, each with its own spec"""

    def __init__(self, elems):
        self.elems = elems

    def make(self, name, ctx, shape=None):
        shp = shape if shape is not None else [None] * len(self.elems)
        return CList([e.make("%s%d" % (name, i), ctx, shp[i]) for i, e in enumerate(self.elems)], "list")

    def shapes(self, bound):
        return [list(c) for c in itertools.product(*[e.shapes(bound) for e in self.elems])]

    def native(self, value, ev):
        return [e.native(v, ev) for e, v in zip(self.elems, value.items)]

    def random(self, rng, shape=None):
        shp = shape if shape is not None else [None] * len(self.elems)
        return [e.random(rng, shp[i]) for i, e in enumerate(self.elems)]


class RawIntList(Spec):
    """list of ints with no ordering assumption (a malformed or well-formed configuration list)"""

    def make(self, name, ctx, shape=None):
        if shape is not None:
            return CList([SInt(z3.Int(fresh("%s_%d" % (name, i)))) for i in range(shape)], "list", "int")
        s = SSeq.fresh(name, "list", "int")
        ctx.assume(compare(">=", s.length, 0))
        return s

    def shapes(self, bound):
        return [0, 1, 2, 4, 5, 6]

    def native(self, value, ev):
        return [int(ev(x)) for x in value.items]

    def random(self, rng, shape=None):
        n = shape if shape is not None else rng.randint(3, 8)
        r = rng.random()
        base = G.idl(rng, "list", n)
        if r < 0.3 and n >= 2:
            i = rng.randrange(n - 1)
            base[i + 1] = base[i]                     # duplicate
        elif r < 0.6 and n >= 2:
            i = rng.randrange(n - 1)
            base[i], base[i + 1] = base[i + 1], base[i]   # unsorted
        elif r < 0.75:
            base = list(range(base[0], base[0] + 2 * n, 2))   # equally spaced
        elif r < 0.9:
            base = list(range(base[0] + 3 * n, base[0], -3))  # equally spaced but descending: must be rejected
        return base


class SamplesList(ListSpec):
    def __init__(self, k):
        ListSpec.__init__(self, [Seq("real", "ndarray", 0) for _ in range(k)])

    def shapes(self, bound):
        return [list(c) for c in itertools.product(*[[3, 5, 6] for _ in self.elems])]

    def random(self, rng, shape=None):
        shp = shape if shape is not None else [rng.choice([3, 4, 5, 6, 7]) for _ in self.elems]
        return [G.reals(rng, n) + rng.uniform(-1, 1) for n in shp]


NAMES = {
    "one": ["A|r1"], "two-unsorted": ["A|r2", "A|r1"], "dup": ["A|r1", "A|r1"], "multi-ens": ["A|r1", "B|r1"],
    "nonstr1": [7], "nonstr2": ["A|r1", 2], "bare+rep": ["A", "A|r2"],
}


class NamesSpec(Spec):
    def variants(self):
        return [(k, Fixed(v)) for k, v in NAMES.items()]


class DescRange(Spec):
    """a range with step -1 (descending configuration numbers: a malformed request)"""

    def make(self, name, ctx, shape=None):
        from pyvc.sym import SRange
        start = SInt(z3.Int(fresh(name + ".start")))
        if shape is not None:
            return SRange(start, start - shape, -1, clen=shape)
        n = SInt(z3.Int(fresh(name + ".n")))
        ctx.assume(compare(">=", n, 0))
        return SRange(start, start - n, -1, clen=n)

    def shapes(self, bound):
        return [2, 5, 6]

    def native(self, value, ev):
        return range(int(ev(value.start)), int(ev(value.stop)), -1)

    def random(self, rng, shape=None):
        n = shape if shape is not None else rng.randint(4, 7)
        st = rng.randint(10, 20)
        return range(st, st - n, -1)


class SamplesSpec(Spec):
    def variants(self):
        return [("1", SamplesList(1)), ("2", SamplesList(2))]


IDL_ELEM = {"range": lambda: IdlRange(0), "list": lambda: RawIntList(), "str": lambda: Fixed("bad"), "range-desc": lambda: DescRange()}


class IdlArg(Spec):
    def variants(self):
        out = [("none", Fixed(None))]
        for k in IDL_ELEM:
            out.append(("[%s]" % k, ListSpec([IDL_ELEM[k]()])))
        for k1, k2 in (("range", "list"), ("list", "range"), ("list", "str")):
            out.append(("[%s;%s]" % (k1, k2), ListSpec([IDL_ELEM[k1](), IDL_ELEM[k2]()])))
        return out


def _cases_ok(case):
    if case.get("kwargs") == "means":
        # the internal path is exercised on well-formed name lists only (its callers pass those)
        return case["names"] in ("one", "two-unsorted") and int(case["samples"]) == len(NAMES[case["names"]]) and \
            case["idl"] in ("[range]", "[list]", "[range;list]", "[list;range]") and \
            (case["idl"].count(";") + 1) == len(NAMES[case["names"]])
    nn = len(NAMES[case["names"]])
    ns = int(case["samples"])
    idl = case["idl"]
    ni = 0 if idl == "none" else idl.count(";") + 1
    # keep the product small: matching counts, plus a few deliberate count mismatches
    if nn == ns and (ni == 0 or ni == nn):
        return True
    if case["names"] == "one" and ns == 2 and ni == 0:
        return True           # len(samples) != len(names)
    if case["names"] == "two-unsorted" and ns == 2 and ni == 1 and idl == "[range]":
        return True           # len(idl) != len(names)
    return False


# ---- the property's rejection conditions ---------------------------------------------------------------------

def _means(a):
    """the list passed as means= (None on the validated path)"""
    kw = getattr(a, "kwargs", None) if "kwargs" in a.__dict__ else None
    if kw is None:
        return None
    d = kw.d if isinstance(kw, CDict) else kw
    m = d.get("means")
    if m is None:
        return None
    return list(m.items) if isinstance(m, CList) else list(m)


def _is_str_list(names):
    return all(isinstance(n, str) for n in names)


def _ensemble(n):
    return n.split("|")[0] if isinstance(n, str) else n


def _idl_items(idl):
    if idl is None:
        return None
    return list(idl.items) if isinstance(idl, CList) else list(idl)


def _unsorted_or_dup(x):
    """list x is not strictly increasing"""
    if isinstance(x, str):
        return False
    if is_range(x):
        # a range is increasing iff its step is positive (a range with fewer than two numbers is trivially sorted)
        st = x.step
        return And(st < 0, Len(x) >= 2) if not isinstance(st, int) or st < 0 else False
    return Exists(0, Len(x) - 1, lambda i: At(x, i + 1) <= At(x, i))


def _value_error(a):
    names = _plain(a.names)
    samples = _idl_items(a.samples)
    idl = _idl_items(a.idl)
    if _means(a) is not None:
        # internal construction path (means=...): no validation of names / lengths; only the idl normalisation rejects
        return Or(*[_unsorted_or_dup(x) for x in idl]) if idl is not None else False
    conds = [len(samples) != len(names)]
    if idl is not None:
        conds.append(len(idl) != len(names))
    conds.append(len(set(map(repr, names))) != len(names))
    if _is_str_list(names):
        conds.append(len(set(_ensemble(n) for n in names)) > 1)
    conds.append(Or(*[Len(s) < 5 for s in samples]))
    if idl is not None:
        conds.append(Or(*[_unsorted_or_dup(x) for x in idl]))
        if len(idl) == len(names) == len(samples):
            conds.append(Or(*[Len(s) != Len(x) for s, x in _paired(names, samples, idl) if not isinstance(x, str)]))
    return Or(*conds)


def _paired(names, samples, idl):
    # samples and configuration lists are paired with the names positionally (the code zips and sorts them)
    return list(zip(samples, idl))


def _type_error(a):
    names = _plain(a.names)
    idl = _idl_items(a.idl)
    conds = [not _is_str_list(names)] if _means(a) is None else []
    if idl is not None:
        conds.append(any(isinstance(x, str) for x in idl))
    return Or(*conds)


def _plain(names):
    return list(names.items) if isinstance(names, CList) else list(names)


def _init_post(a, r):
    o = r if r is not None else a.post.self
    names = _plain(a.names)
    samples = _idl_items(a.samples)
    idl = _idl_items(a.idl)
    out = {"names-sorted": names_of(o) == sorted(names)}
    order = sorted(range(len(names)), key=lambda i: names[i])
    total = 0
    vsum = 0
    for i in order:
        cn, s = names[i], samples[i]
        given = idl[i] if idl is not None else None
        oi = chain(o, cn, "idl")
        n = Len(s)
        if _means(a) is not None:
            # shape is taken from the configuration list; nothing checks it against the number of samples on this path
            out["len.%s" % cn] = And(chain(o, cn, "shape") == Len(oi), Len(chain(o, cn, "deltas")) == n)
        else:
            out["len.%s" % cn] = And(Len(oi) == n, chain(o, cn, "shape") == n, Len(chain(o, cn, "deltas")) == n)
        if given is None:
            out["idl.%s" % cn] = And(is_range(oi), ForAll(0, n, lambda k, oi=oi: At(oi, k) == k + 1))
        else:
            out["idl.%s" % cn] = And(Len(oi) == Len(given), ForAll(0, Len(given), lambda k, oi=oi, given=given: At(oi, k) == At(given, k)))
            if is_range(given):
                out["kind.%s" % cn] = is_range(oi)
            else:
                ng = Len(given)
                spaced = And(ng >= 2, ForAll(0, ng - 1, lambda k, given=given: At(given, k + 1) - At(given, k) == At(given, 1) - At(given, 0)))
                out["kind.%s" % cn] = Iff(is_range(oi), spaced) if not isinstance(is_range(oi), bool) else (spaced if is_range(oi) else Not(spaced))
        means = _means(a)
        if means is not None:
            mean = means[i]
            out["r_value.%s" % cn] = eq(chain(o, cn, "r_values"), mean)
            out["deltas.%s" % cn] = ForAll(0, n, lambda k, cn=cn, s=s: eq(At(chain(o, cn, "deltas"), k), At(s, k)))
        else:
            mean = seq_sum(s) / n
            out["r_value.%s" % cn] = eq(chain(o, cn, "r_values"), mean)
            out["deltas.%s" % cn] = ForAll(0, n, lambda k, cn=cn, s=s, mean=mean: eq(At(chain(o, cn, "deltas"), k), At(s, k) - mean))
        total = total + (Len(oi) if means is not None else n)
        vsum = vsum + n * mean
    out["N"] = A(o, "N") == total
    out["value"] = eq(value_of(o), vsum / total) if _means(a) is None else eq(value_of(o), 0)
    out["flags"] = And(A(o, "reweighted") is False or Not(A(o, "reweighted")) if isinstance(A(o, "reweighted"), Sym) else A(o, "reweighted") is False,
                       A(o, "tag") is None)
    return out


def _native_init(args):
    from pyvc.native import repo_module
    pe = repo_module("pyerrors.obs")
    kw = dict(args.get("kwargs") or {})
    if "means" in kw:
        kw["means"] = kw["means"][:len(args["names"])]
    return pe.Obs(args["samples"], args["names"], idl=args["idl"], **kw)


def _is_range_from_list(node):
    """`self.idl[name] = range(idx[0], idx[-1] + dc[0], dc[0])`"""
    return isinstance(node, ast.Assign) and isinstance(node.value, ast.Call) and isinstance(node.value.func, ast.Name) \
        and node.value.func.id == "range" and len(node.value.args) == 3 and isinstance(node.targets[0], ast.Subscript)


def _range_ghost(v):
    r = D(A(v.self, "idl"), v.name)
    idx = v.idx
    n = Ite(Len(r) < Len(idx), Len(r), Len(idx))
    return [
        # an equally spaced list and the range built from its first, last and first difference enumerate the same numbers
        ("induct", "range-equals-list", 0, n, lambda i: At(r, i) == At(idx, i)),
        # the checks on np.diff only give adjacent order; every entry is below the last one by induction
        ("induct_down", "le-last", 0, Len(idx), lambda i: At(idx, i) <= At(idx, Len(idx) - 1)),
        ("assert", "range-same-length", Len(r) == Len(idx)),
    ]


def _init_result(a, ctx):
    """at a call site: the freshly constructed object (attributes materialised, facts come from the postcondition)"""
    from pyvc.sym import sym_range, range_axioms, tb
    o = a.self
    names = _plain(a.names)
    samples = _idl_items(a.samples)
    idl = _idl_items(a.idl)
    if not all(isinstance(n, str) for n in names) or len(set(names)) != len(names):
        from pyvc.sym import CheckerError
        raise CheckerError("Obs(...) call site with names the contract cannot materialise: %r" % (names,))
    attrs = {"names": CList(sorted(names), "list"), "shape": CDict(), "r_values": CDict(), "deltas": CDict(), "idl": CDict(),
             "_covobs": CDict(), "reweighted": False, "tag": None, "_dvalue": Fraction(0), "ddvalue": Fraction(0)}
    total = 0
    for i in sorted(range(len(names)), key=lambda i: names[i]):
        cn, s = names[i], samples[i]
        n = Len(s)
        given = idl[i] if idl is not None else None
        if given is None:
            attrs["idl"].d[cn] = SRange(1, n + 1 if isinstance(n, int) else n + 1, 1, clen=n)
        elif is_range(given):
            attrs["idl"].d[cn] = given
        else:
            ng = Len(given)
            spaced = And(ng >= 2, ForAll(0, ng - 1, lambda k, given=given: At(given, k + 1) - At(given, k) == At(given, 1) - At(given, 0)))
            if isinstance(spaced, bool):
                isr = spaced
            else:
                isr = ctx.branch(tb(spaced))
            if isr:
                r = sym_range("newidl", At(given, 0), At(given, 1) - At(given, 0), ng)
                for ax in range_axioms(r):
                    ctx.assume(wrap(ax))
                attrs["idl"].d[cn] = r
            else:
                attrs["idl"].d[cn] = given if isinstance(given, (SSeq, CList)) else given
        means = _means(a)
        if means is not None:
            attrs["shape"].d[cn] = Len(attrs["idl"].d[cn])
            attrs["deltas"].d[cn] = s          # the very object that was passed
            attrs["r_values"].d[cn] = means[i]
            total = total + Len(attrs["idl"].d[cn])
            continue
        attrs["shape"].d[cn] = n
        d = SSeq.fresh("newdeltas." + cn, "ndarray", "real")
        d.length = n
        attrs["deltas"].d[cn] = d
        attrs["r_values"].d[cn] = SReal(z3.Real(fresh("newr." + cn)))
        total = total + n
    attrs["N"] = total
    attrs["_value"] = SReal(z3.Real(fresh("newvalue"))) if _means(a) is None else 0
    o.attrs.update(attrs)
    return o


contract(
    REL + "::Obs.__init__", props=["C04"],
    params=dict(self=Custom(lambda n, c, s: SObj("Obs", {}), native=lambda v, ev: None, random=lambda rng, s: None),
                samples=SamplesSpec(), names=NamesSpec(), idl=IdlArg(),
                kwargs=OneOf(validated=Custom(lambda n, c, s: CDict(), native=lambda v, ev: {}),
                             means=Custom(lambda n, c, s: CDict({"means": CList([SReal(z3.Real(fresh("mean0"))), SReal(z3.Real(fresh("mean1")))], "list")}),
                                          native=lambda v, ev: {"means": [float(ev(x)) for x in v.d["means"].items]}))),
    cases_filter=_cases_ok,
    writes=("self",),
    raises=[("ValueError", _value_error), ("TypeError", _type_error)],
    ensures=_init_post,
    result=_init_result,
    ghost_on=[(_is_range_from_list, _range_ghost)],
    native_call=_native_init,
    crosscheck=False,
    gen=lambda rng, case: _init_gen(rng, case),
    note="validated construction path (no means=): every rejection listed in C04 and the well-formedness of what is accepted; "
         "chain names are enumerated (well-formed and malformed lists), everything else is symbolic",
    not_decided=["ranges with a step < -1 given as idl (descending ranges are represented by step -1)",
                 "np.ndarray given as idl element (handled like a list by the code; not modelled)"],
)


def ns_len(rng):
    return rng.randint(5, 7)


def _init_gen(rng, case):
    names = NAMES[case["names"]]
    ns = int(case["samples"])
    idlv = case["idl"]
    if idlv == "none":
        samples = SamplesList(ns).random(rng)
        return dict(self=None, samples=samples, names=names, idl=None, kwargs={})
    kinds = idlv.strip("[]").split(";")
    idl = []
    for k in kinds:
        idl.append(IDL_ELEM[k]().random(rng) if k != "range" else G.idl(rng, "range", rng.randint(4, 7)))
    if kinds == ["range-desc"] and rng.random() < 0.7:
        idl = [range(idl[0].start, idl[0].start - ns_len(rng), -1)]
    samples = []
    for j in range(ns):
        ref = idl[j] if j < len(idl) and not isinstance(idl[j], str) else [0] * 5
        n = len(ref) if rng.random() < 0.85 else len(ref) + 1
        samples.append(G.reals(rng, n))
    kw = {"means": [rng.uniform(-1, 1), rng.uniform(-1, 1)]} if case.get("kwargs") == "means" else {}
    return dict(self=None, samples=samples, names=names, idl=idl, kwargs=kw)


# ---------------------------------------------------------------------------------------------------
# Covobs._set_cov(cov): a covariance given as a number, a list of variances or a matrix is rejected unless it is a symmetric
# positive semi-definite square matrix

COV = "pyerrors/covobs.py"


def _cov_variants():
    r = lambda n: SReal(z3.Real(fresh(n)))
    return OneOf(
        scalar=Custom(lambda n, c, s: r("cov"), native=lambda v, ev: float(ev(v))),
        vector=Custom(lambda n, c, s: CList([r("var0"), r("var1")], "list"), native=lambda v, ev: [float(ev(x)) for x in v.items]),
        matrix=Custom(lambda n, c, s: CList([CList([r("c00"), r("c01")], "list"), CList([r("c10"), r("c11")], "list")], "list"),
                      native=lambda v, ev: [[float(ev(x)) for x in row.items] for row in v.items]))


def _sc_rejected(a):
    c = a.cov
    if isinstance(c, (SReal, float, int, Fraction)):
        return c < 0
    rows = c.items if isinstance(c, CList) else list(c)
    if not isinstance(rows[0], (CList, list)):
        return Or(*[x < 0 for x in rows])
    m = [list(r_.items) if isinstance(r_, CList) else list(r_) for r_ in rows]
    a_, b1, b2, d_ = m[0][0], m[0][1], m[1][0], m[1][1]
    # 2 x 2: symmetric and both leading conditions of positive semi-definiteness
    return Or(Not(eq(b1, b2)), a_ < 0, d_ < 0, a_ * d_ - b2 * b2 < 0)


def _sc_gen(rng, case):
    v = lambda: rng.choice([0.5, 1.0, -0.2, 0.0, 2.0, -1.0])
    if case["cov"] == "scalar":
        return dict(self=None, cov=v())
    if case["cov"] == "vector":
        return dict(self=None, cov=[v(), v()])
    b = rng.choice([0.0, 0.3, 1.5])
    return dict(self=None, cov=[[v(), b], [b if rng.random() < 0.8 else b + 0.1, v()]])


def _sc_native(args):
    import numpy as np
    from pyvc.native import repo_module
    co = repo_module("pyerrors.covobs")
    obj = co.Covobs.__new__(co.Covobs)
    co.Covobs._set_cov(obj, args["cov"])
    return obj


contract(
    COV + "::Covobs._set_cov", props=["C04"],
    params=dict(self=Custom(lambda n, c, s: SObj("Covobs", {}), native=lambda v, ev: None), cov=_cov_variants()),
    writes=("self",),
    raises=[("Exception", _sc_rejected)],
    ensures=lambda a, r: {"dimension": True},
    native_call=_sc_native, gen=_sc_gen,
    abstract_nl=False, crosscheck=False, refute=False,
    note="covariance given as a number, as two variances, or as a 2 x 2 matrix (entries symbolic); eigenvalues of the 2 x 2 matrix in "
         "closed form with the real square root",
)
