"""The Obs object model shared by the contracts of obs.py: symbolic observables over a *concrete* chain layout.

A layout fixes the chain names (and with them the grouping into ensembles and replicas) and the kind of each
configuration list (range / list); lengths, configuration numbers, fluctuations, replica means and the central
value stay symbolic.  The properties quantify over 1..3 ensembles x 1..3 replicas: layouts are enumerated, everything
else is unbounded.
"""
from fractions import Fraction
import z3

from pyvc.specs import Spec, IdlRange, IdlList, Seq, lift_native
from pyvc.sym import (Sym, SInt, SReal, SBool, SSeq, CList, CDict, SObj, SRange, Len, At, And, Or, Not, Implies, Iff, Ite, ForAll,
                      eq, compare, fresh, wrap, tz, strictly_increasing, UNDEF)
from pyvc.lib import SUM
from pyvc import gen as G

MIN_CHAIN = 5


class Layout:
    def __init__(self, chains, covobs=()):
        """chains: [(name, 'range'|'list')], sorted by name"""
        self.chains = sorted(chains)
        self.covobs = sorted(covobs)

    @property
    def names(self):
        return [n for n, _ in self.chains]

    def label(self):
        return "+".join("%s:%s" % (n, k[0]) for n, k in self.chains) + ("" if not self.covobs else "+cov:" + ",".join(self.covobs))


def mk_obs(name, layout, ctx, shape=None, min_len=MIN_CHAIN, analysed=False):
    """a well-formed symbolic Obs on the given layout (the data-structure invariant wf is assumed)"""
    names = CList(list(layout.names) + list(layout.covobs), "list")
    shape_d, r_values, deltas, idl = CDict(), CDict(), CDict(), CDict()
    N = 0
    for i, (cn, kind) in enumerate(layout.chains):
        shp = None if shape is None else shape[i]
        spec = IdlRange(min_len) if kind == "range" else IdlList(min_len)
        x = spec.make("%s.idl.%s" % (name, cn), ctx, shp)
        idl.d[cn] = x
        n = Len(x)
        if kind == "list":
            # wf: a configuration list is held as a list only when it is not equally spaced
            ctx.assume(Not(ForAll(0, n - 1, lambda k, x=x: At(x, k + 1) - At(x, k) == At(x, 1) - At(x, 0))))
        d = Seq("real", "ndarray", min_len).make("%s.deltas.%s" % (name, cn), ctx, shp)
        if shp is None:
            ctx.assume(compare("==", d.length, n))
        deltas.d[cn] = d
        shape_d.d[cn] = n
        r_values.d[cn] = SReal(z3.Real(fresh("%s.r.%s" % (name, cn))))
        N = n if i == 0 else (N + n)
    o = SObj("Obs", {"names": names, "shape": shape_d, "r_values": r_values, "deltas": deltas, "idl": idl, "N": N,
                     "_value": SReal(z3.Real(fresh(name + ".value"))), "_dvalue": SReal(z3.Real(fresh(name + ".dvalue"))),
                     "ddvalue": SReal(z3.Real(fresh(name + ".ddvalue"))),
                     "reweighted": SBool(z3.Bool(fresh(name + ".rw"))), "tag": None, "_covobs": CDict()}, name=name)
    return o


def native_obs_from(value_dict):
    """{'chains': {name: (idl, samples)}, ...} -> real pyerrors Obs"""
    import numpy as np
    from pyvc.native import repo_module
    pe = repo_module("pyerrors.obs")
    names = sorted(value_dict["chains"])
    ensembles = sorted(set(n.split("|")[0] for n in names))
    if len(ensembles) > 1:
        # an Obs is constructed on one ensemble; several ensembles arise by arithmetic: add the per-ensemble parts
        o = None
        for m in ensembles:
            part = native_obs_from({"chains": {n: value_dict["chains"][n] for n in names if n.split("|")[0] == m}})
            o = part if o is None else o + part
        if value_dict.get("reweighted"):
            o.reweighted = True
        return o
    o = pe.Obs([np.asarray(value_dict["chains"][n][1], dtype=float) for n in names], names, idl=[value_dict["chains"][n][0] for n in names])
    if value_dict.get("reweighted"):
        o.reweighted = True
    return o


class ObsSpec(Spec):
    """a well-formed Obs; variants = layouts"""

    def __init__(self, layouts, min_len=MIN_CHAIN):
        self.layouts = layouts
        self.min_len = min_len

    def variants(self):
        return [(l.label(), _ObsOn(l, self.min_len)) for l in self.layouts]


class _ObsOn(Spec):
    def __init__(self, layout, min_len):
        self.layout, self.min_len = layout, min_len

    def make(self, name, ctx, shape=None):
        return mk_obs(name, self.layout, ctx, shape, self.min_len)

    def shapes(self, bound):
        import itertools
        per = [list(range(self.min_len, self.min_len + 2)) for _ in self.layout.chains]
        return [list(c) for c in itertools.product(*per)]

    def native(self, value, ev):
        chains = {}
        for cn, kind in self.layout.chains:
            idl = value.attrs["idl"].d[cn]
            if isinstance(idl, SRange):
                nidl = range(int(ev(idl.start)), int(ev(idl.stop)), int(ev(idl.step)))
            else:
                nidl = [int(ev(x)) for x in idl.items]
            d = value.attrs["deltas"].d[cn]
            r = value.attrs["r_values"].d[cn]
            chains[cn] = (nidl, [float(ev(x)) + float(ev(r)) for x in d.items])
        return native_obs_from({"chains": chains})

    def random(self, rng, shape=None):
        chains = {}
        for i, (cn, kind) in enumerate(self.layout.chains):
            n = shape[i] if shape is not None else rng.randint(self.min_len, self.min_len + 4)
            nidl = G.idl(rng, kind, n)
            if kind == "list" and len(set(nidl[j + 1] - nidl[j] for j in range(len(nidl) - 1))) == 1:
                nidl[-1] += 1     # keep it irregular: Obs.__init__ turns equally spaced lists into ranges
            chains[cn] = (nidl, list(G.reals(rng, n) + rng.uniform(-2, 2)))
        return native_obs_from({"chains": chains, "reweighted": rng.random() < 0.3})

    def lift(self, o):
        return lift_obs(o)


def lift_obs(o):
    """native Obs -> concrete engine object"""
    attrs = {
        "names": CList(list(o.names), "list"),
        "shape": CDict({k: int(v) for k, v in o.shape.items()}),
        "r_values": CDict({k: Fraction(float(v)) for k, v in o.r_values.items()}),
        "deltas": CDict({k: lift_native(v) for k, v in o.deltas.items()}),
        "idl": CDict({k: lift_native(v if isinstance(v, range) else list(v)) for k, v in o.idl.items()}),
        "N": int(o.N), "_value": Fraction(float(o.value)), "_dvalue": Fraction(float(o._dvalue)), "ddvalue": Fraction(float(o.ddvalue)),
        "reweighted": bool(o.reweighted), "tag": o.tag, "_covobs": CDict(),
    }
    return SObj("Obs", attrs)


# ---- accessors usable on engine objects and on native Obs (dual mode) -------------------------------------------

def A(o, attr):
    if isinstance(o, SObj):
        return o.attrs[attr]
    return getattr(o, attr)


def D(d, key):
    if isinstance(d, CDict):
        return d.d.get(key, UNDEF)
    return d.get(key, UNDEF) if hasattr(d, "get") else d[key]


def names_of(o):
    n = A(o, "names")
    return list(n.items) if isinstance(n, CList) else list(n)


def chain(o, cn, what):
    return D(A(o, what), cn)


def value_of(o):
    return A(o, "_value") if isinstance(o, SObj) else float(o.value)


def is_obs(x):
    if isinstance(x, SObj):
        return x.cls == "Obs"
    return type(x).__name__ == "Obs"


def seq_sum(x):
    """sum of a real sequence (proofs: the recursive SUM; native: numpy)"""
    if isinstance(x, SSeq):
        return wrap(SUM(x.arr, x.length))
    if isinstance(x, CList):
        t = 0
        for v in x.items:
            t = t + v
        return t
    import numpy as np
    return float(np.sum(x))


def wf(o, min_len=MIN_CHAIN):
    """the data-structure invariant of C04 on one observable (Monte-Carlo part)"""
    conds = []
    ns = names_of(o)
    conds.append(ns == sorted(ns) and len(set(ns)) == len(ns) and all(isinstance(n, str) for n in ns))
    total = 0
    for cn in ns:
        idl = chain(o, cn, "idl")
        if idl is UNDEF:
            continue
        d = chain(o, cn, "deltas")
        conds.append(Len(idl) == Len(d))
        conds.append(chain(o, cn, "shape") == Len(idl))
        conds.append(strictly_increasing(idl) if not _is_rng(idl) else _step_of(idl) >= 1)
        total = total + Len(idl)
    conds.append(A(o, "N") == total)
    return And(*conds)


def _is_rng(x):
    return isinstance(x, (SRange, range))


def _step_of(x):
    return x.step


SINGLE = [Layout([("A|r1", "range")]), Layout([("A|r1", "list")])]
TWO_REP = [Layout([("A|r1", "range"), ("A|r2", "list")]), Layout([("A|r1", "list"), ("A|r2", "range")])]
