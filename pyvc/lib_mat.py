"""Two-dimensional real arrays of symbolic shape and sequences of objects of symbolic length (assumed numpy models).

  SMat(rows, cols, arr)     numpy 2-D float array; arr : Int -> (Int -> Real); mutable object with identity
  SRow(mat, i)              the view mat[i] (reads and writes go to the matrix)
  SOpaque('diagmat', v)     np.diag(v) for a 1-D v, kept symbolic so that products with it are row / column scalings
  SObjSeq(cls, n, attrs)    list of n objects of a repository class, each attribute held as one array over the index

Modelled (everything else on these values is a checker error, never a guess):
  np.zeros((n, m)), np.zeros_like(M), M.shape, M.T, M[i, j], M[i][j] (read and store), M + N, M - N, M +- diag, c * M, M / c,
  np.diag(M) (main diagonal), np.diag(v), diag @ M (row scaling), M @ diag (column scaling), diag @ diag,
  np.sqrt / 1/x on 1-D arrays (with the axioms of the real square root on every element), np.linalg.eigh (nothing is known
  about its result).
"""
from fractions import Fraction
import z3

from . import sym as S
from .sym import (Sym, SInt, SReal, SBool, SSeq, CList, CDict, SRange, SOpt, SObj, SOpaque, CheckerError, arith, compare, tz, tb,
                  treal, wrap, fresh, And, Or, Not, Implies, Ite, uf, select)
from .interp import PyRaise
from .lib import Lib, SCALAR, mk_seq

MAT_SORT = z3.ArraySort(z3.IntSort(), z3.ArraySort(z3.IntSort(), z3.RealSort()))


class SMat(Sym):
    def __init__(self, rows, cols, arr, name=None):
        self.rows, self.cols, self.arr = rows, cols, arr
        self.name = name or fresh("mat")
        self.frozen = False
        self.defn = None
        self._defn_arr = None

    @staticmethod
    def fresh(prefix, rows=None, cols=None):
        n = fresh(prefix)
        rows = SInt(z3.Int(n + ".rows")) if rows is None else rows
        cols = SInt(z3.Int(n + ".cols")) if cols is None else cols
        return SMat(rows, cols, z3.Const(n, MAT_SORT), n)

    def get(self, i, j):
        i, j = tz(i), tz(j)
        if self.defn is not None and self.arr.eq(self._defn_arr):
            vi, vj, body = self.defn
            return wrap(z3.substitute(body, (vi, i), (vj, j)))
        return wrap(select(select(self.arr, i), j))

    def __repr__(self):
        return "SMat<%s x %s>" % (self.rows, self.cols)


class SRow(Sym):
    def __init__(self, mat, i):
        self.mat, self.i = mat, i

    @property
    def frozen(self):
        return self.mat.frozen


class SObjSeq(Sym):
    """list of objects: attrs = {name: (z3 array over the index, 'real' | 'int' | 'bool')}"""

    def __init__(self, cls, length, attrs, name=None, kind="list"):
        self.cls, self.length, self.attrs, self.kind = cls, length, attrs, kind
        self.name = name or fresh("objs")
        self.frozen = False

    def get(self, k):
        a = {nm: wrap(z3.Select(arr, tz(k))) for nm, (arr, _) in self.attrs.items()}
        a["_index"] = k if isinstance(k, (int, SInt)) else SInt(tz(k))
        o = SObj(self.cls, a, name="%s[%s]" % (self.name, k))
        o.frozen = self.frozen
        return o


def mk_mat(ctx, rows, cols, vi, vj, body):
    """named matrix constant with its definitional axiom; reads are beta-reduced eagerly"""
    name = fresh("M")
    A = z3.Const(name, MAT_SORT)
    rng = z3.And(0 <= vi, vi < tz(rows), 0 <= vj, vj < tz(cols))
    ctx._add(z3.ForAll([vi, vj], z3.Implies(rng, z3.Select(z3.Select(A, vi), vj) == body), patterns=[z3.Select(z3.Select(A, vi), vj)]))
    m = SMat(rows, cols, A, name)
    m.defn = (vi, vj, body)
    m._defn_arr = A
    return m


def _ij():
    return z3.Int(fresh("mi")), z3.Int(fresh("mj"))


def _is_diag(x):
    return isinstance(x, SOpaque) and x.tag == "diagmat"


def _same_dim(self, interp, a, b, node):
    same = compare("==", a, b)
    if same is True:
        return
    if same is False or not interp.ctx.decide(tb(same), "ValueError", node):
        raise PyRaise("ValueError", "operands could not be broadcast together / matmul dimension mismatch", node)


def _nested(x):
    return isinstance(x, CList) and x.kind == "ndarray" and bool(x.items) and all(isinstance(r, CList) for r in x.items)


# ------------------------------------------------------------------------------------------------ hooks into Lib

_old_getattr = Lib.getattr


def _getattr(self, interp, obj, attr, node):
    if isinstance(obj, SMat):
        if attr == "shape":
            return (obj.rows, obj.cols)
        if attr == "ndim":
            return 2
        if attr == "T":
            i, j = _ij()
            return mk_mat(interp.ctx, obj.cols, obj.rows, i, j, treal(obj.get(j, i)))
    if _nested(obj):
        if attr == "shape":
            return (len(obj.items), len(obj.items[0].items))
        if attr == "ndim":
            return 2
        if attr == "T":
            r, c = len(obj.items), len(obj.items[0].items)
            return CList([CList([obj.items[i].items[j] for i in range(r)], "ndarray") for j in range(c)], "ndarray")
    if isinstance(obj, SObjSeq) and attr == "shape":
        return (obj.length,)
    return _old_getattr(self, interp, obj, attr, node)


Lib.getattr = _getattr
_old_getitem_ext = Lib.getitem_ext


def _getitem_ext(self, interp, obj, idx, node):
    if isinstance(obj, SMat):
        if isinstance(idx, tuple) and len(idx) == 2 and all(isinstance(x, (int, SInt)) and not isinstance(x, bool) for x in idx):
            i = self.norm_index(interp, obj.rows, idx[0], node)
            j = self.norm_index(interp, obj.cols, idx[1], node)
            return obj.get(i, j)
        if isinstance(idx, (int, SInt)) and not isinstance(idx, bool):
            return SRow(obj, self.norm_index(interp, obj.rows, idx, node))
        interp.err(node, "index %r into a 2-D array" % (idx,))
    if isinstance(obj, SRow):
        if isinstance(idx, (int, SInt)) and not isinstance(idx, bool):
            j = self.norm_index(interp, obj.mat.cols, idx, node)
            return obj.mat.get(obj.i, j)
        interp.err(node, "index %r into a matrix row" % (idx,))
    if isinstance(obj, SObjSeq):
        if isinstance(idx, (int, SInt)) and not isinstance(idx, bool):
            return obj.get(self.norm_index(interp, obj.length, idx, node))
        interp.err(node, "index %r into a list of objects" % (idx,))
    return _old_getitem_ext(self, interp, obj, idx, node)


Lib.getitem_ext = _getitem_ext
_old_setitem = Lib.setitem


def _store(self, interp, mat, i, j, v, node):
    self.check_writable(interp, mat, node)
    if not isinstance(v, SCALAR):
        interp.err(node, "store of a non-scalar into a 2-D float array")
    i, j = tz(i), tz(j)
    row = z3.Select(mat.arr, i)
    mat.arr = z3.Store(mat.arr, i, z3.Store(row, j, treal(v)))


def _setitem(self, interp, obj, idx, v, node):
    if isinstance(obj, SMat):
        if isinstance(idx, tuple) and len(idx) == 2 and all(isinstance(x, (int, SInt)) and not isinstance(x, bool) for x in idx):
            i = self.norm_index(interp, obj.rows, idx[0], node, "store index")
            j = self.norm_index(interp, obj.cols, idx[1], node, "store index")
            return _store(self, interp, obj, i, j, v, node)
        interp.err(node, "store into a 2-D array with index %r" % (idx,))
    if isinstance(obj, SRow):
        if isinstance(idx, (int, SInt)) and not isinstance(idx, bool):
            j = self.norm_index(interp, obj.mat.cols, idx, node, "store index")
            return _store(self, interp, obj.mat, obj.i, j, v, node)
        interp.err(node, "store into a matrix row with index %r" % (idx,))
    if _nested(obj) and isinstance(idx, tuple) and len(idx) == 2:
        return _old_setitem(self, interp, self.getitem(interp, obj, idx[0], node), idx[1], v, node)
    return _old_setitem(self, interp, obj, idx, v, node)


Lib.setitem = _setitem
_old_symbolic_iter = Lib.symbolic_iter


def _symbolic_iter(self, interp, it, node):
    if isinstance(it, SObjSeq):
        return it.length, it.get
    return _old_symbolic_iter(self, interp, it, node)


Lib.symbolic_iter = _symbolic_iter
_old_filled = Lib._filled


def _filled(self, interp, args, kwargs, node, val):
    n = args[0]
    if isinstance(n, tuple) and len(n) == 2 and not all(isinstance(x, int) for x in n) and val == 0:
        for d in n:
            if isinstance(d, (Fraction, SReal)):
                raise PyRaise("TypeError", "float shape", node)
            ok = compare(">=", d, 0)
            if ok is not True and (ok is False or not interp.ctx.decide(tb(ok), "ValueError", node)):
                raise PyRaise("ValueError", "negative dimensions are not allowed", node)
        return SMat(n[0], n[1], z3.K(z3.IntSort(), z3.K(z3.IntSort(), z3.RealVal(0))))
    return _old_filled(self, interp, args, kwargs, node, val)


Lib._filled = _filled
_old_zeros_like = Lib.f_np__zeros_like


def _zeros_like(self, interp, args, kwargs, node):
    x = args[0]
    if isinstance(x, SMat):
        return SMat(x.rows, x.cols, z3.K(z3.IntSort(), z3.K(z3.IntSort(), z3.RealVal(0))))
    return _old_zeros_like(self, interp, args, kwargs, node)


Lib.f_np__zeros_like = _zeros_like


def _diag(self, interp, args, kwargs, node):
    x = args[0]
    if isinstance(x, SMat):
        _same_dim(self, interp, x.rows, x.cols, node) if False else None
        sq = compare("==", x.rows, x.cols)
        if sq is not True:
            interp.ctx.oblige("safe", "np.diag of a square matrix@L%s" % getattr(node, "lineno", "?"), sq, node)
        k = z3.Int(fresh("dg"))
        return mk_seq(interp, x.rows, k, treal(x.get(k, k)), "ndarray", "real")
    if _nested(x):
        r, c = len(x.items), len(x.items[0].items)
        return CList([x.items[i].items[i] for i in range(min(r, c))], "ndarray", "real")
    if isinstance(x, CList):
        n = len(x.items)
        return CList([CList([x.items[i] if i == j else Fraction(0) for j in range(n)], "ndarray") for i in range(n)], "ndarray")
    if isinstance(x, SSeq):
        return SOpaque("diagmat", x)
    interp.err(node, "np.diag(%r)" % (x,))


Lib.f_np__diag = _diag


def _eigh(self, interp, args, kwargs, node):
    x = args[0]
    n = x.rows if isinstance(x, SMat) else Len_(x)
    vals = SSeq.fresh("eigvals", "ndarray", "real", length=n if isinstance(n, (int, SInt)) else None)
    return (vals, SOpaque("eigvecs"))


def Len_(x):
    return S.Len(x)


Lib.f_np__linalg__eigh = _eigh
_old_binop_ext = Lib.binop_ext


def _ew(self, interp, op, a, b, node):
    """elementwise a op b with a an SMat and b an SMat / diagmat / scalar (or a scalar and b an SMat)"""
    ctx = interp.ctx
    i, j = _ij()
    m = a if isinstance(a, SMat) else b

    def elem(x):
        if isinstance(x, SMat):
            return x.get(i, j)
        if _is_diag(x):
            return Ite(wrap(i == j), x.payload.get(SInt(i)), Fraction(0))
        return x
    for x in (a, b):
        if isinstance(x, SMat) and x is not m:
            _same_dim(self, interp, x.rows, m.rows, node)
            _same_dim(self, interp, x.cols, m.cols, node)
        if _is_diag(x):
            _same_dim(self, interp, x.payload.length, m.rows, node)
            _same_dim(self, interp, x.payload.length, m.cols, node)
    return mk_mat(ctx, m.rows, m.cols, i, j, treal(arith(op, elem(a), elem(b))))


def _binop_ext(self, interp, op, a, b, node):
    ma, mb = isinstance(a, SMat), isinstance(b, SMat)
    da, db = _is_diag(a), _is_diag(b)
    if (ma or mb) and op in ("+", "-", "*", "/"):
        if (ma or da or isinstance(a, SCALAR)) and (mb or db or isinstance(b, SCALAR)):
            if op in ("*", "/") and (da or db):
                interp.err(node, "elementwise product with np.diag(...)")
            if op == "/" and not ma:
                interp.err(node, "scalar / matrix")
            return _ew(self, interp, op, a, b, node)
        interp.err(node, "operation %s on a 2-D array and %r" % (op, b if ma else a))
    return _old_binop_ext(self, interp, op, a, b, node)


Lib.binop_ext = _binop_ext
_old_matmul = Lib.matmul


def _matmul(self, interp, a, b, node):
    ma, mb = isinstance(a, SMat), isinstance(b, SMat)
    da, db = _is_diag(a), _is_diag(b)
    ctx = interp.ctx
    if da and mb:
        _same_dim(self, interp, a.payload.length, b.rows, node)
        i, j = _ij()
        return mk_mat(ctx, b.rows, b.cols, i, j, treal(arith("*", a.payload.get(SInt(i)), b.get(i, j))))
    if ma and db:
        _same_dim(self, interp, a.cols, b.payload.length, node)
        i, j = _ij()
        return mk_mat(ctx, a.rows, a.cols, i, j, treal(arith("*", a.get(i, j), b.payload.get(SInt(j)))))
    if da and db:
        _same_dim(self, interp, a.payload.length, b.payload.length, node)
        return SOpaque("diagmat", self.elementwise(interp, lambda x, y: arith("*", x, y), a.payload, b.payload, node))
    if ma or mb or da or db:
        interp.err(node, "general matrix product (only products with np.diag(...) are modelled)")
    return _old_matmul(self, interp, a, b, node)


Lib.matmul = _matmul
_old_sqrt = Lib.f_np__sqrt


def _sqrt(self, interp, args, kwargs, node):
    r = _old_sqrt(self, interp, args, kwargs, node)
    x = args[0]
    if isinstance(x, SSeq) and isinstance(r, SSeq):
        # assumed: the axioms of the real square root (sqrt(y) >= 0 and sqrt(y)^2 == y for y >= 0)
        y = z3.Real(fresh("sqy"))
        sq = uf("sqrt")(y)
        interp.ctx._add(z3.ForAll([y], z3.Implies(y >= 0, z3.And(sq >= 0, sq * sq == y)), patterns=[sq]))
    return r


Lib.f_np__sqrt = _sqrt


# ------------------------------------------------------------------------------------------------ engine plumbing

def install(driver_mod):
    """havoc / clone of the new mutable values"""
    PathCtx = driver_mod.PathCtx
    old_havoc_object, old_clone, old_havoc_value = PathCtx.havoc_object, PathCtx.clone_value, PathCtx.havoc_value

    def havoc_object(self, o, kind, attr, node=None):
        if isinstance(o, SRow):
            o = o.mat
        if isinstance(o, SMat):
            if o.frozen:
                return
            o.arr = z3.Const(fresh(o.name.split("!")[0]), MAT_SORT)
            return
        return old_havoc_object(self, o, kind, attr, node)

    def clone_value(self, v, memo=None):
        memo = {} if memo is None else memo
        if isinstance(v, SMat):
            if id(v) in memo:
                return memo[id(v)]
            c = SMat(v.rows, v.cols, v.arr, v.name)
            c.defn, c._defn_arr = v.defn, v._defn_arr
            memo[id(v)] = c
            return c
        if isinstance(v, SObjSeq):
            return v        # immutable in the model
        return old_clone(self, v, memo)

    def havoc_value(self, old, name, node=None):
        if isinstance(old, SMat):
            return SMat(old.rows, old.cols, z3.Const(fresh(name), MAT_SORT))
        if type(old).__name__ == "SStr":
            return SOpaque("str")      # text assembled in a loop: nothing is known about its content afterwards
        return old_havoc_value(self, old, name, node)

    PathCtx.havoc_object, PathCtx.clone_value, PathCtx.havoc_value = havoc_object, clone_value, havoc_value


# ------------------------------------------------------------------------------------------------ spec helpers (dual mode)

def Rows(m):
    if isinstance(m, SMat):
        return m.rows
    if isinstance(m, CList):
        return len(m.items)
    return len(m)


def Cols(m):
    if isinstance(m, SMat):
        return m.cols
    if isinstance(m, CList):
        return len(m.items[0].items) if m.items else 0
    import numpy as np
    return int(np.shape(m)[1]) if len(np.shape(m)) > 1 else 0


def At2(m, i, j):
    if isinstance(m, SMat):
        return m.get(i, j)
    if isinstance(m, CList):
        return S.At(S.At(m, i), j)
    i, j = int(i), int(j)
    import numpy as np
    sh = np.shape(m)
    if len(sh) != 2 or not (0 <= i < sh[0] and 0 <= j < sh[1]):
        return S.UNDEF
    return float(m[i][j])


# ---- eigenvalues of small concrete symmetric matrices (assumed model of np.linalg.eigvalsh, lower triangle used)

def _eigvalsh(self, interp, args, kwargs, node):
    x = args[0]
    if _nested(x):
        n = len(x.items)
        if n == 1 and len(x.items[0].items) == 1:
            return CList([x.items[0].items[0]], "ndarray", "real")
        if n == 2 and all(len(r.items) == 2 for r in x.items):
            a, b, d = x.items[0].items[0], x.items[1].items[0], x.items[1].items[1]
            disc = arith("+", arith("*", arith("-", a, d), arith("-", a, d)), arith("*", 4, arith("*", b, b)))
            s = self.real_fn(interp, "sqrt", disc, node)
            half = Fraction(1, 2)
            return CList([arith("*", half, arith("-", arith("+", a, d), s)), arith("*", half, arith("+", arith("+", a, d), s))], "ndarray", "real")
    interp.err(node, "np.linalg.eigvalsh of %r (only concrete 1x1 and 2x2 matrices are modelled)" % (x,))


Lib.f_np__linalg__eigvalsh = _eigvalsh
_old_getattr2 = Lib.getattr


def _getattr2(self, interp, obj, attr, node):
    if attr == "ndim":
        if isinstance(obj, SCALAR) and not isinstance(obj, (bool, SBool)):
            return 0
        if isinstance(obj, CList) and obj.kind in ("ndarray", "list") and not _nested(obj) and all(isinstance(x, SCALAR) for x in obj.items):
            return 1
    return _old_getattr2(self, interp, obj, attr, node)


Lib.getattr = _getattr2
