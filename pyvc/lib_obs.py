"""Observable-valued scalars for the correlator layer (C14 / C15 / C19).

An Obs is abstracted by its central value (a real): by C01 every arithmetic operation / elementary function on
observables is the first-order lift of the same real function, so an identity between real expressions is an
identity between observables (DESIGN section 6, C15).  What is *not* abstracted is definedness: entries of a
correlator are `None` or a one-element object array, and operating on None raises TypeError as in Python.

  OV(val)   an Obs whose central value is `val`         (.value, .dvalue, arithmetic, comparisons by value)
  OA(val)   numpy array of shape (1,) holding OV(val)   ([0], len, arithmetic, np.log / np.exp / ...)
"""
import ast
from fractions import Fraction
import z3

from .sym import (Sym, SInt, SReal, SBool, SSeq, CList, CDict, SRange, SOpt, SObj, SOpaque, CheckerError, arith, compare, tz, tb,
                  treal, wrap, fresh, Len, At, And, Or, Not, Implies, Ite, uf)
from .interp import PyRaise, LibFn, RepoClass
from .lib import Lib, SCALAR, kind_of

DVAL = z3.Function("obs_dvalue", z3.RealSort(), z3.RealSort())


class OV(Sym):
    def __init__(self, val):
        self.val = val

    def __repr__(self):
        return "OV(%s)" % (self.val,)


class OA(Sym):
    def __init__(self, val):
        self.val = val

    def __repr__(self):
        return "OA(%s)" % (self.val,)


def split(v):
    """value -> (isnone, real value or None, wrap kind)"""
    if v is None:
        return True, None, None
    if isinstance(v, SOpt):
        n, x, k = split(v.val) if v.val is not None else (True, None, None)
        return v.isnone, x, k
    if isinstance(v, OA):
        return False, v.val, "oa"
    if isinstance(v, OV):
        return False, v.val, "ov"
    return False, v, None


def join(isnone, val, k):
    x = val
    if k == "oa":
        x = OA(val)
    elif k == "ov":
        x = OV(val)
    if isnone is False:
        return x
    if isnone is True:
        return None
    return SOpt(isnone, x)


class ObsLib(Lib):
    # ---- wrapped elements in symbolic sequences
    def lambda_seq(self, interp, n, k, v, kind, node):
        isn, x, wk = split(v)
        if wk is None:
            return Lib.lambda_seq(self, interp, n, k, v, kind, node)
        inner = x if isn is False else SOpt(isn, x)
        s = Lib.lambda_seq(self, interp, n, k, inner, kind, node)
        s.wrapk = wk
        return s

    def merge_values(self, interp, cond, a, b, node):
        na, xa, ka = split(a)
        nb, xb, kb = split(b)
        if ka is None and kb is None:
            return Ite(cond, a, b)
        k = ka or kb
        if ka and kb and ka != kb:
            interp.err(node, "paths produce different kinds of entries (%s / %s)" % (ka, kb))
        x = xa if xb is None else (xb if xa is None else Ite(cond, xa, xb))
        isn = Ite(cond, na, nb)
        return join(isn, x, k)

    def wrap_elem(self, seq, v):
        wk = getattr(seq, "wrapk", None)
        if wk is None:
            return v
        if isinstance(v, SOpt):
            return SOpt(v.isnone, OA(v.val) if wk == "oa" else OV(v.val))
        return OA(v) if wk == "oa" else OV(v)

    def getitem(self, interp, obj, idx, node):
        if isinstance(obj, OA):
            if isinstance(idx, int):
                if idx in (0, -1):
                    return OV(obj.val)
                raise PyRaise("IndexError", node=node)
            interp.err(node, "symbolic index into a one-element observable array")
        if isinstance(obj, OV):
            raise PyRaise("TypeError", "'Obs' object is not subscriptable", node)
        v = Lib.getitem(self, interp, obj, idx, node)
        if isinstance(obj, SSeq) and getattr(obj, "wrapk", None) and isinstance(idx, (int, SInt)):
            return self.wrap_elem(obj, v)
        return v

    def getslice(self, interp, obj, lo, hi, st, node):
        r = Lib.getslice(self, interp, obj, lo, hi, st, node)
        if isinstance(obj, SSeq) and getattr(obj, "wrapk", None) and isinstance(r, SSeq):
            r.wrapk = obj.wrapk
        return r

    def concat(self, interp, parts, kind, node):
        wks = set(getattr(p, "wrapk", None) for p in parts if isinstance(p, SSeq) and not (isinstance(Len(p), int) and Len(p) == 0)) - {None}
        conv = []
        for p in parts:
            if isinstance(p, CList) and any(isinstance(x, (OA, OV)) or (isinstance(x, SOpt) and isinstance(x.val, (OA, OV))) for x in p.items):
                items = []
                for x in p.items:
                    n, v, k = split(x)
                    if k:
                        wks.add(k)
                    items.append(None if n is True else (v if n is False else SOpt(n, v)))
                p = CList(items, p.kind)
            conv.append(p)
        if all(isinstance(p, CList) for p in conv) and wks:
            conv = [self.to_sseq(interp, p, node) for p in conv]
        r = Lib.concat(self, interp, conv, kind, node)
        if wks:
            if len(wks) > 1:
                interp.err(node, "concatenation of lists with different entry kinds")
            r.wrapk = wks.pop()
        return r

    def symbolic_iter(self, interp, it, node):
        n, g = Lib.symbolic_iter(self, interp, it, node)
        if isinstance(it, SSeq) and getattr(it, "wrapk", None):
            return n, (lambda k: self.wrap_elem(it, g(k)))
        return n, g

    def try_iterate_concrete(self, interp, it, node):
        if isinstance(it, OA):
            return [OV(it.val)]
        r = Lib.try_iterate_concrete(self, interp, it, node)
        if r is not None and isinstance(it, SSeq) and getattr(it, "wrapk", None):
            return [self.wrap_elem(it, x) for x in r]
        return r

    def f_list(self, interp, args, kwargs, node):
        r = Lib.f_list(self, interp, args, kwargs, node)
        if args and isinstance(args[0], SSeq) and getattr(args[0], "wrapk", None) and isinstance(r, SSeq):
            r.wrapk = args[0].wrapk
        return r

    def m_append(self, interp, obj, args, kwargs, node):
        (v,) = args
        n, x, k = split(v)
        if k and isinstance(obj, SSeq) and not (interp.ctx.summary and interp.ctx.summary[-1][0] is obj):
            obj.wrapk = k
            return Lib.m_append(self, interp, obj, [x if n is False else SOpt(n, x)], kwargs, node)
        return Lib.m_append(self, interp, obj, args, kwargs, node)

    # ---- attributes
    def getattr(self, interp, obj, attr, node):
        if isinstance(obj, OV):
            if attr == "value":
                return obj.val
            if attr in ("dvalue", "_dvalue"):
                return wrap(DVAL(treal(obj.val)))
            if attr in ("real",):
                return obj
            if attr == "imag":
                return 0
        if isinstance(obj, OA):
            if attr == "shape":
                return (1,)
            if attr == "T":
                return obj
        if isinstance(obj, SOpt):
            if interp.truth(obj.isnone, node):
                raise PyRaise("AttributeError", "'NoneType' object has no attribute %r" % attr, node)
            return interp.getattr(obj.val, attr, node)
        return Lib.getattr(self, interp, obj, attr, node)

    def f_hasattr(self, interp, args, kwargs, node):
        o, a = args
        if isinstance(o, OV):
            return a in ("value", "dvalue", "real", "imag", "deltas", "names", "idl", "gamma_method", "gm")
        if isinstance(o, OA):
            return a in ("shape", "T", "real", "imag")
        return Lib.f_hasattr(self, interp, args, kwargs, node)

    def f_len(self, interp, args, kwargs, node):
        if isinstance(args[0], OA):
            return 1
        if isinstance(args[0], OV):
            raise PyRaise("TypeError", "object of type 'Obs' has no len()", node)
        return Lib.f_len(self, interp, args, kwargs, node)

    def f_isinstance(self, interp, args, kwargs, node):
        v, t = args
        if isinstance(v, (OV, OA)):
            ts = t if isinstance(t, tuple) else (t,)
            for tt in ts:
                if isinstance(tt, RepoClass) and tt.qual.endswith("::Obs") and isinstance(v, OV):
                    return True
                if isinstance(tt, LibFn) and tt.name == "np.ndarray" and isinstance(v, OA):
                    return True
                if isinstance(tt, LibFn) and tt.name == "object":
                    return True
            return False
        return Lib.f_isinstance(self, interp, args, kwargs, node)

    # ---- arithmetic
    def binop_ext(self, interp, op, a, b, node):
        if isinstance(a, SObj) or isinstance(b, SObj):
            return Lib.binop_ext(self, interp, op, a, b, node)
        if isinstance(a, (OV, OA)) or isinstance(b, (OV, OA)):
            isarr = isinstance(a, OA) or isinstance(b, OA)
            x = a.val if isinstance(a, (OV, OA)) else a
            y = b.val if isinstance(b, (OV, OA)) else b
            if not isinstance(x, SCALAR) or not isinstance(y, SCALAR):
                interp.err(node, "observable arithmetic with %r / %r" % (a, b))
            if op == "/":
                # Obs / Obs with a zero denominator value gives inf/nan fluctuations, not an exception: total division
                from .sym import ABSTRACT_REAL, rdiv
                r = wrap(rdiv(treal(x), treal(y))) if ABSTRACT_REAL[0] else wrap(treal(x) / treal(y))
            elif op == "**":
                r = arith("**", wrap(treal(x)) if not isinstance(y, int) else x, y)
                r = wrap(treal(r)) if isinstance(r, (int, Fraction, SInt)) else r
            elif op in ("+", "-", "*"):
                r = arith(op, x, y)
                r = wrap(treal(r))
            else:
                interp.err(node, "operator %s on observables" % op)
            return OA(r) if isarr else OV(r)
        return Lib.binop_ext(self, interp, op, a, b, node)

    def compare_ext(self, interp, op, a, b, node):
        if isinstance(a, (OV, OA)) or isinstance(b, (OV, OA)):
            x = a.val if isinstance(a, (OV, OA)) else a
            y = b.val if isinstance(b, (OV, OA)) else b
            if isinstance(x, SCALAR) and isinstance(y, SCALAR):
                return compare(op, x, y)
        return Lib.compare_ext(self, interp, op, a, b, node)

    def unary_ext(self, interp, name, x, node):
        if isinstance(x, (OV, OA)):
            if name == "isnan":
                return False
            r = self.real_fn(interp, name, x.val, node)
            r = wrap(treal(r))
            return OA(r) if isinstance(x, OA) else OV(r)
        return NotImplemented

    def f_np__asarray(self, interp, args, kwargs, node):
        x = args[0]
        if isinstance(x, OA):
            return x
        if isinstance(x, CList) and len(x.items) == 1 and isinstance(x.items[0], OV):
            return OA(x.items[0].val)
        if x is None:
            return CList([None], "ndarray")
        if isinstance(x, SOpt):
            if interp.truth(x.isnone, node):
                return CList([None], "ndarray")
            return self.f_np__asarray(interp, [x.val], kwargs, node)
        return Lib.f_np__asarray(self, interp, args, kwargs, node)

    def f_np__array(self, interp, args, kwargs, node):
        x = args[0]
        if isinstance(x, CList) and len(x.items) == 1 and isinstance(x.items[0], OV):
            return OA(x.items[0].val)
        return Lib.f_np__array(self, interp, args, kwargs, node)

    def m_flatten(self, interp, obj, args, kwargs, node):
        if isinstance(obj, OA):
            return CList([OV(obj.val)], "ndarray")
        return Lib.m_flatten(self, interp, obj, args, kwargs, node)

    def f_np__sum(self, interp, args, kwargs, node):
        if isinstance(args[0], OA):
            return OV(args[0].val)
        if isinstance(args[0], OV):
            return args[0]
        return Lib.f_np__sum(self, interp, args, kwargs, node)

    def f_np__mean(self, interp, args, kwargs, node):
        x = args[0]
        if isinstance(x, CList) and x.items and all(isinstance(i, OV) for i in x.items):
            cur = x.items[0].val
            for i in x.items[1:]:
                cur = arith("+", cur, i.val)
            return OV(wrap(treal(cur) / len(x.items)))
        return Lib.f_np__mean(self, interp, args, kwargs, node)

    def truth_ext(self, interp, v, node):
        if isinstance(v, (OV, OA)):
            return True       # Obs defines no __bool__/__len__: objects are truthy; a one-element array has its element's truth
        return NotImplemented

    def value_eq(self, interp, a, b, node):
        if isinstance(a, (OV, OA)) and isinstance(b, (OV, OA)):
            return a is b
        return Lib.value_eq(self, interp, a, b, node)
