"""Assumed models of builtins / numpy / struct / file objects (the trusted base, DESIGN section 5 L0).

Every function here is an *assumption* about a dependency; the names actually used by a run are reported in
the evidence (`trusted_base`).
"""
import ast
import os
from fractions import Fraction
import z3

from .sym import select as _sel
from .sym import seq_sel as _ssel
from .sym import (Sym, SInt, SReal, SBool, SSeq, CList, CDict, SRange, SOpt, SObj, SOpaque, CheckerError,
                  arith, compare, tz, tb, treal, wrap, fresh, Len, At, And, Or, Not, Implies, Iff, Ite, uf, ForAll,
                  strictly_increasing, member)
from .interp import (PyRaise, PathEnd, Mod, LibFn, Closure, BoundMethod, ExcClass, RepoFn, RepoClass, Env, Poison,
                     _Break, _Continue, _Return, assigned_names, mutated_exprs)

SCALAR = (int, Fraction, SInt, SReal, SBool)

MODULES = {"np", "numpy", "np.linalg", "np.fft", "np.random", "anp", "autograd.numpy", "scipy", "scipy.linalg",
           "scipy.optimize", "scipy.stats", "scipy.integrate", "struct", "os", "os.path", "warnings", "math", "hashlib", "plt",
           "pickle", "gzip", "json", "rapidjson", "nd", "itertools", "re", "fnmatch", "anp.linalg", "scipy.special", "np.ma"}

EXCS = {"struct.error": "struct.error", "np.linalg.LinAlgError": "np.linalg.LinAlgError",
        "np.linalg.linalg.LinAlgError": "np.linalg.LinAlgError"}

TYPE_NAMES = {"int", "float", "str", "list", "tuple", "dict", "range", "bool", "complex", "set", "bytes",
              "np.ndarray", "np.float64", "np.int64", "np.integer", "np.floating", "object", "type"}

# sum over a prefix of an array: SUM(a, n) = a[0] + ... + a[n-1]
# SUM is uninterpreted in the verification conditions; its recursive definition is available as SUM_AXIOMS to the
# contracts that argue about sums (ghost inductions); everywhere else only "the same sum" matters.
_SUM = z3.Function("SUM", z3.ArraySort(z3.IntSort(), z3.RealSort()), z3.IntSort(), z3.RealSort())
_a = z3.Const("SUM.a", z3.ArraySort(z3.IntSort(), z3.RealSort()))
_n = z3.Int("SUM.n")
SUM_AXIOMS = [z3.ForAll([_a, _n], z3.Implies(_n <= 0, _SUM(_a, _n) == 0), patterns=[_SUM(_a, _n)]),
              z3.ForAll([_a, _n], z3.Implies(_n > 0, _SUM(_a, _n) == _SUM(_a, _n - 1) + z3.Select(_a, _n - 1)), patterns=[_SUM(_a, _n)])]


_b = z3.Const("SUM.b", z3.ArraySort(z3.IntSort(), z3.RealSort()))
_i = z3.Int("SUM.i")
# extensionality of sums (provable by induction over n; assumed lemma, listed in the evidence when used)
SUM_EXT = z3.ForAll([_a, _b, _n], z3.Implies(z3.ForAll([_i], z3.Implies(z3.And(0 <= _i, _i < _n), z3.Select(_a, _i) == z3.Select(_b, _i))),
                                              _SUM(_a, _n) == _SUM(_b, _n)), patterns=[z3.MultiPattern(_SUM(_a, _n), _SUM(_b, _n))])


CAPTURE = {}      # ghost records of selected library calls on the current path (cleared by the contract's pre_execute hook)


def SUM(arr, n):
    return _SUM(arr, tz(n))


# ACORR(a, M, t) := sum_{k < M - t} a[k] * a[k + t]  (0 for t >= M): one symbol for the lag-t autocorrelation sum of the
# first M entries of an array, shared by the numpy models (dot of two slices of one array, FFT autocorrelation) and by
# the contracts, so that "the same sum" is decided by congruence instead of sum reasoning
ACORR = z3.Function("ACORR", z3.ArraySort(z3.IntSort(), z3.RealSort()), z3.IntSort(), z3.IntSort(), z3.RealSort())


_ac_a = z3.Const("AC.a", z3.ArraySort(z3.IntSort(), z3.RealSort()))
_ac_m, _ac_t = z3.Ints("AC.m AC.t")
# empty sum: no pair of entries is t apart when t >= M
ACORR_AXIOMS = [z3.ForAll([_ac_a, _ac_m, _ac_t], z3.Implies(_ac_t >= _ac_m, ACORR(_ac_a, _ac_m, _ac_t) == 0),
                          patterns=[ACORR(_ac_a, _ac_m, _ac_t)])]


def acorr(x, t):
    """spec helper: lag-t autocorrelation sum of the sequence x"""
    if isinstance(x, SSeq):
        return wrap(ACORR(x.arr, tz(x.length), tz(t)))
    if isinstance(x, CList):
        tot = 0
        n = len(x.items)
        for k in range(max(0, n - int(t))):
            tot = tot + x.items[k] * x.items[k + int(t)]
        return tot
    import numpy as np
    x = np.asarray(x, dtype=float)
    t = int(t)
    return float(np.dot(x[:len(x) - t], x[t:])) if 0 <= t <= len(x) else 0.0


# SUMRANGE(a, lo, hi) := a[lo] + ... + a[hi-1]: the sum of a slice, as one symbol in the base array and the bounds (shared by
# the numpy model of sum / mean / matmul on a slice and by the contracts)
SUMRANGE = z3.Function("SUMRANGE", z3.ArraySort(z3.IntSort(), z3.RealSort()), z3.IntSort(), z3.IntSort(), z3.RealSort())


def sum_range(x, lo, hi):
    """spec helper: x[lo] + ... + x[hi-1]"""
    if isinstance(x, SSeq):
        return wrap(SUMRANGE(x.arr, tz(lo), tz(hi)))
    if isinstance(x, CList):
        t = 0
        for v in x.items[int(lo):int(hi)]:
            t = t + v
        return t
    import numpy as np
    return float(np.sum(np.asarray(x, dtype=float)[int(lo):int(hi)]))


def sum_of(n, f):
    """spec helper: sum_{k < n} f(k), as SUM over a lambda-defined array (symbolic) or a Python sum (native)"""
    if isinstance(n, Sym) or z3.is_expr(n):
        from . import sym as _sym
        k = z3.Int(fresh("sk"))
        body = treal(f(SInt(k)))
        A = z3.Const(defn_name("lam", n, k, body), z3.ArraySort(z3.IntSort(), z3.RealSort()))
        # definitional axiom of the summand array, handed to the path condition with the formula that uses it
        _sym.PENDING.append(z3.ForAll([k], z3.Implies(z3.And(0 <= k, k < tz(n)), z3.Select(A, k) == body), patterns=[z3.Select(A, k)]))
        return wrap(_SUM(A, tz(n)))
    t = 0.0
    for k in range(int(n)):
        t = t + f(k)
    return t


# circular autocorrelation through the FFT (assumed numpy contract): for x of length M zero padded to an even length P,
# irfft(|rfft(x, P)|^2)[t] == sum_{k < M - t} x[k] x[k+t]   for 0 <= t <= P - M
def _fft_models():
    def rfft(self, interp, args, kwargs, node):
        x, P = args[0], args[1]
        if isinstance(x, CList):
            x = self.to_sseq(interp, x, node)
        return SOpaque("rfft", (x, P, 1))

    def irfft(self, interp, args, kwargs, node):
        v = args[0]
        if not (isinstance(v, SOpaque) and v.tag == "rfft" and v.payload[2] == "abs2"):
            interp.err(node, "np.fft.irfft of something that is not |rfft(x, n)|**2")
        x, P, _ = v.payload
        ctx = interp.ctx
        # irfft of a spectrum of n//2+1 points has length 2*(n//2): equal to P only for even P
        outlen = arith("*", 2, arith("//", P, 2))
        C = SSeq.fresh("acorr", "ndarray", "real")
        C.length = outlen
        M = x.length
        t = z3.Int(fresh("t"))
        body = ACORR(x.arr, tz(M), t)
        ctx._add(z3.ForAll([t], z3.Implies(z3.And(0 <= t, t <= tz(P) - tz(M), tz(P) % 2 == 0, tz(P) >= tz(M)), z3.Select(C.arr, t) == body),
                           patterns=[z3.Select(C.arr, t)]))
        return C
    return rfft, irfft



_CANON_K = z3.Int("canon.k")


def defn_name(prefix, n, k, body):
    """name of the array constant defined by (length n, k-th element body): structurally equal definitions get the same
    constant, so that "the same array" (and the same SUM over it) is decided by syntactic identity"""
    import hashlib
    canon = z3.substitute(body, (k, _CANON_K))
    ns = tz(n).sexpr() if z3.is_expr(tz(n)) else str(int(n))
    # (AST ids are not stable: a term that was freed and is rebuilt gets a new id; the printed form is)
    return "%s#%s" % (prefix, hashlib.md5((ns + "|" + canon.sexpr()).encode()).hexdigest()[:16])


def mk_seq(interp, n, k, body, kind, ekind, nbody=None):
    """sequence of length n whose k-th element is `body` (a z3 term over the bound constant k): a named array constant with
    its definitional axiom in the path condition and the definition kept for eager beta reduction"""
    ctx = interp.ctx
    if os.environ.get("PYVC_LAMBDA"):
        return SSeq(n, z3.Lambda([k], body), kind, ekind, z3.Lambda([k], nbody) if nbody is not None else None)
    name = defn_name("arr", n, k, body) if nbody is None else fresh("arr")
    A = z3.Const(name, z3.ArraySort(z3.IntSort(), body.sort()))
    rng = z3.And(0 <= k, k < tz(n))
    ctx._add(z3.ForAll([k], z3.Implies(rng, z3.Select(A, k) == body), patterns=[z3.Select(A, k)]))
    seq = SSeq(n, A, kind, ekind, None)
    seq.defn = (k, body)
    seq._defn_arr = A
    if nbody is not None:
        N = z3.Const(name + ".none", z3.ArraySort(z3.IntSort(), z3.BoolSort()))
        ctx._add(z3.ForAll([k], z3.Implies(rng, z3.Select(N, k) == nbody), patterns=[z3.Select(N, k)]))
        seq.none = N
        seq.defn_none = (k, nbody)
        seq._defn_none_arr = N
    return seq


def kind_of(v):
    if isinstance(v, (bool, SBool)):
        return "bool"
    if isinstance(v, (int, SInt)):
        return "int"
    if isinstance(v, (Fraction, SReal)):
        return "float"
    if isinstance(v, str):
        return "str"
    if v is None:
        return "NoneType"
    if isinstance(v, tuple):
        return "tuple"
    if isinstance(v, SRange):
        return "range"
    if isinstance(v, (SSeq, CList)):
        if v.kind == "idl":
            raise CheckerError("the type of a configuration list of unknown kind (range or list) is inspected")
        return {"list": "list", "ndarray": "np.ndarray", "tuple": "tuple"}[v.kind]
    if isinstance(v, CDict):
        return "dict"
    if isinstance(v, SObj):
        return v.cls
    if isinstance(v, SOpaque):
        return v.tag
    return "?"


SUBTYPES = {"bool": ("bool", "int"), "float": ("float", "np.float64", "np.floating"), "int": ("int",)}


class Lib:
    def __init__(self):
        self.used = set()
        self.obj_models = {}
        self.fn = {}
        for name in dir(self):
            if name.startswith("f_"):
                self.fn[name[2:].replace("__", ".")] = getattr(self, name)

    # ------------------------------------------------------------ name resolution
    def is_module(self, full):
        return full in MODULES

    def is_exc(self, full):
        return EXCS.get(full)

    def has(self, full):
        return full in self.fn or full in TYPE_NAMES

    def has_builtin(self, name):
        return name in self.fn or name in TYPE_NAMES

    def constant(self, full):
        if full in ("np.pi", "math.pi", "anp.pi"):
            return SReal(uf("pi", 0)())
        if full in ("np.nan",):
            return SOpaque("nan")
        if full in ("np.inf", "math.inf"):
            return SOpaque("inf")
        if full == "np.newaxis":
            return None
        return None

    def from_import(self, interp, spec, name, node):
        module, level = spec[0], spec[1]
        orig = spec[2] if len(spec) > 2 else name
        if level and level > 0:
            # relative import inside pyerrors: find the module file
            base = interp.module.relpath.rsplit("/", 1)[0]
            for _ in range(level - 1):
                base = base.rsplit("/", 1)[0]
            rel = base + ("/" + module.replace(".", "/") if module else "") + ".py"
            try:
                m = interp.module.registry.module(rel)
            except FileNotFoundError:
                try:
                    m = interp.module.registry.module(base + "/" + (module.replace(".", "/") + "/" if module else "") + orig + ".py")
                    return Mod("repo:" + m.relpath)
                except FileNotFoundError:
                    interp.err(node, "cannot resolve relative import %s" % (module,))
            r = m.resolve(orig)
            if r is None:
                interp.err(node, "name %s not found in %s" % (orig, rel))
            return r
        full = (module + "." + orig) if module else orig
        short = {"itertools.groupby": "itertools.groupby", "itertools.permutations": "itertools.permutations",
                 "autograd.jacobian": "autograd.jacobian", "autograd.hessian": "autograd.hessian", "autograd.grad": "autograd.grad"}.get(full, full)
        if short in self.fn:
            return LibFn(short)
        if self.is_module(short):
            return Mod(short)
        return SOpaque("import:" + full)

    def same_type(self, a, b):
        na = a.name if isinstance(a, (LibFn, ExcClass)) else (a.qual if isinstance(a, RepoClass) else None)
        nb = b.name if isinstance(b, (LibFn, ExcClass)) else (b.qual if isinstance(b, RepoClass) else None)
        return na is not None and na == nb

    def make_complex(self, re, im):
        return SObj("complex", {"real": re, "imag": im})

    # ------------------------------------------------------------ iteration
    def try_iterate_concrete(self, interp, it, node):
        if isinstance(it, SOpt):
            if interp.truth(it.isnone, node):
                raise PyRaise("TypeError", "'NoneType' object is not iterable", node)
            return self.try_iterate_concrete(interp, it.val, node)
        if isinstance(it, CList):
            return list(it.items)
        if isinstance(it, tuple):
            return list(it)
        if isinstance(it, CDict):
            return list(it.d.keys())
        if isinstance(it, str):
            return list(it)
        if isinstance(it, SRange):
            if all(isinstance(x, int) for x in (it.start, it.stop, it.step)):
                return list(range(it.start, it.stop, it.step))
            n = it.length()
            if isinstance(n, int):
                return [it.get(i) for i in range(n)]
            return None
        if isinstance(it, SSeq):
            if isinstance(it.length, int):
                return [it.get(i) for i in range(it.length)]
            return None
        if isinstance(it, SOpaque) and it.tag == "iter":
            return list(it.payload)
        if isinstance(it, SOpaque) and it.tag == "set":
            return list(it.payload)       # iteration order of a set is unspecified: callers must not depend on it
        return None

    def iterate_concrete(self, interp, it, node):
        r = self.try_iterate_concrete(interp, it, node)
        if r is None:
            interp.err(node, "iteration over a value of symbolic length (%r) where a concrete one is needed" % (it,))
        return r

    def symbolic_iter(self, interp, it, node):
        if isinstance(it, SRange):
            return it.length(), it.get
        if isinstance(it, SSeq):
            return it.length, it.get
        if isinstance(it, SOpaque) and it.tag == "enumerate":
            n, g = self.symbolic_iter(interp, it.payload, node)
            return n, (lambda k: (k, g(k)))
        interp.err(node, "cannot iterate over %r" % (it,))

    def try_summarize_loop(self, interp, node, env, n, getter):
        """`for t in <symbolic range>: ... L.append(e) ...` where every path through the body appends exactly once to
        one local list and changes nothing else: the loop is the map  L += [elem(t) for t in range]  with
        elem(t) = ite over the body paths.  The summary is exact (no invariant needed); exceptions inside the body
        become safe.* obligations (they must be unreachable for every t)."""
        muts = mutated_exprs(node.body)
        if not muts or any(m[0] != "append" or not isinstance(m[1], ast.Name) for m in muts):
            return False
        lname = muts[0][1].id
        if any(m[1].id != lname for m in muts):
            return False
        for sub in ast.walk(ast.Module(body=node.body, type_ignores=[])):
            if isinstance(sub, (ast.Break, ast.Return, ast.While)):
                return False
        try:
            L = env.lookup(lname)
        except KeyError:
            return False
        if not isinstance(L, (CList, SSeq)) or L.kind != "list":
            return False
        ctx = interp.ctx
        k = z3.Int(fresh("lt"))
        saved_vars = dict(env.vars)
        log = []
        ctx.summary.append((L, log))
        try:
            with ctx.scope():
                ctx.assume(And(compare("<=", 0, SInt(k)), compare("<", SInt(k), n)))

                def thunk():
                    del log[:]
                    env.vars.clear()
                    env.vars.update(saved_vars)
                    interp.assign(node.target, getter(SInt(k)), env, node)
                    interp.exec_block(node.body, env)
                    return list(log)
                paths = ctx.explore_local(thunk)
                elems = []
                for conds, outcome, val in paths:
                    cond = z3.And(*conds) if conds else z3.BoolVal(True)
                    if outcome == "raise":
                        e = val
                        with ctx.scope():
                            ctx._add(cond)
                            try:
                                ctx.oblige("safe", "%s@L%s" % (e.cls, getattr(e.node, "lineno", "?")), False, e.node)
                            except PathEnd:
                                pass
                        continue
                    if outcome == "continue":
                        val = list(log) if val is None else val
                    if outcome not in ("normal", "continue") or val is None or len(val) != 1:
                        interp.err(node, "loop over a symbolic range is not a one-append-per-iteration map; it needs an invariant")
                    elems.append((cond, val[0]))
        finally:
            ctx.summary.pop()
            env.vars.clear()
            env.vars.update(saved_vars)
        if not elems:
            interp.err(node, "no feasible path through the loop body")
        # merge the path values: ite chain
        cur = elems[-1][1]
        for cond, v in reversed(elems[:-1]):
            cur = self.merge_values(interp, wrap(cond), v, cur, node)
        new = self.lambda_seq(interp, n, k, cur, "list", node)
        merged = self.concat(interp, [L, new], "list", node) if not (isinstance(Len(L), int) and Len(L) == 0) else new
        if isinstance(merged, SSeq) and getattr(new, "wrapk", None):
            merged.wrapk = new.wrapk
        env.set_nonlocal(lname, merged) if lname not in env.vars else env.set(lname, merged)
        for nm in assigned_names(node.body) + assigned_names([node.target]):
            if nm != lname:
                env.set(nm, Poison("assigned inside a summarised loop"))
        return True

    def merge_values(self, interp, cond, a, b, node):
        """ite(cond, a, b) on values (scalars, options, wrapped observables)"""
        return Ite(cond, a, b)

    # ------------------------------------------------------------ comprehensions
    def comprehension(self, interp, node, env, kind):
        gens = node.generators
        out = []

        def rec(gi, e):
            if gi == len(gens):
                out.append(interp.eval(node.elt, e))
                return
            g = gens[gi]
            it = interp.eval(g.iter, e)
            items = self.try_iterate_concrete(interp, it, node)
            if items is None:
                raise _SymbolicComp(gi, it)
            for x in items:
                e2 = Env(e)
                interp.assign(g.target, x, e2, node)
                ok = True
                for cond in g.ifs:
                    if not interp.truth(interp.eval(cond, e2), node):
                        ok = False
                        break
                if ok:
                    rec(gi + 1, e2)

        try:
            rec(0, Env(env))
        except _SymbolicComp as sc:
            if len(gens) != 1 or sc.gi != 0:
                interp.err(node, "nested comprehension over a symbolic iterable")
            return self.symbolic_comprehension(interp, node, env, sc.it)
        return CList(out, "list")

    def symbolic_comprehension(self, interp, node, env, it):
        g = node.generators[0]
        if g.ifs:
            interp.err(node, "filtered comprehension over a symbolic iterable")
        n, getter = self.symbolic_iter(interp, it, node)
        ctx = interp.ctx
        k = z3.Int(fresh("ci"))
        with ctx.scope():
            ctx.assume(And(compare("<=", 0, SInt(k)), compare("<", SInt(k), n)))

            def thunk():
                e2 = Env(env)
                interp.assign(g.target, getter(SInt(k)), e2, node)
                return interp.eval(node.elt, e2)
            saved = ctx.nofork
            ctx.nofork = 0
            try:
                v = self.merge_paths(interp, ctx.explore_local(thunk), node)
            finally:
                ctx.nofork = saved
        return self.lambda_seq(interp, n, k, v, "list", node)

    def merge_paths(self, interp, paths, node):
        """value of an expression evaluated along several local paths: ite over the path conditions; a raising path
        becomes a safe.* obligation (it must be unreachable)"""
        ctx = interp.ctx
        vals = []
        for conds, outcome, val in paths:
            cond = z3.And(*conds) if conds else z3.BoolVal(True)
            if outcome == "raise":
                with ctx.scope():
                    ctx._add(cond)
                    try:
                        ctx.oblige("safe", "%s@L%s" % (val.cls, getattr(val.node, "lineno", "?")), False, val.node)
                    except PathEnd:
                        pass
                continue
            if outcome != "normal":
                interp.err(node, "control flow inside an element expression")
            vals.append((cond, val))
        if not vals:
            interp.err(node, "no feasible path through an element expression")
        cur = vals[-1][1]
        for cond, v in reversed(vals[:-1]):
            cur = self.merge_values(interp, wrap(cond), v, cur, node)
        return cur

    def lambda_seq(self, interp, n, k, v, kind, node):
        """the sequence [v(k) for k in range(n)]: a *named* array constant with a definitional axiom (so that it can be an
        argument of SUM etc. without lambda terms reaching the solver); element reads are beta-reduced eagerly"""
        none = None
        nbody = None
        if isinstance(v, SOpt):
            nbody = tb(v.isnone)
            v = v.val if v.val is not None else Fraction(0)
        if isinstance(v, (int, SInt)) and not isinstance(v, bool):
            ek, body = "int", tz(v)
        elif isinstance(v, (Fraction, SReal)):
            ek, body = "real", treal(v)
        elif isinstance(v, (bool, SBool)):
            ek, body = "bool", tb(v)
        else:
            interp.err(node, "comprehension element of kind %s over a symbolic iterable" % type(v).__name__)
        ctx = interp.ctx
        name = defn_name("lam", n, k, body) if nbody is None else fresh("lam")
        if os.environ.get("PYVC_LAMBDA"):
            seq = SSeq(n, z3.Lambda([k], body), kind, ek, z3.Lambda([k], nbody) if nbody is not None else None)
            return seq
        A = z3.Const(name, z3.ArraySort(z3.IntSort(), body.sort()))
        rng = z3.And(0 <= k, k < tz(n))
        ctx._add(z3.ForAll([k], z3.Implies(rng, z3.Select(A, k) == body), patterns=[z3.Select(A, k)]))
        seq = SSeq(n, A, kind, ek, None)
        seq.defn = (k, body)
        seq._defn_arr = A
        if nbody is not None:
            N = z3.Const(name + ".none", z3.ArraySort(z3.IntSort(), z3.BoolSort()))
            ctx._add(z3.ForAll([k], z3.Implies(rng, z3.Select(N, k) == nbody), patterns=[z3.Select(N, k)]))
            seq.none = N
            seq.defn_none = (k, nbody)
            seq._defn_none_arr = N
        return seq

    def dict_comprehension(self, interp, node, env):
        d = CDict()
        g = node.generators[0]
        if len(node.generators) != 1:
            interp.err(node, "nested dict comprehension")
        it = interp.eval(g.iter, env)
        for x in self.iterate_concrete(interp, it, node):
            e2 = Env(env)
            interp.assign(g.target, x, e2, node)
            if all(interp.truth(interp.eval(c, e2), node) for c in g.ifs):
                d.d[self.dict_key(interp, interp.eval(node.key, e2), node)] = interp.eval(node.value, e2)
        return d

    def dict_key(self, interp, k, node):
        if isinstance(k, (str, int, bool, tuple, Fraction)) or k is None:
            return k
        interp.err(node, "dict key must be concrete, got %r" % (k,))

    def make_set(self, interp, items, node):
        return SOpaque("set", list(items))

    # ------------------------------------------------------------ attribute access on non-objects
    def getattr(self, interp, obj, attr, node):
        if isinstance(obj, SRange):
            if attr in ("start", "stop", "step"):
                return getattr(obj, attr)
        if isinstance(obj, (SSeq, CList)):
            if attr == "shape":
                return (Len(obj),)
            if attr == "size":
                return Len(obj)
            if attr == "ndim":
                return 1
            if attr == "T":
                return obj
        if isinstance(obj, SObj) and obj.cls == "complex" and attr in ("real", "imag"):
            return obj.attrs[attr]
        if isinstance(obj, LibFn) and obj.name == "set" and attr in ("intersection", "union"):
            return LibFn("set." + attr)
        if isinstance(obj, (int, Fraction, SInt, SReal)) and not isinstance(obj, bool):
            if attr == "real":
                return obj
            if attr == "imag":
                return 0
        return NotImplemented

    # ------------------------------------------------------------ indexing
    def norm_index(self, interp, n, i, node, what="index"):
        """Python index normalisation with IndexError outcome; returns the non-negative index"""
        ctx = interp.ctx
        if isinstance(i, bool):
            i = int(i)
        if isinstance(i, int) and isinstance(n, int):
            if -n <= i < n:
                return i + n if i < 0 else i
            raise PyRaise("IndexError", what, node)
        if isinstance(i, int):
            if i >= 0:
                ok = compare("<", i, n)
                j = i
            else:
                ok = compare("<=", -i, n)
                j = arith("+", n, i)
        else:
            if not isinstance(i, SInt):
                interp.err(node, "index of kind %s" % type(i).__name__)
            ok = And(compare("<", i, n), compare(">=", i, arith("-", 0, n)))
            j = Ite(compare("<", i, 0), arith("+", i, n), i)
        if ok is not True:
            if ok is False or not ctx.decide(tb(ok), "IndexError", node):
                raise PyRaise("IndexError", what, node)
        if not isinstance(i, int):
            # after the bounds decision try to simplify the common non-negative case
            nonneg = compare(">=", i, 0)
            if ctx.implied(tb(nonneg)):
                return i
        return j

    def getitem(self, interp, obj, idx, node):
        if isinstance(idx, tuple) and len(idx) == 0 and isinstance(obj, SCALAR):
            return obj      # numpy scalar[()] is the scalar itself
        if isinstance(obj, SSeq):
            if isinstance(idx, (int, SInt)):
                j = self.norm_index(interp, obj.length, idx, node)
                return obj.get(j)
            if isinstance(idx, (SSeq, CList)):
                return self.fancy_index(interp, obj, idx, node)
        if isinstance(obj, CList):
            if isinstance(idx, int):
                j = self.norm_index(interp, len(obj.items), idx, node)
                return obj.items[j]
            if isinstance(idx, SInt):
                j = self.norm_index(interp, len(obj.items), idx, node)
                if not all(isinstance(x, SCALAR + (SOpt,)) or x is None for x in obj.items):
                    # fork on the index value
                    for k in range(len(obj.items)):
                        if k == len(obj.items) - 1 or interp.ctx.branch(tb(compare("==", j, k))):
                            return obj.items[k]
                return At(CList([x if not (x is None) else SOpt(True, None) for x in obj.items]), j) if any(x is None for x in obj.items) else At(obj, j)
            if isinstance(idx, (SSeq, CList)):
                return self.fancy_index(interp, obj, idx, node)
            if isinstance(idx, tuple) and obj.kind == "ndarray":
                cur = obj
                for ix in idx:
                    cur = self.getitem(interp, cur, ix, node)
                return cur
        if isinstance(obj, tuple):
            if isinstance(idx, int):
                if -len(obj) <= idx < len(obj):
                    return obj[idx]
                raise PyRaise("IndexError", node=node)
            if isinstance(idx, SInt):
                return self.getitem(interp, CList(list(obj), "tuple"), idx, node)
        if isinstance(obj, SRange):
            if isinstance(idx, (int, SInt)):
                j = self.norm_index(interp, obj.length(), idx, node)
                return obj.get(j)
        if isinstance(obj, CDict):
            k = self.dict_key(interp, idx, node)
            if k in obj.d:
                v = obj.d[k]
                if isinstance(v, Poison):
                    interp.err(node, "read of dict entry %r: %s" % (k, v.why))
                return v
            raise PyRaise("KeyError", repr(k), node)
        if isinstance(obj, str):
            if isinstance(idx, int):
                try:
                    return obj[idx]
                except IndexError:
                    raise PyRaise("IndexError", node=node)
        if isinstance(obj, SOpt):
            if interp.truth(obj.isnone if not isinstance(obj.isnone, bool) else obj.isnone, node):
                raise PyRaise("TypeError", "'NoneType' object is not subscriptable", node)
            return self.getitem(interp, obj.val, idx, node)
        if obj is None:
            raise PyRaise("TypeError", "'NoneType' object is not subscriptable", node)
        r = self.getitem_ext(interp, obj, idx, node)
        if r is not NotImplemented:
            return r
        if isinstance(obj, SObj):
            r = self.dunder(interp, obj, "__getitem__", [idx], node)
            if r is not NotImplemented:
                return r
        interp.err(node, "subscript of %s with %s" % (type(obj).__name__, type(idx).__name__))

    def getitem_ext(self, interp, obj, idx, node):
        if isinstance(obj, SOpaque) and obj.tag == "unique" and idx == 0:
            n = self.unique_len(interp, obj, node)
            if not interp.ctx.decide(tb(compare(">", n, 0)), "IndexError", node):
                raise PyRaise("IndexError", node=node)
            return self.seq_minmax(interp, obj.payload, "<", node)
        return NotImplemented

    def fancy_index(self, interp, obj, idx, node):
        """a[indices] / a[mask] with an integer index array: gather"""
        n = Len(idx)
        ek = idx.ekind if isinstance(idx, SSeq) else None
        if isinstance(idx, CList):
            return CList([self.getitem(interp, obj, i, node) for i in idx.items], "ndarray")
        if ek != "int":
            interp.err(node, "boolean mask read")
        k = z3.Int(fresh("fi"))
        ctx = interp.ctx
        with ctx.scope():
            ctx.assume(And(compare("<=", 0, SInt(k)), compare("<", SInt(k), n)))
            ctx.nofork += 1
            try:
                v = self.getitem(interp, obj, idx.get(SInt(k)), node)
            finally:
                ctx.nofork -= 1
        return self.lambda_seq(interp, n, k, v, "ndarray", node)

    def slice_bounds(self, interp, n, lo, hi, st, node):
        """normalised (start, stop) for a step 1 slice; Python clamps"""
        def norm(x, default):
            if x is None:
                return default
            if isinstance(x, int) and isinstance(n, int):
                if x < 0:
                    x += n
                return min(max(x, 0), n)
            neg = compare("<", x, 0)
            y = Ite(neg, arith("+", x, n), x)
            y = Ite(compare("<", y, 0), 0, y)
            y = Ite(compare(">", y, n), n, y)
            return y
        return norm(lo, 0), norm(hi, n)

    def getslice(self, interp, obj, lo, hi, st, node):
        if isinstance(obj, SOpt):
            if interp.truth(obj.isnone, node):
                raise PyRaise("TypeError", "'NoneType' object is not subscriptable", node)
            obj = obj.val
        if isinstance(obj, str):
            if all(x is None or isinstance(x, int) for x in (lo, hi, st)):
                return obj[lo:hi:st]
        if isinstance(obj, tuple):
            if all(x is None or isinstance(x, int) for x in (lo, hi, st)):
                return obj[lo:hi:st]
        if isinstance(obj, CList) and all(x is None or isinstance(x, int) for x in (lo, hi, st)):
            return CList(obj.items[lo:hi:st], obj.kind, obj.ekind)
        if isinstance(obj, SRange) and all(isinstance(x, int) for x in (obj.start, obj.stop, obj.step)) and all(x is None or isinstance(x, int) for x in (lo, hi, st)):
            r = range(obj.start, obj.stop, obj.step)[lo:hi:st]
            return SRange(r.start, r.stop, r.step)
        if isinstance(obj, (SSeq, CList)):
            if isinstance(obj, CList):
                obj = self.to_sseq(interp, obj, node)
            n = obj.length
            if st is None or (isinstance(st, int) and st == 1):
                a, b = self.slice_bounds(interp, n, lo, hi, st, node)
                ln = Ite(compare(">", b, a), arith("-", b, a), 0)
                k = z3.Int(fresh("sl"))
                out = mk_seq(interp, ln, k, _ssel(obj, 'arr', k + tz(a)), obj.kind, obj.ekind,
                             _ssel(obj, 'none', k + tz(a)) if obj.none is not None else None)
                out.slice_of = (obj.arr, obj.length, a, b)
                return out
            if isinstance(st, int) and st > 1 and (lo is None or isinstance(lo, (int, SInt))) and hi is None:
                a, b = self.slice_bounds(interp, n, lo, hi, None, node)
                ln = Ite(compare(">", b, a), arith("+", arith("//", arith("-", arith("-", b, a), 1), st), 1), 0)
                k = z3.Int(fresh("sl"))
                return mk_seq(interp, ln, k, _ssel(obj, 'arr', k * st + tz(a)), obj.kind, obj.ekind,
                              _ssel(obj, 'none', k * st + tz(a)) if obj.none is not None else None)
            if isinstance(st, SInt) and hi is None:
                # a[lo::st] with a symbolic positive step: k-th element is a[lo + k*st]
                ctx = interp.ctx
                if not ctx.implied(tb(compare(">=", st, 1))):
                    interp.err(node, "slice step not provably positive")
                a, b = self.slice_bounds(interp, n, lo, hi, None, node)
                ln = Ite(compare(">", b, a), arith("+", arith("//", arith("-", arith("-", b, a), 1), st), 1), 0)
                k = z3.Int(fresh("sl"))
                idx = tz(arith("+", a, arith("*", SInt(k), st)))
                return mk_seq(interp, ln, k, _ssel(obj, 'arr', idx), obj.kind, obj.ekind,
                              _ssel(obj, 'none', idx) if obj.none is not None else None)
            if st == -1:
                # a[lo:hi:-1]
                nm1 = arith("-", n, 1)

                def normr(x, default):
                    if x is None:
                        return default
                    y = Ite(compare("<", x, 0), arith("+", x, n), x)
                    y = Ite(compare("<", y, -1), -1, y)
                    y = Ite(compare(">", y, nm1), nm1, y)
                    return y
                a = normr(lo, nm1)
                b = normr(hi, -1)
                if hi is not None and isinstance(hi, int) and hi < 0:
                    pass
                ln = Ite(compare(">", a, b), arith("-", a, b), 0)
                k = z3.Int(fresh("sl"))
                out = mk_seq(interp, ln, k, _ssel(obj, 'arr', tz(a) - k), obj.kind, obj.ekind,
                             _ssel(obj, 'none', tz(a) - k) if obj.none is not None else None)
                # the reversal is a bijection: state the inverse direction too (trigger on the source array), so that a fact
                # about one source entry reaches the corresponding entry of the reversed sequence
                j = z3.Int(fresh("rv"))
                inr = z3.And(0 <= tz(a) - j, tz(a) - j < tz(ln))
                if z3.is_const(obj.arr) and obj.arr.decl().kind() == z3.Z3_OP_UNINTERPRETED:
                    interp.ctx._add(z3.ForAll([j], z3.Implies(inr, z3.Select(obj.arr, j) == z3.Select(out.arr, tz(a) - j)),
                                              patterns=[z3.Select(obj.arr, j)]))
                if obj.none is not None and z3.is_const(obj.none) and obj.none.decl().kind() == z3.Z3_OP_UNINTERPRETED:
                    interp.ctx._add(z3.ForAll([j], z3.Implies(inr, z3.Select(obj.none, j) == z3.Select(out.none, tz(a) - j)),
                                              patterns=[z3.Select(obj.none, j)]))
                return out
        interp.err(node, "slice %r[%r:%r:%r]" % (type(obj).__name__, lo, hi, st))

    def to_sseq(self, interp, cl, node):
        """CList of scalars -> SSeq with concrete length (array built by stores)"""
        items = cl.items
        opt = any(x is None or isinstance(x, SOpt) for x in items)
        vals = [(x.val if isinstance(x, SOpt) else x) for x in items]
        vals = [Fraction(0) if v is None else v for v in vals]
        if all(isinstance(v, (int, SInt)) and not isinstance(v, bool) for v in vals) and (vals or cl.ekind == "int"):
            ek, srt, conv = "int", z3.IntSort(), tz
        elif all(isinstance(v, (int, Fraction, SInt, SReal)) and not isinstance(v, bool) for v in vals):
            ek, srt, conv = "real", z3.RealSort(), treal
        elif all(isinstance(v, (bool, SBool)) for v in vals):
            ek, srt, conv = "bool", z3.BoolSort(), tb
        else:
            interp.err(node, "list with non-scalar elements used as an array")
        arr = z3.K(z3.IntSort(), conv(0 if ek != "bool" else False))
        for i, v in enumerate(vals):
            arr = z3.Store(arr, i, conv(v))
        none = None
        if opt:
            none = z3.K(z3.IntSort(), z3.BoolVal(False))
            for i, x in enumerate(items):
                isn = True if x is None else (x.isnone if isinstance(x, SOpt) else False)
                none = z3.Store(none, i, tb(isn))
        return SSeq(len(items), arr, cl.kind, ek, none)

    def check_writable(self, interp, obj, node):
        if getattr(obj, "frozen", False):
            interp.ctx.oblige("frame.write", "store@L%s" % getattr(node, "lineno", "?"), False, node)

    def setitem(self, interp, obj, idx, v, node):
        self.check_writable(interp, obj, node)
        if isinstance(obj, SSeq):
            if isinstance(idx, (int, SInt)):
                j = self.norm_index(interp, obj.length, idx, node, "store index")
                if isinstance(v, SOpt) or v is None:
                    if obj.none is None:
                        obj.none = z3.K(z3.IntSort(), z3.BoolVal(False))
                    isn = True if v is None else v.isnone
                    obj.none = z3.Store(obj.none, tz(j), tb(isn))
                    v = Fraction(0) if v is None or v.val is None else v.val
                elif obj.none is not None:
                    obj.none = z3.Store(obj.none, tz(j), z3.BoolVal(False))
                if obj.ekind == "opaque":
                    return      # only the length of such a list is tracked
                conv = {"int": tz, "real": treal, "bool": tb}[obj.ekind]
                if obj.ekind == "int" and isinstance(v, (Fraction, SReal)):
                    interp.err(node, "float stored into an int array")
                obj.arr = z3.Store(obj.arr, tz(j), conv(v))
                return
            if isinstance(idx, SSeq) and idx.ekind == "bool":
                # a[mask] = scalar
                if not isinstance(v, SCALAR):
                    interp.err(node, "masked store of a non-scalar")
                k = z3.Int(fresh("ms"))
                conv = {"int": tz, "real": treal, "bool": tb}[obj.ekind]
                obj.arr = z3.Lambda([k], z3.If(_ssel(idx, 'arr', k), conv(v), _ssel(obj, 'arr', k)))
                return
        if isinstance(obj, CList):
            if isinstance(idx, int):
                j = self.norm_index(interp, len(obj.items), idx, node, "store index")
                obj.items[j] = v
                return
            if isinstance(idx, SInt):
                j = self.norm_index(interp, len(obj.items), idx, node, "store index")
                for k in range(len(obj.items)):
                    obj.items[k] = Ite(compare("==", j, k), v, obj.items[k]) if isinstance(obj.items[k], SCALAR) and isinstance(v, SCALAR) else self._fork_store(interp, obj, j, k, v, node)
                return
            if isinstance(idx, CList) and idx.ekind == "bool" or (isinstance(idx, CList) and all(isinstance(x, (bool, SBool)) for x in idx.items) and idx.items):
                for k in range(len(obj.items)):
                    obj.items[k] = Ite(idx.items[k], v, obj.items[k])
                return
            if isinstance(idx, tuple) and len(idx) == 2 and all(isinstance(i, int) for i in idx):
                row = obj.items[idx[0]]
                if isinstance(row, CList):
                    row.items[idx[1]] = v
                    return
        if isinstance(obj, CDict):
            obj.d[self.dict_key(interp, idx, node)] = v
            return
        if obj is None or isinstance(obj, SOpt):
            if obj is None or interp.truth(obj.isnone, node):
                raise PyRaise("TypeError", "'NoneType' object does not support item assignment", node)
            return self.setitem(interp, obj.val, idx, v, node)
        interp.err(node, "store into %s[%s]" % (type(obj).__name__, type(idx).__name__))

    def _fork_store(self, interp, obj, j, k, v, node):
        if interp.ctx.branch(tb(compare("==", j, k))):
            return v
        return obj.items[k]

    def setslice(self, interp, obj, lo, hi, st, v, node):
        self.check_writable(interp, obj, node)
        if isinstance(obj, SSeq) and (st is None or st == 1):
            a, b = self.slice_bounds(interp, obj.length, lo, hi, st, node)
            k = z3.Int(fresh("ss"))
            conv = {"int": tz, "real": treal, "bool": tb}[obj.ekind]
            inside = z3.And(tz(a) <= k, k < tz(b))
            if isinstance(v, SCALAR):
                newv = conv(v)
            elif isinstance(v, (SSeq, CList)):
                if isinstance(v, CList):
                    v = self.to_sseq(interp, v, node)
                # numpy requires matching length (or broadcast of length 1)
                ln = Ite(compare(">", b, a), arith("-", b, a), 0)
                same = compare("==", v.length, ln)
                if same is not True:
                    if same is False or not interp.ctx.decide(tb(same), "ValueError", node):
                        raise PyRaise("ValueError", "could not broadcast", node)
                newv = _ssel(v, 'arr', k - tz(a))
                if obj.ekind == "real" and v.ekind == "int":
                    newv = z3.ToReal(newv)
            else:
                interp.err(node, "slice store of %r" % (v,))
            obj.arr = z3.Lambda([k], z3.If(inside, newv, _ssel(obj, 'arr', k)))
            return
        if isinstance(obj, CList) and all(x is None or isinstance(x, int) for x in (lo, hi, st)):
            idxs = list(range(len(obj.items)))[lo:hi:st]
            if isinstance(v, SCALAR):
                for i in idxs:
                    obj.items[i] = v
                return
            vals = self.iterate_concrete(interp, v, node)
            if obj.kind == "ndarray" and len(vals) != len(idxs):
                raise PyRaise("ValueError", "could not broadcast", node)
            if st is None and obj.kind == "list":
                obj.items[lo:hi] = vals
                return
            for i, x in zip(idxs, vals):
                obj.items[i] = x
            return
        interp.err(node, "slice store into %r" % (obj,))

    # ------------------------------------------------------------ operators on containers
    def elementwise(self, interp, f, a, b, node, kind="ndarray"):
        """vectorised binary op; a or b may be scalars"""
        sa, sb = isinstance(a, (SSeq, CList)), isinstance(b, (SSeq, CList))
        if sa and sb:
            na, nb = Len(a), Len(b)
            same = compare("==", na, nb)
            if same is not True:
                if same is False:
                    if na == 1 or nb == 1:
                        interp.err(node, "broadcast of length-1 arrays")
                    raise PyRaise("ValueError", "operands could not be broadcast together", node)
                if not interp.ctx.decide(tb(same), "ValueError", node):
                    raise PyRaise("ValueError", "operands could not be broadcast together", node)
        if isinstance(a, CList) and (not sb or isinstance(b, CList)):
            items = [f(x, (b.items[i] if sb else b)) for i, x in enumerate(a.items)]
            return CList(items, kind)
        if isinstance(b, CList) and not sa:
            return CList([f(a, y) for y in b.items], kind)
        if isinstance(a, CList):
            a = self.to_sseq(interp, a, node)
        if isinstance(b, CList):
            b = self.to_sseq(interp, b, node)
        n = a.length if sa else b.length
        k = z3.Int(fresh("ew"))
        x = a.get(SInt(k)) if sa else a
        y = b.get(SInt(k)) if sb else b
        v = f(x, y)
        return self.lambda_seq(interp, n, k, v, kind, node)

    def binop(self, interp, op, a, b, node):
        if isinstance(a, SOpt) or isinstance(b, SOpt) or a is None or b is None:
            for x in (a, b):
                if x is None or (isinstance(x, SOpt) and interp.truth(x.isnone, node)):
                    raise PyRaise("TypeError", "unsupported operand type(s): 'NoneType'", node)
            a = a.val if isinstance(a, SOpt) else a
            b = b.val if isinstance(b, SOpt) else b
            return interp.binop(op, a, b, node)
        la = isinstance(a, (SSeq, CList))
        lb = isinstance(b, (SSeq, CList))
        if la and a.kind in ("list", "tuple") and op == "+" and lb and b.kind == a.kind:
            return self.concat(interp, [a, b], a.kind, node)
        if op == "*" and ((la and a.kind == "list" and isinstance(b, (int, SInt))) or (lb and b.kind == "list" and isinstance(a, (int, SInt)))):
            lst, cnt = (a, b) if la else (b, a)
            if isinstance(lst, CList) and isinstance(cnt, int):
                return CList(lst.items * cnt, "list", lst.ekind)
            if isinstance(lst, CList) and len(lst.items) == 1 and isinstance(lst.items[0], SCALAR + (type(None),)):
                x = lst.items[0]
                n = Ite(compare(">", cnt, 0), cnt, 0)
                k = z3.Int(fresh("rp"))
                return self.lambda_seq(interp, n, k, SOpt(True, None) if x is None else x, "list", node)
            interp.err(node, "list repetition with symbolic count")
        if isinstance(a, tuple) and isinstance(b, tuple) and op == "+":
            return a + b
        if isinstance(a, str) and isinstance(b, str) and op == "+":
            return a + b
        if isinstance(a, str) and op == "%":
            return SOpaque("str")
        if op == "*" and ((isinstance(a, str) and isinstance(b, SInt)) or (isinstance(a, SOpaque) and a.tag == "fmt")):
            return self.binop_ext(interp, op, a, b, node)
        if op == "*" and isinstance(a, str) and isinstance(b, int):
            return a * b
        if isinstance(a, (str, SOpaque)) and isinstance(b, (str, SOpaque)) and op == "+":
            return SOpaque("str")
        if op == "@":
            return self.matmul(interp, a, b, node)
        if (la and a.kind == "ndarray") or (lb and b.kind == "ndarray"):
            if (la and a.kind != "ndarray" and not isinstance(b, SCALAR)) or (lb and b.kind != "ndarray" and not isinstance(a, SCALAR)):
                pass  # numpy coerces lists
            return self.elementwise(interp, lambda x, y: interp.binop(op, x, y, node), a, b, node)
        r = self.binop_ext(interp, op, a, b, node)
        return r

    DUNDER = {"+": ("__add__", "__radd__"), "-": ("__sub__", "__rsub__"), "*": ("__mul__", "__rmul__"),
              "/": ("__truediv__", "__rtruediv__"), "**": ("__pow__", "__rpow__"), "@": ("__matmul__", "__rmatmul__")}

    def dunder(self, interp, obj, name, args, node):
        """call a special method defined in the repository class of obj (Python operator dispatch)"""
        from .interp import NOT_IMPLEMENTED
        if not isinstance(obj, SObj):
            return NotImplemented
        cm = interp.module.class_member(obj.cls, name) or self._class_member_any(interp, obj.cls, name)
        if cm is None or cm[0] != "method":
            return NotImplemented
        r = interp.call_repo(cm[2], cm[1], [obj] + list(args), {}, node, bound=True)
        if r is NOT_IMPLEMENTED:
            return NotImplemented
        return r

    def _class_member_any(self, interp, cls, name):
        for rel, mod in list(interp.module.registry.mods.items()):
            if cls in mod.classes:
                return mod.class_member(cls, name)
        home = {"Obs": "pyerrors/obs.py", "CObs": "pyerrors/obs.py", "Corr": "pyerrors/correlators.py", "Covobs": "pyerrors/covobs.py"}.get(cls)
        if home is not None and home not in interp.module.registry.mods:
            try:
                mod = interp.module.registry.module(home)
            except FileNotFoundError:
                return None
            if cls in mod.classes:
                return mod.class_member(cls, name)
        return None

    def binop_ext(self, interp, op, a, b, node):
        if (isinstance(a, SOpaque) and a.tag == "unpacked" and isinstance(b, SCALAR)) or \
                (isinstance(b, SOpaque) and b.tag == "unpacked" and isinstance(a, SCALAR)):
            return a if isinstance(a, SOpaque) else b
        ca = isinstance(a, SObj) and a.cls == "complex"
        cb = isinstance(b, SObj) and b.cls == "complex"
        if (ca or cb) and op in ("+", "-", "*", "/") and (ca or isinstance(a, SCALAR)) and (cb or isinstance(b, SCALAR)):
            ar, ai = (a.attrs["real"], a.attrs["imag"]) if ca else (a, 0)
            br, bi = (b.attrs["real"], b.attrs["imag"]) if cb else (b, 0)
            A_ = lambda o, x, y: arith(o, x, y)
            if op in ("+", "-"):
                return self.make_complex(A_(op, ar, br), A_(op, ai, bi))
            if op == "*":
                return self.make_complex(A_("-", A_("*", ar, br), A_("*", ai, bi)), A_("+", A_("*", ar, bi), A_("*", ai, br)))
            den = A_("+", A_("*", br, br), A_("*", bi, bi))
            return self.make_complex(A_("/", A_("+", A_("*", ar, br), A_("*", ai, bi)), den),
                                     A_("/", A_("-", A_("*", ai, br), A_("*", ar, bi)), den))
        if (ca or cb) and op == "**":
            return self.make_complex(SReal(z3.Real(fresh("cpow.re"))), SReal(z3.Real(fresh("cpow.im"))))
        sm_a = isinstance(a, SOpaque) and a.tag == "structmat"
        sm_b = isinstance(b, SOpaque) and b.tag == "structmat"
        if sm_a or sm_b:
            if sm_a and sm_b and op in ("+", "-"):
                return SOpaque("structmat", (a.payload[0], arith(op, a.payload[1], b.payload[1]), arith(op, a.payload[2], b.payload[2])))
            if op == "*" and sm_b and isinstance(a, SCALAR):
                return SOpaque("structmat", (b.payload[0], arith("*", a, b.payload[1]), arith("*", a, b.payload[2])))
            if op == "*" and sm_a and isinstance(b, SCALAR):
                return SOpaque("structmat", (a.payload[0], arith("*", b, a.payload[1]), arith("*", b, a.payload[2])))
            if op == "@" and sm_b and isinstance(a, (SSeq, CList)):
                vec = self.to_sseq(interp, a, node) if isinstance(a, CList) else a
                L, alpha, beta = b.payload
                same = compare("==", vec.length, L)
                if same is not True and (same is False or not interp.ctx.decide(tb(same), "ValueError", node)):
                    raise PyRaise("ValueError", "matmul: dimension mismatch", node)
                tot = self.seq_sum(interp, vec, node)
                k = z3.Int(fresh("mm"))
                body = treal(arith("+", arith("*", alpha, tot), arith("*", beta, wrap(_ssel(vec, 'arr', k)))))
                return mk_seq(interp, L, k, body, "ndarray", "real")
            interp.err(node, "operation %s on a structured matrix" % op)
        if op == "**" and isinstance(a, SOpaque) and a.tag == "rfft" and a.payload[2] == "abs" and b == 2:
            return SOpaque("rfft", (a.payload[0], a.payload[1], "abs2"))
        if op in ("|", "&", "-") and isinstance(a, SOpaque) and isinstance(b, SOpaque) and a.tag == "set" and b.tag == "set":
            if op == "|":
                return SOpaque("set", list(a.payload) + [x for x in b.payload if x not in a.payload])
            if op == "&":
                return SOpaque("set", [x for x in a.payload if x in b.payload])
            return SOpaque("set", [x for x in a.payload if x not in b.payload])
        if op in self.DUNDER and (isinstance(a, SObj) or isinstance(b, SObj)):
            fwd, rev = self.DUNDER[op]
            if isinstance(a, SObj):
                r = self.dunder(interp, a, fwd, [b], node)
                if r is not NotImplemented:
                    return r
            if isinstance(b, SObj):
                r = self.dunder(interp, b, rev, [a], node)
                if r is not NotImplemented:
                    return r
            raise PyRaise("TypeError", "unsupported operand type(s) for %s" % op, node)
        return NotImplemented

    def matmul(self, interp, a, b, node):
        if isinstance(b, SOpaque) and b.tag == "structmat":
            return self.binop_ext(interp, "@", a, b, node)
        if isinstance(a, (SSeq, CList)) and isinstance(b, (SSeq, CList)):
            return self.f_np__dot(interp, [a, b], {}, node)
        interp.err(node, "@ of %r and %r" % (a, b))

    def inplace(self, interp, op, cur, v, node):
        if isinstance(cur, SSeq) and cur.kind == "ndarray":
            self.check_writable(interp, cur, node)
            new = interp.binop(op, cur, v, node)
            cur.arr = new.arr
            if isinstance(new.length, int) or True:
                pass
            return cur
        if isinstance(cur, CList) and cur.kind == "ndarray":
            self.check_writable(interp, cur, node)
            new = interp.binop(op, cur, v, node)
            if isinstance(new, CList):
                cur.items = new.items
                return cur
            return new
        if isinstance(cur, CList) and cur.kind == "list" and op == "+":
            self.check_writable(interp, cur, node)
            cur.items.extend(self.iterate_concrete(interp, v, node))
            return cur
        return interp.binop(op, cur, v, node)

    def concat(self, interp, parts, kind, node):
        if all(isinstance(p, CList) for p in parts):
            return CList([x for p in parts for x in p.items], kind)
        parts = [self.to_sseq(interp, p, node) if isinstance(p, CList) else p for p in parts]
        eks = set(p.ekind for p in parts)
        if eks == {"int", "real"}:
            ek = "real"
        elif len(eks) == 1:
            ek = eks.pop()
        else:
            interp.err(node, "concatenation of mixed kinds")
        k = z3.Int(fresh("cc"))
        total = 0
        offs = []
        for p in parts:
            offs.append(total)
            total = arith("+", total, p.length)

        def sel(p, idx):
            t = _ssel(p, 'arr', idx)
            return z3.ToReal(t) if ek == "real" and p.ekind == "int" else t
        body = sel(parts[-1], k - tz(offs[-1]))
        for p, o, nxt in zip(reversed(parts[:-1]), reversed(offs[:-1]), reversed(offs[1:])):
            body = z3.If(k < tz(nxt), sel(p, k - tz(o)), body)
        none = None
        if any(p.none is not None for p in parts):
            def nsel(p, idx):
                return _ssel(p, 'none', idx) if p.none is not None else z3.BoolVal(False)
            nb = nsel(parts[-1], k - tz(offs[-1]))
            for p, o, nxt in zip(reversed(parts[:-1]), reversed(offs[:-1]), reversed(offs[1:])):
                nb = z3.If(k < tz(nxt), nsel(p, k - tz(o)), nb)
            none = nb
        return mk_seq(interp, total, k, body, kind, ek, none)

    # ------------------------------------------------------------ comparisons on non-scalars
    def seq_equal(self, interp, a, b, node):
        na, nb = Len(a), Len(b)
        same = compare("==", na, nb)
        if same is False:
            return False
        if isinstance(na, int) and isinstance(nb, int):
            return And(*[self.value_eq(interp, At(a, i), At(b, i), node) for i in range(na)])
        return And(same, ForAll(0, na, lambda k: compare("==", At(a, k), At(b, k))))

    def range_equal(self, a, b, interp=None):
        na, nb = a.length(), b.length()
        cond = And(compare("==", na, nb),
                   Or(compare("==", na, 0),
                      And(compare("==", a.start, b.start), Or(compare("==", na, 1), compare("==", a.step, b.step)))))
        if interp is not None and (a.arr is not None or b.arr is not None) and not isinstance(cond, bool):
            # lemma about arithmetic progressions (assumed): equal ranges have equal elements, and vice versa
            interp.ctx.assume(Iff(cond, And(compare("==", na, nb), ForAll(0, na, lambda i: compare("==", a.get(i), b.get(i))))))
        return cond

    def value_eq(self, interp, a, b, node):
        if isinstance(a, SCALAR) and isinstance(b, SCALAR):
            return compare("==", a, b)
        r = self.compare(interp, "==", a, b, node)
        return r

    def compare(self, interp, op, a, b, node):
        if isinstance(a, SOpt) or isinstance(b, SOpt):
            for x in (a, b):
                if isinstance(x, SOpt) and op not in ("==", "!="):
                    if interp.truth(x.isnone, node):
                        raise PyRaise("TypeError", "comparison with None", node)
            if op in ("==", "!="):
                a2 = a if isinstance(a, SOpt) else SOpt(a is None, a)
                b2 = b if isinstance(b, SOpt) else SOpt(b is None, b)
                both_none = And(a2.isnone, b2.isnone)
                inner = True if (a2.val is None or b2.val is None) else interp.compare_op(ast.Eq(), a2.val, b2.val, node)
                r = Or(both_none, And(Not(a2.isnone), Not(b2.isnone), inner))
                return r if op == "==" else Not(r)
            a = a.val if isinstance(a, SOpt) else a
            b = b.val if isinstance(b, SOpt) else b
            return interp.compare_op({"<": ast.Lt(), "<=": ast.LtE(), ">": ast.Gt(), ">=": ast.GtE()}[op], a, b, node)
        if op == "!=" and ((isinstance(a, (SSeq, CList)) and a.kind == "ndarray" and isinstance(b, SCALAR + (SSeq, CList)))
                           or (isinstance(b, (SSeq, CList)) and b.kind == "ndarray" and isinstance(a, SCALAR))):
            return self.elementwise(interp, lambda x, y: compare("!=", x, y), a, b, node)
        if op in ("==", "!="):
            r = self.equal(interp, a, b, node)
            if r is NotImplemented:
                interp.err(node, "== on %s and %s" % (type(a).__name__, type(b).__name__))
            return r if op == "==" else Not(r)
        if isinstance(a, str) and isinstance(b, str):
            return {"<": a < b, "<=": a <= b, ">": a > b, ">=": a >= b}[op]
        if isinstance(a, (SSeq, CList)) and (a.kind == "ndarray") and isinstance(b, SCALAR):
            return self.elementwise(interp, lambda x, y: compare(op, x, y), a, b, node)
        if isinstance(b, (SSeq, CList)) and (b.kind == "ndarray") and isinstance(a, SCALAR):
            return self.elementwise(interp, lambda x, y: compare(op, x, y), a, b, node)
        if isinstance(a, (SSeq, CList)) and isinstance(b, (SSeq, CList)) and a.kind == "ndarray" and b.kind == "ndarray":
            return self.elementwise(interp, lambda x, y: compare(op, x, y), a, b, node)
        r = self.compare_ext(interp, op, a, b, node)
        if r is not NotImplemented:
            return r
        if isinstance(a, SObj) or isinstance(b, SObj):
            # rich comparison methods of repository classes (forward, then reflected)
            fwd = {"<": "__lt__", "<=": "__le__", ">": "__gt__", ">=": "__ge__"}
            rev = {"<": "__gt__", "<=": "__ge__", ">": "__lt__", ">=": "__le__"}
            if isinstance(a, SObj):
                r = self.dunder(interp, a, fwd[op], [b], node)
                if r is not NotImplemented:
                    return r
            if isinstance(b, SObj):
                r = self.dunder(interp, b, rev[op], [a], node)
                if r is not NotImplemented:
                    return r
            raise PyRaise("TypeError", "ordering comparison not supported", node)
        if a is None or b is None:
            raise PyRaise("TypeError", "ordering comparison with None", node)
        interp.err(node, "%s on %s and %s" % (op, type(a).__name__, type(b).__name__))

    def compare_ext(self, interp, op, a, b, node):
        if isinstance(a, SOpaque) and a.tag == "unique" and isinstance(b, SCALAR):
            return SOpaque("uniqmask", (a.payload, op, b))
        if isinstance(a, SOpaque) and isinstance(b, SOpaque) and a.tag in ("set", "set?") and b.tag in ("set", "set?"):
            if op == "<=":
                return And(*[self.contains(interp, b, x, node) for x in a.payload]) if a.payload else True
            if op == ">=":
                return And(*[self.contains(interp, a, x, node) for x in b.payload]) if b.payload else True
        return NotImplemented

    def equal(self, interp, a, b, node):
        if a is None or b is None:
            return a is None and b is None
        if isinstance(a, str) or isinstance(b, str):
            if isinstance(a, str) and isinstance(b, str):
                return a == b
            if isinstance(a, SOpaque) or isinstance(b, SOpaque):
                interp.err(node, "== on an opaque string")
            return False
        if isinstance(a, SRange) and isinstance(b, SRange):
            return self.range_equal(a, b, interp)
        if isinstance(a, SOpaque) and a.tag == "unique" and isinstance(b, SCALAR):
            return SOpaque("uniqmask", (a.payload, "==", b))
        if isinstance(a, SRange) or isinstance(b, SRange):
            other = b if isinstance(a, SRange) else a
            if isinstance(other, (SSeq, CList)) and other.kind == "ndarray":
                interp.err(node, "range == ndarray")
            return False      # range == list is False in Python
        if isinstance(a, (SSeq, CList)) and isinstance(b, (SSeq, CList)):
            if a.kind == "ndarray" or b.kind == "ndarray":
                return self.elementwise(interp, lambda x, y: compare("==", x, y), a, b, node)
            if a.kind != b.kind:
                return False
            return self.seq_equal(interp, a, b, node)
        if isinstance(a, (SSeq, CList)) and a.kind == "ndarray" and isinstance(b, SCALAR):
            return self.elementwise(interp, lambda x, y: compare("==", x, y), a, b, node)
        if isinstance(b, (SSeq, CList)) and b.kind == "ndarray" and isinstance(a, SCALAR):
            return self.elementwise(interp, lambda x, y: compare("==", x, y), a, b, node)
        if isinstance(a, tuple) and isinstance(b, tuple):
            if len(a) != len(b):
                return False
            return And(*[self.value_eq(interp, x, y, node) for x, y in zip(a, b)])
        if isinstance(a, tuple) != isinstance(b, tuple):
            return False
        if isinstance(a, SCALAR) != isinstance(b, SCALAR):
            return False
        if isinstance(a, CDict) and isinstance(b, CDict):
            if set(a.d) != set(b.d):
                return False
            return And(*[self.value_eq(interp, a.d[k], b.d[k], node) for k in a.d])
        return NotImplemented

    def contains(self, interp, container, x, node):
        if isinstance(container, CDict):
            return self.dict_key(interp, x, node) in container.d
        if isinstance(container, (CList, tuple)):
            items = container.items if isinstance(container, CList) else container
            return Or(*[self.value_eq(interp, x, y, node) for y in items]) if items else False
        if isinstance(container, str) and isinstance(x, str):
            return x in container
        if isinstance(container, SRange):
            return member(x, container)
        if isinstance(container, SSeq):
            return member(x, container)
        if isinstance(container, SOpaque) and container.tag in ("set", "set?"):
            return Or(*[self.value_eq(interp, x, y, node) for y in container.payload]) if container.payload else False
        interp.err(node, "`in` on %r" % (container,))

    # ------------------------------------------------------------ calls
    def call(self, interp, name, args, kwargs, node):
        self.used.add(name)
        if name in TYPE_NAMES and name not in self.fn:
            interp.err(node, "call of type %s" % name)
        f = self.fn.get(name)
        if f is None:
            interp.err(node, "unmodelled library function %s" % name)
        return f(interp, args, kwargs, node)

    def method(self, interp, obj, name, args, kwargs, node):
        self.used.add("method:" + kind_of(obj) + "." + name)
        m = getattr(self, "m_" + name, None)
        if m is None:
            interp.err(node, "unmodelled method .%s on %s" % (name, kind_of(obj)))
        return m(interp, obj, args, kwargs, node)

    def construct(self, interp, cls, args, kwargs, node):
        c = interp.contracts.get(cls.qual + ".__init__")
        if interp.tc is not None and (cls.qual + ".__init__") in getattr(interp.tc, "overrides", {}):
            c = interp.tc.overrides[cls.qual + ".__init__"]
        if c is not None:
            init = interp.module.module_of(cls.qual).class_member(cls.qual.split("::")[1], "__init__")
            obj = SObj(cls.qual.split("::")[1], {})
            return interp.ctx.call_contract(interp, c, init[1], [obj] + args, kwargs, node)
        # no contract: run the real __init__ on a fresh object (small constructors such as CObs.__init__)
        mod = interp.module.module_of(cls.qual)
        init = mod.class_member(cls.qual.split("::")[1], "__init__")
        if init is not None and len(init[1].body) <= 6:
            obj = SObj(cls.qual.split("::")[1], {})
            saved = interp.module
            interp.module = mod
            try:
                env = Env(None)
                interp.bind_args(init[1], [obj] + list(args), kwargs, node, env)
                interp.run_body(init[1].body, env)
            finally:
                interp.module = saved
            return obj
        interp.err(node, "construction of %s (no contract for __init__)" % cls.qual)

    def local_class(self, interp, node, env):
        return SOpaque("localclass", node)

    # ---- builtins
    def f_len(self, interp, args, kwargs, node):
        (x,) = args
        if isinstance(x, (SSeq, CList, SRange, CDict)):
            return Len(x)
        if isinstance(x, (str, tuple)):
            return len(x)
        if isinstance(x, SOpaque) and x.tag == "set":
            return len(x.payload)
        if isinstance(x, SOpaque) and x.tag == "bytes":
            return x.payload
        if isinstance(x, SOpaque) and x.tag == "unique":
            return self.unique_len(interp, x, node)
        if x is None or isinstance(x, SOpt):
            if x is None or interp.truth(x.isnone, node):
                raise PyRaise("TypeError", "object of type 'NoneType' has no len()", node)
            return self.f_len(interp, [x.val], kwargs, node)
        interp.err(node, "len(%r)" % (x,))

    def f_range(self, interp, args, kwargs, node):
        if len(args) == 1:
            a, b, s = 0, args[0], 1
        elif len(args) == 2:
            a, b, s = args[0], args[1], 1
        else:
            a, b, s = args
        for x in (a, b, s):
            if not isinstance(x, (int, SInt)) or isinstance(x, bool):
                if isinstance(x, (Fraction, SReal)):
                    raise PyRaise("TypeError", "float cannot be interpreted as an integer", node)
                interp.err(node, "range argument %r" % (x,))
        if isinstance(s, int):
            if s == 0:
                raise PyRaise("ValueError", "range() arg 3 must not be zero", node)
            if s < 0:
                if all(isinstance(x, int) for x in (a, b)):
                    r = range(a, b, s)
                    return CList(list(r), "list", "int") if False else SRange(a, b, s)
                interp.err(node, "range with negative step and symbolic bounds")
        else:
            pos = compare(">", s, 0)
            if not interp.ctx.implied(tb(pos)):
                interp.err(node, "range step not provably positive")
        if all(isinstance(x, int) for x in (a, b, s)):
            return SRange(a, b, s)
        if isinstance(s, int) and s == 1:
            n = Ite(compare(">", b, a), arith("-", b, a), 0)
            return SRange(a, b, 1, clen=n)
        return self.symbolic_range(interp, a, b, s, node)

    def symbolic_range(self, interp, a, b, s, node):
        """range(a, b, s), s >= 1, symbolic: assumed facts about the Python range object (linear form)"""
        from .sym import sym_range, range_axioms
        ctx = interp.ctx
        n = SInt(z3.Int(fresh("rng.n")))
        r = sym_range("rng", a, s, n)
        r.stop = b
        for ax in range_axioms(r):
            ctx.assume(wrap(ax))
        last = r.get(arith("-", n, 1))
        ctx.assume(Implies(compare("<=", b, a), compare("==", n, 0)))
        ctx.assume(Implies(compare(">", b, a), And(compare(">=", n, 1), compare("<", last, b), compare("<=", b, arith("+", last, s)))))
        return r

    def f_isinstance(self, interp, args, kwargs, node):
        v, t = args
        ts = t if isinstance(t, tuple) else (t,)
        kv = kind_of(v)
        if isinstance(v, SOpt):
            if interp.truth(v.isnone, node):
                kv = "NoneType"
            else:
                kv = kind_of(v.val)
                v = v.val
        for tt in ts:
            if isinstance(tt, LibFn):
                nm = tt.name
                if nm in SUBTYPES.get(kv, (kv,)):
                    return True
                if nm == "np.ndarray" and kv == "np.ndarray":
                    return True
                if nm == "object":
                    return True
            elif isinstance(tt, RepoClass):
                if isinstance(v, SObj) and (v.cls == tt.qual.split("::")[1] or v.cls == tt.qual):
                    return True
            elif isinstance(tt, ExcClass):
                pass
            elif isinstance(tt, SOpaque):
                interp.err(node, "isinstance against an unknown type %s" % tt.tag)
            else:
                interp.err(node, "isinstance against %r" % (tt,))
        return False

    def f_type(self, interp, args, kwargs, node):
        (v,) = args
        k = kind_of(v)
        if isinstance(v, SObj):
            return SOpaque("type:" + v.cls)
        return LibFn(k)

    def f_hasattr(self, interp, args, kwargs, node):
        o, a = args
        if isinstance(o, SObj):
            if a in o.attrs:
                return not isinstance(o.attrs[a], _Absent)
            if interp.module.class_member(o.cls, a) is not None:
                return True
            if o.cls == "complex":
                return a in ("real", "imag")
            return False
        if isinstance(o, (int, Fraction, SInt, SReal)):
            return a in ("real", "imag")
        if isinstance(o, (SSeq, CList)):
            return a in ("shape", "real", "imag", "size", "ndim", "T") if o.kind == "ndarray" else False
        if o is None or isinstance(o, str):
            return False
        interp.err(node, "hasattr(%r, %r)" % (o, a))

    def f_getattr(self, interp, args, kwargs, node):
        o, a = args[0], args[1]
        if not isinstance(a, str):
            interp.err(node, "getattr with symbolic name")
        if isinstance(o, RepoClass):
            cm = interp.module.class_member(o.qual, a)
            if cm is None or cm[0] != "classattr":
                interp.err(node, "getattr(%s, %s)" % (o.qual, a))
            return interp.ctx.class_attr(interp, o.qual, a, cm[1])
        try:
            return interp.getattr(o, a, node)
        except PyRaise as e:
            if e.cls == "AttributeError" and len(args) > 2:
                return args[2]
            raise

    def f_print(self, interp, args, kwargs, node):
        return None

    def f_int(self, interp, args, kwargs, node):
        (x,) = args
        if isinstance(x, (int, SInt)):
            return x if not isinstance(x, bool) else int(x)
        if isinstance(x, Fraction):
            return int(x)
        if isinstance(x, SReal):
            # truncation toward zero
            t = tz(x)
            fl = z3.ToInt(t)
            return wrap(z3.If(t >= 0, fl, z3.If(z3.ToReal(fl) == t, fl, fl + 1)))
        if isinstance(x, SBool):
            return wrap(z3.If(x.t, 1, 0))
        if isinstance(x, str):
            try:
                return int(x)
            except ValueError:
                raise PyRaise("ValueError", node=node)
        interp.err(node, "int(%r)" % (x,))

    def f_float(self, interp, args, kwargs, node):
        (x,) = args
        if isinstance(x, (int, SInt, SBool)):
            return wrap(treal(x)) if not isinstance(x, int) else Fraction(x)
        if isinstance(x, (Fraction, SReal)):
            return x
        if isinstance(x, str):
            try:
                return Fraction(x)
            except ValueError:
                raise PyRaise("ValueError", node=node)
        interp.err(node, "float(%r)" % (x,))

    def f_bool(self, interp, args, kwargs, node):
        return interp.truth_term(args[0], node)

    def f_str(self, interp, args, kwargs, node):
        (x,) = args
        if isinstance(x, (str, int)) and not isinstance(x, bool):
            return str(x)
        return SOpaque("str")

    def f_abs(self, interp, args, kwargs, node):
        (x,) = args
        if isinstance(x, (int, Fraction)):
            return abs(x)
        if isinstance(x, (SInt, SReal)):
            return Ite(compare(">=", x, 0), x, arith("-", 0, x))
        if isinstance(x, (SSeq, CList)):
            return self.elementwise(interp, lambda a, _: self.f_abs(interp, [a], {}, node), x, 0, node)
        if isinstance(x, SObj):
            r = self.dunder(interp, x, "__abs__", [], node)
            if r is not NotImplemented:
                return r
        r = self.unary_ext(interp, "abs", x, node)
        if r is not NotImplemented:
            return r
        interp.err(node, "abs(%r)" % (x,))

    def unary_ext(self, interp, name, x, node):
        if isinstance(x, SOpaque) and x.tag == "unpacked":
            return x       # elementwise function of unpacked numbers: content not modelled (record accounting only)
        if name == "abs" and isinstance(x, SOpaque) and x.tag == "rfft" and x.payload[2] == 1:
            return SOpaque("rfft", (x.payload[0], x.payload[1], "abs"))
        return NotImplemented

    def truth_ext(self, interp, v, node):
        return NotImplemented

    def _minmax(self, interp, args, kwargs, node, op):
        if len(args) == 1:
            xs = args[0]
            items = self.try_iterate_concrete(interp, xs, node)
            if items is None:
                if isinstance(xs, SRange):
                    n = xs.length()
                    if not interp.ctx.decide(tb(compare(">", n, 0)), "ValueError", node):
                        raise PyRaise("ValueError", "min() arg is an empty sequence", node)
                    return xs.start if op == "<" else xs.get(arith("-", n, 1))
                if isinstance(xs, SSeq):
                    return self.seq_minmax(interp, xs, op, node)
                interp.err(node, "min/max of %r" % (xs,))
        else:
            items = list(args)
        if not items:
            if "default" in kwargs:
                return kwargs["default"]
            raise PyRaise("ValueError", "min() arg is an empty sequence", node)
        cur = items[0]
        for x in items[1:]:
            if isinstance(cur, str) and isinstance(x, str):
                cur = x if ((x < cur) if op == "<" else (x > cur)) else cur
            else:
                cur = Ite(compare(op, x, cur), x, cur)
        return cur

    def seq_minmax(self, interp, xs, op, node):
        """min/max of a symbolic sequence: a fresh value m with  (∀i: m <= x[i]) ∧ (∃i: m == x[i])"""
        ctx = interp.ctx
        if not ctx.decide(tb(compare(">", xs.length, 0)), "ValueError", node):
            raise PyRaise("ValueError", "min() arg is an empty sequence", node)
        m = SInt(z3.Int(fresh("mm"))) if xs.ekind == "int" else SReal(z3.Real(fresh("mm")))
        w = SInt(z3.Int(fresh("mm.at")))
        rel = "<=" if op == "<" else ">="
        ctx.assume(ForAll(0, xs.length, lambda i: compare(rel, m, xs.get(i))))
        ctx.assume(And(compare("<=", 0, w), compare("<", w, xs.length), compare("==", xs.get(w), m)))
        return m

    def f_min(self, interp, args, kwargs, node):
        return self._minmax(interp, args, kwargs, node, "<")

    def f_max(self, interp, args, kwargs, node):
        return self._minmax(interp, args, kwargs, node, ">")

    def f_sum(self, interp, args, kwargs, node):
        xs = args[0]
        items = self.try_iterate_concrete(interp, xs, node)
        if items is not None:
            cur = args[1] if len(args) > 1 else 0
            for x in items:
                cur = interp.binop("+", cur, x, node)
            return cur
        if isinstance(xs, SSeq):
            return self.seq_sum(interp, xs, node)
        interp.err(node, "sum(%r)" % (xs,))

    def seq_sum(self, interp, xs, node):
        so = getattr(xs, "slice_of", None)
        if so is not None and xs.ekind == "real":
            base, blen, a0, a1 = so
            return wrap(SUMRANGE(base, tz(a0), tz(a1)))
        arr = xs.arr
        if xs.ekind == "int":
            k = z3.Int(fresh("sm"))
            arr = z3.Lambda([k], z3.ToReal(z3.Select(arr, k)))
            # integer sums are reported as reals; callers that need an int are outside the subset
        return wrap(SUM(arr, xs.length))

    def f_all(self, interp, args, kwargs, node):
        xs = args[0]
        items = self.try_iterate_concrete(interp, xs, node)
        if items is not None:
            return And(*[interp.truth_term(x, node) for x in items]) if items else True
        if isinstance(xs, SSeq) and xs.ekind == "bool":
            return ForAll(0, xs.length, lambda i: xs.get(i))
        interp.err(node, "all(%r)" % (xs,))

    def f_any(self, interp, args, kwargs, node):
        xs = args[0]
        items = self.try_iterate_concrete(interp, xs, node)
        if items is not None:
            return Or(*[interp.truth_term(x, node) for x in items]) if items else False
        if isinstance(xs, SSeq) and xs.ekind == "bool":
            return Not(ForAll(0, xs.length, lambda i: Not(xs.get(i))))
        interp.err(node, "any(%r)" % (xs,))

    def f_list(self, interp, args, kwargs, node):
        if not args:
            return CList([], "list")
        (x,) = args
        if isinstance(x, CList):
            return CList(list(x.items), "list", x.ekind)
        if isinstance(x, SSeq):
            return SSeq(x.length, x.arr, "list", x.ekind, x.none)
        if isinstance(x, SRange):
            n = x.length()
            if isinstance(n, int) and all(isinstance(t, int) for t in (x.start, x.step)):
                return CList([x.start + i * x.step for i in range(n)], "list", "int")
            if x.arr is not None:
                return SSeq(n, x.arr, "list", "int")
            k = z3.Int(fresh("rl"))
            return mk_seq(interp, n, k, tz(x.start) + k * tz(x.step), "list", "int")
        items = self.try_iterate_concrete(interp, x, node)
        if items is not None:
            return CList(items, "list")
        interp.err(node, "list(%r)" % (x,))

    def f_tuple(self, interp, args, kwargs, node):
        if not args:
            return ()
        return tuple(self.iterate_concrete(interp, args[0], node))

    def f_dict(self, interp, args, kwargs, node):
        d = CDict()
        if args:
            src = args[0]
            if isinstance(src, CDict):
                d.d.update(src.d)
            else:
                for kv in self.iterate_concrete(interp, src, node):
                    k, v = self.iterate_concrete(interp, kv, node)
                    d.d[self.dict_key(interp, k, node)] = v
        d.d.update(kwargs)
        return d

    def f_set(self, interp, args, kwargs, node):
        if not args:
            return SOpaque("set", [])
        x = args[0]
        items = self.try_iterate_concrete(interp, x, node)
        if items is None:
            return SOpaque("symset", [x])
        if all(isinstance(i, (str, int, tuple)) and not isinstance(i, bool) or i is None for i in items):
            seen = []
            for i in items:
                if i not in seen:
                    seen.append(i)
            return SOpaque("set", seen)
        return SOpaque("set?", items)

    def f_enumerate(self, interp, args, kwargs, node):
        x = args[0]
        start = args[1] if len(args) > 1 else kwargs.get("start", 0)
        items = self.try_iterate_concrete(interp, x, node)
        if items is not None:
            return CList([(arith("+", i, start), v) for i, v in enumerate(items)], "list")
        if start != 0:
            interp.err(node, "enumerate with start over a symbolic iterable")
        return SOpaque("enumerate", x)

    def f_zip(self, interp, args, kwargs, node):
        lists = [self.iterate_concrete(interp, a, node) for a in args]
        return CList([tuple(t) for t in zip(*lists)], "list")

    def f_sorted(self, interp, args, kwargs, node):
        x = args[0]
        if isinstance(x, SOpaque) and x.tag == "set":
            items = list(x.payload)
        elif isinstance(x, SOpaque) and x.tag in ("symset",):
            return self.sorted_union(interp, x.payload, node)
        elif isinstance(x, SOpaque) and x.tag == "syminter":
            return self.sorted_intersection(interp, x.payload, node)
        else:
            items = self.try_iterate_concrete(interp, x, node)
            if items is None:
                interp.err(node, "sorted() of a symbolic sequence")
        if "key" in kwargs:
            interp.err(node, "sorted with key")
        rev = kwargs.get("reverse", False)
        try:
            if all(isinstance(i, (str,)) for i in items) or all(isinstance(i, int) and not isinstance(i, bool) for i in items) or \
                    all(isinstance(i, tuple) and isinstance(i[0], str) for i in items) and len(set(i[0] for i in items)) == len(items):
                if items and isinstance(items[0], tuple):
                    return CList(sorted(items, key=lambda t: t[0], reverse=rev), "list")
                return CList(sorted(items, reverse=rev), "list")
        except TypeError:
            pass
        interp.err(node, "sorted() of non-concrete keys")

    def sorted_union(self, interp, parts, node):
        """sorted(set().union(*idls)) / sorted(set(x)) : assumed contract
             result u strictly increasing;  every element of every part occurs in u;  every u[j] occurs in some part.
           Existentials are skolemised with fresh index functions."""
        ctx = interp.ctx
        u = SSeq.fresh("union", "list", "int")
        ctx.assume(compare(">=", u.length, 0))
        ctx.assume(strictly_increasing(u))
        which = z3.Function(fresh("which"), z3.IntSort(), z3.IntSort())
        src = z3.Function(fresh("src"), z3.IntSort(), z3.IntSort())
        j = z3.Int(fresh("j"))
        alts = []
        for pi, p in enumerate(parts):
            n = Len(p)
            pos = z3.Function(fresh("pos"), z3.IntSort(), z3.IntSort())
            i = z3.Int(fresh("i"))
            ctx.assume(wrap(z3.ForAll([i], z3.Implies(z3.And(0 <= i, i < tz(n)),
                                                     z3.And(0 <= pos(i), pos(i) < tz(u.length),
                                                            _ssel(u, 'arr', pos(i)) == tz(At(p, SInt(i))))))))
            alts.append(z3.And(which(j) == pi, 0 <= src(j), src(j) < tz(n), tz(At(p, SInt(src(j)))) == _ssel(u, 'arr', j)))
        ctx.assume(wrap(z3.ForAll([j], z3.Implies(z3.And(0 <= j, j < tz(u.length)), z3.Or(*alts)))))
        u.skolem = {"which": which, "src": src}
        return u

    def f_set__intersection(self, interp, args, kwargs, node):
        if all(isinstance(a, SOpaque) and a.tag == "set" for a in args):
            cur = list(args[0].payload)
            for a in args[1:]:
                cur = [x for x in cur if x in a.payload]
            return SOpaque("set", cur)
        parts = []
        for a in args:
            if isinstance(a, SOpaque) and a.tag == "symset":
                parts.extend(a.payload)
            elif isinstance(a, SOpaque) and a.tag == "set":
                parts.append(CList(list(a.payload), "list"))
            else:
                interp.err(node, "set.intersection of %r" % (a,))
        return SOpaque("syminter", parts)

    def sorted_intersection(self, interp, parts, node):
        """sorted(set.intersection(*sets)) for strictly increasing integer sequences: assumed contract
             u strictly increasing; every u[j] occurs in every part; every element of part 0 that occurs in all
             parts occurs in u (skolemised)."""
        ctx = interp.ctx
        u = SSeq.fresh("inter", "list", "int")
        ctx.assume(compare(">=", u.length, 0))
        ctx.assume(strictly_increasing(u))
        j = z3.Int(fresh("j"))
        srcs = []
        for p in parts:
            src = z3.Function(fresh("isrc"), z3.IntSort(), z3.IntSort())
            srcs.append(src)
            ctx.assume(wrap(z3.ForAll([j], z3.Implies(z3.And(0 <= j, j < tz(u.length)),
                                                     z3.And(0 <= src(j), src(j) < tz(Len(p)),
                                                            tz(At(p, SInt(src(j)))) == _ssel(u, 'arr', j))))))
        pos = z3.Function(fresh("ipos"), z3.IntSort(), z3.IntSort())
        i0 = z3.Int(fresh("i"))
        others = parts[1:]
        ivars = [z3.Int(fresh("i")) for _ in others]
        hyp = [z3.And(0 <= iv, iv < tz(Len(p)), tz(At(p, SInt(iv))) == tz(At(parts[0], SInt(i0)))) for iv, p in zip(ivars, others)]
        ctx.assume(wrap(z3.ForAll([i0] + ivars, z3.Implies(z3.And(0 <= i0, i0 < tz(Len(parts[0])), *hyp),
                                                          z3.And(0 <= pos(i0), pos(i0) < tz(u.length),
                                                                 _ssel(u, 'arr', pos(i0)) == tz(At(parts[0], SInt(i0))))))))
        u.skolem = {"src": srcs, "pos": pos}
        return u

    def f_np__intersect1d(self, interp, args, kwargs, node):
        """np.intersect1d(a, b, assume_unique=True, return_indices=True) for strictly increasing integer sequences:
           assumed contract: (common values ascending, their indices in a, their indices in b)"""
        a, b = args[0], args[1]
        if not (kwargs.get("assume_unique") is True and kwargs.get("return_indices") is True):
            interp.err(node, "np.intersect1d without assume_unique/return_indices")
        if all(self.try_iterate_concrete(interp, x, node) is not None and
               all(isinstance(v, int) for v in self.try_iterate_concrete(interp, x, node)) for x in (a, b)):
            la, lb = self.try_iterate_concrete(interp, a, node), self.try_iterate_concrete(interp, b, node)
            common = sorted(set(la) & set(lb))
            return (CList(common, "ndarray", "int"), CList([la.index(c) for c in common], "ndarray", "int"),
                    CList([lb.index(c) for c in common], "ndarray", "int"))
        ctx = interp.ctx
        ia = SSeq.fresh("ia", "ndarray", "int")
        ib = SSeq(ia.length, z3.Const(fresh("ib"), z3.ArraySort(z3.IntSort(), z3.IntSort())), "ndarray", "int")
        ctx.assume(compare(">=", ia.length, 0))
        k, k2 = z3.Int(fresh("k")), z3.Int(fresh("k"))
        n = tz(ia.length)
        ctx.assume(wrap(z3.ForAll([k], z3.Implies(z3.And(0 <= k, k < n), z3.And(
            0 <= _ssel(ia, 'arr', k), _ssel(ia, 'arr', k) < tz(Len(a)),
            0 <= _ssel(ib, 'arr', k), _ssel(ib, 'arr', k) < tz(Len(b)),
            tz(At(a, SInt(_ssel(ia, 'arr', k)))) == tz(At(b, SInt(_ssel(ib, 'arr', k)))))))))
        ctx.assume(wrap(z3.ForAll([k, k2], z3.Implies(z3.And(0 <= k, k < k2, k2 < n), z3.And(
            _ssel(ia, 'arr', k) < _ssel(ia, 'arr', k2), _ssel(ib, 'arr', k) < _ssel(ib, 'arr', k2))))))
        pos = z3.Function(fresh("cpos"), z3.IntSort(), z3.IntSort())
        i, j = z3.Int(fresh("i")), z3.Int(fresh("j"))
        ctx.assume(wrap(z3.ForAll([i, j], z3.Implies(z3.And(0 <= i, i < tz(Len(a)), 0 <= j, j < tz(Len(b)),
                                                            tz(At(a, SInt(i))) == tz(At(b, SInt(j)))),
                                                     z3.And(0 <= pos(i), pos(i) < n, _ssel(ia, 'arr', pos(i)) == i,
                                                            _ssel(ib, 'arr', pos(i)) == j)))))
        vals = self.fancy_index(interp, self.f_list(interp, [a], {}, node) if isinstance(a, SRange) else a, ia, node)
        ia.skolem = {"ib": ib, "pos": pos}
        return (vals, ia, ib)

    def f_filter(self, interp, args, kwargs, node):
        f, xs = args
        items = self.iterate_concrete(interp, xs, node)
        out = []
        for x in items:
            t = interp.truth(x, node) if f is None else interp.truth(interp.call(f, [x], {}, node), node)
            if t:
                out.append(x)
        return CList(out, "list")

    def f_map(self, interp, args, kwargs, node):
        f, xs = args
        return CList([interp.call(f, [x], {}, node) for x in self.iterate_concrete(interp, xs, node)], "list")

    def f_next(self, interp, args, kwargs, node):
        it = args[0]
        if isinstance(it, SOpaque) and it.tag == "iter":
            if it.payload:
                return it.payload.pop(0)
            if len(args) > 1:
                return args[1]
            raise PyRaise("StopIteration", node=node)
        interp.err(node, "next(%r)" % (it,))

    def f_iter(self, interp, args, kwargs, node):
        return SOpaque("iter", self.iterate_concrete(interp, args[0], node))

    def f_round(self, interp, args, kwargs, node):
        interp.err(node, "round()")

    def f_open(self, interp, args, kwargs, node):
        interp.err(node, "open() outside a file-model slice")

    # ---- itertools
    def f_itertools__groupby(self, interp, args, kwargs, node):
        """groupby(xs) -> one group per run of equal neighbours (keys only, groups never consumed here)"""
        xs = self.iterate_concrete(interp, args[0], node)
        out = []
        for x in xs:
            if out and interp.truth(self.value_eq(interp, out[-1], x, node), node):
                continue
            out.append(x)
        return SOpaque("iter", [(x, SOpaque("group")) for x in out])

    # ---- numpy
    def f_np__zeros(self, interp, args, kwargs, node):
        return self._filled(interp, args, kwargs, node, Fraction(0))

    def f_np__ones(self, interp, args, kwargs, node):
        return self._filled(interp, args, kwargs, node, Fraction(1))

    def _filled(self, interp, args, kwargs, node, val):
        n = args[0]
        if isinstance(n, tuple):
            if len(n) == 2 and not all(isinstance(x, int) for x in n) and n[0] is n[1]:
                # np.ones((L, L)) with symbolic L: a structured matrix alpha * ones + beta * identity
                return SOpaque("structmat", (n[0], val, Fraction(0)))
            if len(n) == 1:
                n = n[0]
            elif len(n) == 2 and all(isinstance(x, int) for x in n):
                return CList([CList([val] * n[1], "ndarray") for _ in range(n[0])], "ndarray")
            else:
                interp.err(node, "np.zeros with symbolic multi-dimensional shape")
        if isinstance(n, (Fraction, SReal)):
            raise PyRaise("TypeError", "float shape", node)
        if isinstance(n, int):
            if n < 0:
                raise PyRaise("ValueError", "negative dimensions", node)
            return CList([val] * n, "ndarray", "real")
        ok = compare(">=", n, 0)
        if not interp.ctx.decide(tb(ok), "ValueError", node):
            raise PyRaise("ValueError", "negative dimensions are not allowed", node)
        return SSeq(n, z3.K(z3.IntSort(), z3.RealVal(val)), "ndarray", "real")

    def f_np__identity(self, interp, args, kwargs, node):
        n = args[0]
        if isinstance(n, int):
            return CList([CList([Fraction(1 if i == j else 0) for j in range(n)], "ndarray") for i in range(n)], "ndarray")
        return SOpaque("structmat", (n, Fraction(0), Fraction(1)))

    def f_np__zeros_like(self, interp, args, kwargs, node):
        x = args[0]
        if isinstance(x, CList) and x.items and isinstance(x.items[0], CList):
            return CList([CList([Fraction(0)] * len(r.items), "ndarray") for r in x.items], "ndarray")
        return self._filled(interp, [Len(x)], kwargs, node, Fraction(0))

    def f_np__array(self, interp, args, kwargs, node):
        x = args[0]
        if isinstance(x, CList):
            return CList(list(x.items), "ndarray", x.ekind)
        if isinstance(x, SSeq):
            return SSeq(x.length, x.arr, "ndarray", x.ekind, x.none)
        if isinstance(x, SRange):
            l = self.f_list(interp, [x], {}, node)
            l.kind = "ndarray"
            return l
        if isinstance(x, tuple):
            return CList(list(x), "ndarray")
        if isinstance(x, SCALAR):
            return x
        interp.err(node, "np.array(%r)" % (x,))

    def f_np__asarray(self, interp, args, kwargs, node):
        x = args[0]
        if isinstance(x, SOpaque) and x.tag == "unpacked":
            return x
        if isinstance(x, (SSeq, CList)) and x.kind == "ndarray":
            return x
        return self.f_np__array(interp, args, kwargs, node)

    def f_np__arange(self, interp, args, kwargs, node):
        r = self.f_range(interp, args, kwargs, node)
        l = self.f_list(interp, [r], {}, node)
        l.kind = "ndarray"
        return l

    def _unary_real(self, name):
        def f(interp, args, kwargs, node):
            (x,) = args
            if isinstance(x, (SSeq, CList)):
                return self.elementwise(interp, lambda a, _: f(interp, [a], {}, node), x, 0, node)
            if isinstance(x, SOpt):
                if interp.truth(x.isnone, node):
                    raise PyRaise("TypeError", "ufunc on None", node)
                x = x.val
            if isinstance(x, SCALAR):
                return self.real_fn(interp, name, x, node)
            if isinstance(x, SObj):
                mname = {"abs": "__abs__"}.get(name, name)
                r = self.dunder(interp, x, mname, [], node)
                if r is not NotImplemented:
                    return r
            r = self.unary_ext(interp, name, x, node)
            if r is not NotImplemented:
                return r
            interp.err(node, "np.%s(%r)" % (name, x))
        return f

    def real_fn(self, interp, name, x, node):
        if name == "abs":
            return self.f_abs(interp, [x], {}, node)
        if name == "sqrt":
            if isinstance(x, (int, Fraction)) and x >= 0:
                import math
                r = Fraction(x)
                num, den = math.isqrt(r.numerator), math.isqrt(r.denominator)
                if num * num == r.numerator and den * den == r.denominator:
                    return Fraction(num, den)
            s = wrap(uf("sqrt")(treal(x)))
            # assumed: sqrt(x) >= 0 and sqrt(x)^2 == x for x >= 0
            interp.ctx.assume(Implies(compare(">=", x, 0), And(compare(">=", s, 0), compare("==", arith("*", s, s), wrap(treal(x))))))
            return s
        if name == "exp" and isinstance(x, (int, Fraction)) and x == 0:
            return Fraction(1)
        return wrap(uf(name)(treal(x)))

    def f_np__sum(self, interp, args, kwargs, node):
        x = args[0]
        if isinstance(x, SCALAR):
            return x
        if isinstance(x, SOpt):
            if interp.truth(x.isnone, node):
                raise PyRaise("TypeError", "sum of None", node)
            return self.f_np__sum(interp, [x.val], kwargs, node)
        return self.f_sum(interp, [x], kwargs, node)

    def f_np__mean(self, interp, args, kwargs, node):
        x = args[0]
        if isinstance(x, SOpaque) and x.tag == "unpacked":
            return SReal(z3.Real(fresh("mean_of_unpacked")))
        n = Len(x)
        s = self.f_sum(interp, [x], {}, node)
        if isinstance(n, int) and n == 0:
            return SOpaque("nan")
        return interp.binop("/", s, n, node) if isinstance(n, int) else wrap(treal(s) / treal(n))

    def f_np__dot(self, interp, args, kwargs, node):
        a, b = args
        if isinstance(a, SCALAR) or isinstance(b, SCALAR):
            return interp.binop("*", a, b, node)
        sa, sb = getattr(a, "slice_of", None), getattr(b, "slice_of", None)
        if sa is not None and sb is not None and sa[0].eq(sb[0]) and a.ekind == "real":
            # x[0:M-n].dot(x[n:M]) with 0 <= n <= M == len(x): the lag-n autocorrelation sum, by definition of ACORR
            base, blen, a0, a1 = sa
            _, _, b0, b1 = sb
            ctx = interp.ctx
            ok = And(compare("==", a0, 0), compare("==", b1, blen), compare("==", arith("-", a1, a0), arith("-", b1, b0)),
                     compare(">=", b0, 0), compare("<=", b0, blen))
            if ok is True or (ok is not False and ctx.implied(tb(ok))):
                return wrap(ACORR(base, tz(blen), tz(b0)))
        prod = self.elementwise(interp, lambda x, y: interp.binop("*", x, y, node), a, b, node)
        return self.f_sum(interp, [prod], {}, node)

    def f_np__diff(self, interp, args, kwargs, node):
        x = args[0]
        if isinstance(x, SRange):
            x = self.f_list(interp, [x], {}, node)
        if isinstance(x, CList):
            return CList([interp.binop("-", x.items[i + 1], x.items[i], node) for i in range(len(x.items) - 1)], "ndarray", x.ekind)
        if isinstance(x, SSeq):
            k = z3.Int(fresh("df"))
            n = Ite(compare(">", x.length, 0), arith("-", x.length, 1), 0)
            return mk_seq(interp, n, k, _ssel(x, 'arr', k + 1) - _ssel(x, 'arr', k), "ndarray", x.ekind)
        interp.err(node, "np.diff(%r)" % (x,))

    def f_np__min(self, interp, args, kwargs, node):
        return self._minmax(interp, args[:1], {}, node, "<")

    def f_np__max(self, interp, args, kwargs, node):
        return self._minmax(interp, args[:1], {}, node, ">")

    def f_np__any(self, interp, args, kwargs, node):
        x = args[0]
        if isinstance(x, (bool, SBool)):
            return x
        if isinstance(x, SOpaque) and x.tag == "uniqmask":
            seq, op, val = x.payload
            from .sym import Exists
            return Exists(0, seq.length, lambda i: compare(op, seq.get(i), val))
        return self.f_any(interp, [x], kwargs, node)

    def f_np__all(self, interp, args, kwargs, node):
        x = args[0]
        if isinstance(x, SOpaque) and x.tag == "uniqmask":
            # every distinct value satisfies the comparison iff every element does
            seq, op, val = x.payload
            return ForAll(0, seq.length, lambda i: compare(op, seq.get(i), val))
        if isinstance(x, (bool, SBool)):
            return x
        return self.f_all(interp, [x], kwargs, node)

    def f_np__concatenate(self, interp, args, kwargs, node):
        parts = self.iterate_concrete(interp, args[0], node)
        parts = [CList(list(p), "ndarray") if isinstance(p, tuple) else p for p in parts]
        r = self.concat(interp, parts, "ndarray", node)
        return r

    def f_np__cumsum(self, interp, args, kwargs, node):
        x = args[0]
        if isinstance(x, CList):
            out, cur = [], 0
            for v in x.items:
                cur = interp.binop("+", cur, v, node)
                out.append(cur)
            return CList(out, "ndarray")
        if isinstance(x, SSeq):
            arr = x.arr
            k = z3.Int(fresh("cs"))
            if x.ekind == "int":
                arr = z3.Lambda([k], z3.ToReal(z3.Select(arr, k)))
            r = SSeq(x.length, z3.Lambda([k], SUM(arr, SInt(k + 1))), "ndarray", "real")
            CAPTURE.setdefault("np.cumsum", []).append((x, r))     # ghost record: contracts may name the summed sequence
            return r
        interp.err(node, "np.cumsum(%r)" % (x,))

    def f_np__isclose(self, interp, args, kwargs, node):
        """np.isclose(a, b, rtol=1e-05, atol=1e-08) on real scalars: |a - b| <= atol + rtol * |b| (numpy's definition)"""
        a, b = args[0], args[1]
        rtol = args[2] if len(args) > 2 else kwargs.get("rtol", Fraction(1, 100000))
        atol = args[3] if len(args) > 3 else kwargs.get("atol", Fraction(1, 100000000))
        if not all(isinstance(x, SCALAR) for x in (a, b, rtol, atol)):
            interp.err(node, "np.isclose on non-scalars")
        ab = lambda x: Ite(compare(">=", x, 0), x, arith("-", 0, x))
        return compare("<=", ab(arith("-", a, b)), arith("+", atol, arith("*", rtol, ab(b))))

    def f_np__isnan(self, interp, args, kwargs, node):
        x = args[0]
        if isinstance(x, SOpaque) and x.tag == "nan":
            return True
        if isinstance(x, SCALAR):
            return False     # reals: no NaN (DESIGN 2.2)
        r = self.unary_ext(interp, "isnan", x, node)
        if r is not NotImplemented:
            return r
        interp.err(node, "np.isnan(%r)" % (x,))

    def f_np__isfinite(self, interp, args, kwargs, node):
        x = args[0]
        if isinstance(x, SCALAR):
            return True
        interp.err(node, "np.isfinite(%r)" % (x,))

    def f_np__floor(self, interp, args, kwargs, node):
        x = args[0]
        if isinstance(x, (int, Fraction)):
            import math
            return Fraction(math.floor(x))
        if isinstance(x, SInt):
            return wrap(treal(x))
        return wrap(z3.ToReal(z3.ToInt(tz(x))))

    def f_np__unique(self, interp, args, kwargs, node):
        """np.unique(x): sorted distinct values.  For symbolic x only what the verified code uses is modelled:
        comparison of the values with a scalar (np.any(dc < 0)), len(dc) (== 1 iff all entries equal), dc[0] (the minimum)."""
        x = args[0]
        if isinstance(x, CList) and all(isinstance(i, int) for i in x.items):
            return CList(sorted(set(x.items)), "ndarray", "int")
        if isinstance(x, CList):
            x = self.to_sseq(interp, x, node)
        if isinstance(x, SSeq):
            return SOpaque("unique", x)
        interp.err(node, "np.unique(%r)" % (x,))

    def unique_len(self, interp, u, node):
        x = u.payload
        ctx = interp.ctx
        if getattr(u, "_len", None) is None:
            n = SInt(z3.Int(fresh("uniq.len")))
            alleq = ForAll(0, x.length, lambda i: compare("==", x.get(i), x.get(0)))
            ctx.assume(And(compare(">=", n, 0), compare("<=", n, x.length),
                           Iff(compare("==", n, 0), compare("==", x.length, 0)),
                           Iff(compare("==", n, 1), And(compare(">", x.length, 0), alleq))))
            u._len = n
        return u._len

    def f_np__finfo(self, interp, args, kwargs, node):
        return SObj("finfo", {"eps": _EPS, "tiny": _TINY})

    def f_scipy__special__kn(self, interp, args, kwargs, node):
        n, x = args
        nt = tz(n)
        if z3.is_real(nt):
            nt = z3.ToInt(nt)
        return wrap(BESSEL_K(nt, treal(x)))

    def f_np__argmax(self, interp, args, kwargs, node):
        """np.argmax: an index of a maximal element (assumed)"""
        x = args[0]
        if isinstance(x, CList):
            x = self.to_sseq(interp, x, node)
        if not isinstance(x, SSeq):
            interp.err(node, "np.argmax(%r)" % (x,))
        ctx = interp.ctx
        if not ctx.decide(tb(compare(">", x.length, 0)), "ValueError", node):
            raise PyRaise("ValueError", "attempt to get argmax of an empty sequence", node)
        w = SInt(z3.Int(fresh("argmax")))
        ctx.assume(And(compare("<=", 0, w), compare("<", w, x.length), ForAll(0, x.length, lambda i: compare("<=", x.get(i), x.get(w))),
                       ForAll(0, w, lambda i: compare("<", x.get(i), x.get(w)))))
        return w

    def f_np__ndenumerate(self, interp, args, kwargs, node):
        x = args[0]
        items = self.try_iterate_concrete(interp, x, node)
        if items is None:
            interp.err(node, "np.ndenumerate of a symbolic-length array")
        if any(isinstance(i, CList) for i in items):
            interp.err(node, "np.ndenumerate of a multi-dimensional array")
        return CList([((j,), v) for j, v in enumerate(items)], "list")

    def f_np__prod(self, interp, args, kwargs, node):
        items = self.iterate_concrete(interp, args[0], node)
        cur = 1
        for x in items:
            cur = interp.binop("*", cur, x, node)
        return cur

    # ---- methods on sequences / dicts / strings
    def m_append(self, interp, obj, args, kwargs, node):
        (v,) = args
        if interp.ctx.summary and interp.ctx.summary[-1][0] is obj:
            interp.ctx.summary[-1][1].append(v)
            return None
        self.check_writable(interp, obj, node)
        if isinstance(obj, CList):
            obj.items.append(v)
            return None
        if isinstance(obj, SSeq):
            n = obj.length
            obj.length = arith("+", n, 1)
            saved = obj.frozen
            obj.frozen = False
            try:
                self.setitem(interp, obj, n, v, node)
            finally:
                obj.frozen = saved
            return None
        interp.err(node, "append on %r" % (obj,))

    def m_extend(self, interp, obj, args, kwargs, node):
        for v in self.iterate_concrete(interp, args[0], node):
            self.m_append(interp, obj, [v], {}, node)

    def m_get(self, interp, obj, args, kwargs, node):
        if isinstance(obj, CDict):
            k = self.dict_key(interp, args[0], node)
            if k in obj.d:
                v = obj.d[k]
                if isinstance(v, Poison):
                    interp.err(node, "read of dict entry %r: %s" % (k, v.why))
                return v
            return args[1] if len(args) > 1 else None
        interp.err(node, ".get on %r" % (obj,))

    def m_keys(self, interp, obj, args, kwargs, node):
        return CList(list(obj.d.keys()), "list")

    def m_values(self, interp, obj, args, kwargs, node):
        return CList(list(obj.d.values()), "list")

    def m_items(self, interp, obj, args, kwargs, node):
        return CList([(k, v) for k, v in obj.d.items()], "list")

    def m_update(self, interp, obj, args, kwargs, node):
        self.check_writable(interp, obj, node)
        src = args[0]
        if isinstance(src, CDict):
            obj.d.update(src.d)
            return None
        interp.err(node, "dict.update(%r)" % (src,))

    def m_split(self, interp, obj, args, kwargs, node):
        if isinstance(obj, str) and all(isinstance(a, (str, int)) for a in args):
            return CList(obj.split(*args), "list")
        interp.err(node, "split on symbolic string")

    def m_startswith(self, interp, obj, args, kwargs, node):
        if isinstance(obj, str) and isinstance(args[0], str):
            return obj.startswith(args[0])
        interp.err(node, "startswith on symbolic string")

    def m_endswith(self, interp, obj, args, kwargs, node):
        if isinstance(obj, str) and isinstance(args[0], str):
            return obj.endswith(args[0])
        interp.err(node, "endswith on symbolic string")

    def m_replace(self, interp, obj, args, kwargs, node):
        if isinstance(obj, str):
            return obj.replace(*args)
        interp.err(node, "replace on symbolic string")

    def m_join(self, interp, obj, args, kwargs, node):
        items = self.iterate_concrete(interp, args[0], node)
        if isinstance(obj, str) and all(isinstance(i, str) for i in items):
            return obj.join(items)
        return SOpaque("str")

    def m_format(self, interp, obj, args, kwargs, node):
        return SOpaque("str")

    def m_encode(self, interp, obj, args, kwargs, node):
        return SOpaque("bytes")

    def m_index(self, interp, obj, args, kwargs, node):
        x = args[0]
        if isinstance(obj, str):
            try:
                return obj.index(x)
            except ValueError:
                raise PyRaise("ValueError", node=node)
        if isinstance(obj, CList):
            for i, y in enumerate(obj.items):
                if interp.truth(self.value_eq(interp, y, x, node), node):
                    return i
            raise PyRaise("ValueError", "not in list", node)
        if isinstance(obj, SSeq):
            # first position: fresh p with x == obj[p] and no earlier equal element, or ValueError
            ctx = interp.ctx
            present = member(x, obj)
            if not ctx.branch(tb(present)):
                raise PyRaise("ValueError", "not in list", node)
            p = SInt(z3.Int(fresh("ix")))
            ctx.assume(And(compare("<=", 0, p), compare("<", p, obj.length), compare("==", obj.get(p), x),
                           ForAll(0, p, lambda q: compare("!=", obj.get(q), x))))
            return p
        interp.err(node, ".index on %r" % (obj,))

    def m_copy(self, interp, obj, args, kwargs, node):
        return interp.ctx.clone_value(obj) if not isinstance(obj, (SSeq, CList)) else _copy_seq(obj)

    def m_ravel(self, interp, obj, args, kwargs, node):
        return obj

    def m_flatten(self, interp, obj, args, kwargs, node):
        return _copy_seq(obj)

    def m_dot(self, interp, obj, args, kwargs, node):
        return self.f_np__dot(interp, [obj, args[0]], {}, node)

    def m_item(self, interp, obj, args, kwargs, node):
        if isinstance(obj, SCALAR):
            return obj
        if isinstance(obj, CList) and len(obj.items) == 1:
            return obj.items[0]
        interp.err(node, ".item() on %r" % (obj,))

    def m_isdisjoint(self, interp, obj, args, kwargs, node):
        if isinstance(obj, SOpaque) and obj.tag == "set":
            other = self.iterate_concrete(interp, args[0], node) if not isinstance(args[0], SOpaque) else args[0].payload
            return not any(x in other for x in obj.payload)
        interp.err(node, "isdisjoint")

    def m_issubset(self, interp, obj, args, kwargs, node):
        if isinstance(obj, SOpaque) and obj.tag == "set":
            o = args[0]
            other = o.payload if isinstance(o, SOpaque) else self.iterate_concrete(interp, o, node)
            return all(x in other for x in obj.payload)
        if isinstance(obj, SOpaque) and obj.tag == "symset":
            (inner,) = obj.payload
            other = args[0]
            if isinstance(other, SOpaque) and other.tag == "symset":
                other = other.payload[0]
            return ForAll(0, Len(inner), lambda i: member(At(inner, i), other)) if not isinstance(Len(inner), int) else \
                And(*[member(At(inner, i), other) for i in range(Len(inner))])
        interp.err(node, "issubset on %r" % (obj,))

    def m_union(self, interp, obj, args, kwargs, node):
        if isinstance(obj, SOpaque) and obj.tag == "set" and not obj.payload:
            if all(self.try_iterate_concrete(interp, a, node) is not None and
                   all(isinstance(x, (str, int)) and not isinstance(x, bool) for x in self.try_iterate_concrete(interp, a, node)) for a in args):
                seen = []
                for a in args:
                    for x in self.try_iterate_concrete(interp, a, node):
                        if x not in seen:
                            seen.append(x)
                return SOpaque("set", seen)
            return SOpaque("symset", list(args))
        interp.err(node, "set.union on %r" % (obj,))


BESSEL_K = z3.Function("BesselK", z3.IntSort(), z3.RealSort(), z3.RealSort())


class _Absent:
    pass


class _SymbolicComp(Exception):
    def __init__(self, gi, it):
        self.gi, self.it = gi, it


def _copy_seq(obj):
    if isinstance(obj, SSeq):
        return SSeq(obj.length, obj.arr, obj.kind, obj.ekind, obj.none)
    return CList(list(obj.items), obj.kind, obj.ekind)


_EPS = SReal(z3.Real("float.eps"))
_TINY = SReal(z3.Real("float.tiny"))
FLOAT_AXIOMS = [z3.Real("float.tiny") > 0, z3.Real("float.tiny") < z3.Real("float.eps"), z3.Real("float.eps") < 1] + ACORR_AXIOMS


for _nm in ("sqrt", "exp", "log", "sin", "cos", "tan", "sinh", "cosh", "tanh", "arcsin", "arccos", "arctan",
            "arcsinh", "arccosh", "arctanh", "abs", "log10"):
    for _pref in ("np", "anp"):
        setattr(Lib, "f_%s__%s" % (_pref, _nm), (lambda nm: (lambda self, interp, args, kwargs, node: self._unary_real(nm)(interp, args, kwargs, node)))(_nm))


# ------------------------------------------------------------------------------------------------------------------
# binary files and struct (assumed models):
#   file = (length L, position pos); read(n) returns min(n, L - pos) bytes and advances pos by that amount
#   struct.unpack(fmt, buf) raises struct.error unless len(buf) == calcsize(fmt); native sizes i = 4, d = 8
#   the *content* of the bytes is not modelled here (only the record accounting of C18)

def mk_file(L, pos):
    return SObj("file", {"L": L, "pos": pos})


def _file_read(lib, interp, obj, args, kwargs, node):
    n = args[0]
    L, pos = obj.attrs["L"], obj.attrs["pos"]
    rest = arith("-", L, pos)
    if isinstance(n, int) and n < 0:
        interp.err(node, "read() with negative size")
    got = Ite(compare("<=", n, rest), n, rest)
    if not isinstance(n, int):
        got = Ite(compare("<", n, 0), rest, got)
    saved = obj.frozen
    obj.attrs["pos"] = arith("+", pos, got)
    return SOpaque("bytes", got)


def _fmt_size(fmt, interp, node):
    import struct as _st
    if isinstance(fmt, str):
        try:
            return _st.calcsize(fmt)
        except _st.error:
            interp.err(node, "struct format %r" % fmt)
    if isinstance(fmt, SOpaque) and fmt.tag == "fmt":
        unit, count = fmt.payload
        return arith("*", _st.calcsize(unit), count)
    interp.err(node, "struct format %r" % (fmt,))


def _struct_unpack(self, interp, args, kwargs, node):
    fmt, buf = args
    if not (isinstance(buf, SOpaque) and buf.tag == "bytes"):
        interp.err(node, "struct.unpack of %r" % (buf,))
    size = _fmt_size(fmt, interp, node)
    ok = compare("==", buf.payload, size)
    if ok is not True:
        if ok is False or not interp.ctx.branch(tb(ok)):
            raise PyRaise("struct.error", "unpack requires a buffer of %s bytes" % (size,), node)
    return SOpaque("unpacked", fmt)


def _unpacked_getitem(lib, interp, obj, idx, node):
    fmt = obj.payload
    unit = fmt if isinstance(fmt, str) else fmt.payload[0]
    unit = unit.lstrip("<>=!@")
    if "d" in unit and "i" not in unit:
        return SReal(z3.Real(fresh("field")))
    if "i" in unit and "d" not in unit:
        return SInt(z3.Int(fresh("field")))
    interp.err(node, "field of a mixed struct format")


Lib.f_struct__unpack = _struct_unpack
_old_getitem_ext = Lib.getitem_ext


def _getitem_ext2(self, interp, obj, idx, node):
    if isinstance(obj, SOpaque) and obj.tag == "unpacked" and isinstance(idx, (int, SInt)):
        return _unpacked_getitem(self, interp, obj, idx, node)
    return _old_getitem_ext(self, interp, obj, idx, node)


Lib.getitem_ext = _getitem_ext2
_old_truth_ext = Lib.truth_ext


def _truth_ext2(self, interp, v, node):
    if isinstance(v, SOpaque) and v.tag == "bytes":
        return compare(">", v.payload, 0)
    if isinstance(v, SOpaque) and v.tag in ("unpacked", "elem", "str"):
        return True
    return _old_truth_ext(self, interp, v, node)


Lib.truth_ext = _truth_ext2
_old_init = Lib.__init__


def _init2(self):
    _old_init(self)
    self.obj_models["file"] = {"read": lambda interp, obj, args, kwargs, node: _file_read(self, interp, obj, args, kwargs, node)}


Lib.__init__ = _init2
_old_binop_ext = Lib.binop_ext


def _binop_ext2(self, interp, op, a, b, node):
    if op == "*" and isinstance(a, str) and len(a) == 1 and isinstance(b, (int, SInt)) and not isinstance(b, bool):
        return SOpaque("fmt", (a, b))
    if op == "*" and isinstance(a, SOpaque) and a.tag == "fmt" and isinstance(b, (int, SInt)):
        return SOpaque("fmt", (a.payload[0], arith("*", a.payload[1], b)))
    return _old_binop_ext(self, interp, op, a, b, node)


Lib.binop_ext = _binop_ext2


Lib.f_np__fft__rfft, Lib.f_np__fft__irfft = _fft_models()
