"""Assumed models of the numerical-calculus library calls used by roots.py / integrate.py (C09).

  autograd.jacobian(f)(x, *rest)    the exact derivative of f w.r.t. its first argument (scalar, or component-wise for a vector),
                                    obtained by symbolic differentiation of the term the symbolic execution of f yields; the
                                    derivative of an uninterpreted user function F w.r.t. its i-th argument is the symbol D<i>_F
  scipy.integrate.quad(f, a, b)     (INT(lambda t. f(t), a, b), abserr): INT uninterpreted (the quadrature is assumed exact);
                                    Obs-valued limits are converted by float() as scipy does
  scipy.optimize.fsolve(f, x0, args)  [r] with f(r, args) == 0 (a converged solve is assumed)
  np.vectorize(f)                   f itself (only scalar calls are modelled)
"""
from fractions import Fraction
import z3

from .sym import (Sym, SInt, SReal, SBool, SSeq, CList, CDict, SObj, SOpaque, CheckerError, arith, compare, tz, tb, treal, wrap, fresh, uf)
from .interp import PyRaise, LibFn
from .lib import Lib, SCALAR

REAL_FUN = z3.ArraySort(z3.RealSort(), z3.RealSort())
INT = z3.Function("INTEGRAL", REAL_FUN, z3.RealSort(), z3.RealSort(), z3.RealSort())


def user_fn(name, n):
    return z3.Function(name, *([z3.RealSort()] * (n + 1)))


def partial(F, i):
    """symbol for the partial derivative of the uninterpreted function F w.r.t. its i-th argument"""
    return z3.Function("D%d_%s" % (i, F.name()), *[F.domain(k) for k in range(F.arity())], F.range())


def ddx(t, v):
    """d t / d v for real z3 terms over + - * / and uninterpreted functions (chain rule with D<i>_F symbols)"""
    if t.eq(v):
        return z3.RealVal(1)
    if z3.is_rational_value(t) or z3.is_int_value(t) or z3.is_const(t):
        return z3.RealVal(0)
    k = t.decl().kind()
    ch = t.children()
    if k == z3.Z3_OP_ADD:
        return z3.Sum([ddx(c, v) for c in ch])
    if k == z3.Z3_OP_SUB:
        r = ddx(ch[0], v)
        for c in ch[1:]:
            r = r - ddx(c, v)
        return r
    if k == z3.Z3_OP_UMINUS:
        return -ddx(ch[0], v)
    if k == z3.Z3_OP_MUL:
        terms = []
        for i in range(len(ch)):
            p = ddx(ch[i], v)
            for j in range(len(ch)):
                if j != i:
                    p = p * ch[j]
            terms.append(p)
        return z3.Sum(terms)
    if k == z3.Z3_OP_DIV:
        a, b = ch
        return (ddx(a, v) * b - a * ddx(b, v)) / (b * b)
    if k == z3.Z3_OP_TO_REAL:
        return z3.RealVal(0)
    if k == z3.Z3_OP_UNINTERPRETED:
        F = t.decl()
        out = []
        for i, c in enumerate(ch):
            dc = z3.simplify(ddx(c, v))
            if z3.is_rational_value(dc) and dc.numerator_as_long() == 0:
                continue
            out.append(partial(F, i)(*ch) * dc)
        return z3.Sum(out) if out else z3.RealVal(0)
    raise CheckerError("no derivative rule for term %s" % t)


def _call(interp, f, args, node):
    if isinstance(f, SOpaque) and f.tag == "vectorized":
        f = f.payload
    return interp.call(f, args, {}, node)


def _jacobian(self, interp, args, kwargs, node):
    return SOpaque("jacobian", args[0])


def _vectorize(self, interp, args, kwargs, node):
    return SOpaque("vectorized", args[0])


def call_opaque(self, interp, fn, args, kwargs, node):
    """calls of the callable values created above"""
    if fn.tag == "vectorized":
        x = args[0]
        if isinstance(x, SOpaque) and x.tag == "arr0":
            return interp.call(fn.payload, [x.payload], {}, node)      # 0-d result: behaves like the scalar
        if isinstance(x, CList):
            return CList([interp.call(fn.payload, [y], {}, node) for y in x.items], "ndarray")
        return interp.call(fn.payload, args, kwargs, node)
    if fn.tag == "jacobian":
        f = fn.payload
        x0 = args[0]
        comps = list(x0.items) if isinstance(x0, CList) else [x0]
        if not all(isinstance(c, SCALAR) for c in comps):
            interp.err(node, "jacobian at a non-numeric point")
        vs = [z3.Real(fresh("jx")) for _ in comps]
        sym = [SReal(v) for v in vs]
        first = CList(sym, "ndarray", "real") if isinstance(x0, CList) else sym[0]
        val = _call(interp, f, [first] + list(args[1:]), node)
        if isinstance(val, CList) and len(val.items) == 1:
            val = val.items[0]
        if not isinstance(val, SCALAR):
            interp.err(node, "jacobian of a function that does not return a number")
        t = treal(val)
        subs = [(v, treal(c)) for v, c in zip(vs, comps)]
        ds = [wrap(z3.simplify(z3.substitute(ddx(t, v), *subs))) for v in vs]
        return CList(ds, "ndarray", "real") if isinstance(x0, CList) else ds[0]
    return NotImplemented


def _to_float(self, interp, x, node):
    if isinstance(x, SObj):
        r = self.dunder(interp, x, "__float__", [], node)
        if r is NotImplemented:
            raise PyRaise("TypeError", "float() argument", node)
        return r
    return x


def _quad(self, interp, args, kwargs, node):
    f, lo, hi = args[0], _to_float(self, interp, args[1], node), _to_float(self, interp, args[2], node)
    t = z3.Real(fresh("qt"))
    body = _call(interp, f, [SReal(t)], node)
    if not isinstance(body, SCALAR):
        interp.err(node, "integrand does not return a number")
    lam = z3.Lambda([t], treal(body))
    return (wrap(INT(lam, treal(lo), treal(hi))), SReal(z3.Real(fresh("quad.abserr"))))


def integral(f, lo, hi):
    """spec helper: INT(lambda t. f(t), lo, hi) with f a Python function on terms"""
    t = z3.Real(fresh("qt"))
    return wrap(INT(z3.Lambda([t], treal(f(SReal(t)))), treal(lo), treal(hi)))


def _fsolve(self, interp, args, kwargs, node):
    f, guess = args[0], args[1]
    extra = args[2] if len(args) > 2 else kwargs.get("args", ())
    extra = list(extra) if isinstance(extra, tuple) else [extra]
    r = SReal(z3.Real(fresh("root")))
    v = _call(interp, f, [r] + extra, node)
    if isinstance(v, CList) and len(v.items) == 1:
        v = v.items[0]
    interp.ctx.assume(compare("==", v, 0))       # assumed: the solver converged to a root
    return CList([r], "ndarray", "real")


Lib.f_autograd__jacobian = _jacobian
Lib.f_autograd__grad = _jacobian          # derivative w.r.t. the first argument of a scalar function
Lib.f_np__vectorize = _vectorize
Lib.f_scipy__integrate__quad = _quad
Lib.f_scipy__optimize__fsolve = _fsolve
_old_getattr = Lib.getattr


def _getattr(self, interp, obj, attr, node):
    if isinstance(obj, LibFn) and obj.name == "scipy.integrate.quad" and attr in ("__code__", "__defaults__"):
        # introspection of the installed scipy (exactly what the code under verification sees)
        from scipy.integrate import quad as _q
        if attr == "__defaults__":
            return tuple(None for _ in _q.__defaults__)
        return SOpaque("code", _q.__code__)
    if isinstance(obj, SOpaque) and obj.tag == "code" and attr == "co_varnames":
        return tuple(obj.payload.co_varnames)
    return _old_getattr(self, interp, obj, attr, node)


Lib.getattr = _getattr
_old_m_reshape = getattr(Lib, "m_reshape", None)


def _m_reshape(self, interp, obj, args, kwargs, node):
    if isinstance(obj, SOpaque) and obj.tag == "arr0" and tuple(args) in ((-1,), ((-1,),)):
        return CList([obj.payload], "ndarray")
    if isinstance(obj, SCALAR) and tuple(args) in ((-1,), ((-1,),)):
        return CList([obj], "ndarray")
    if isinstance(obj, CList) and tuple(args) in ((-1,), ((-1,),)) and not any(isinstance(x, CList) for x in obj.items):
        return obj
    if _old_m_reshape is not None:
        return _old_m_reshape(self, interp, obj, args, kwargs, node)
    interp.err(node, "reshape%r" % (tuple(args),))


Lib.m_reshape = _m_reshape
_old_array = Lib.f_np__array


def _array(self, interp, args, kwargs, node):
    if isinstance(args[0], SObj):
        return SOpaque("arr0", args[0])          # 0-d object array
    return _old_array(self, interp, args, kwargs, node)


Lib.f_np__array = _array


def _anp_array(self, interp, args, kwargs, node):
    x = args[0]
    if isinstance(x, CList) and x.items and all(isinstance(r, CList) for r in x.items):
        return CList([CList(list(r.items), "ndarray") for r in x.items], "ndarray")      # nested lists -> 2-D array
    return self.f_np__array(interp, args, kwargs, node)


Lib.f_anp__array = _anp_array


def install(interp_mod):
    Interp = interp_mod.Interp
    old_call = Interp.call

    def call(self, fn, args, kwargs, node):
        if isinstance(fn, SOpaque) and fn.tag in ("vectorized", "jacobian"):
            r = call_opaque(self.lib, self, fn, args, kwargs, node)
            if r is not NotImplemented:
                return r
        if isinstance(fn, SOpaque) and fn.tag == "userfn":
            # an arbitrary user function func(vector, scalar) / func(scalar, scalar...): uninterpreted in all scalar components
            flat = []

            def walk(a):
                if isinstance(a, CList):
                    for y in a.items:
                        walk(y)
                else:
                    flat.append(a)
            for a in args:
                walk(a)
            if not all(isinstance(x, SCALAR) for x in flat):
                self.err(node, "user function applied to non-numeric arguments")
            F = user_fn(fn.payload, len(flat))
            return wrap(F(*[treal(x) for x in flat]))
        return old_call(self, fn, args, kwargs, node)
    Interp.call = call
