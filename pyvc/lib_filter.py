"""Exact summaries of filter loops and filtered comprehensions over a symbolic iterable.

    for t in <symbolic iterable of length n>:          [e(t) for t in <iterable> if c(t)]
        if c(t):
            L1.append(e1(t)); L2.append(e2(t))

Every path through the body appends either to none or exactly once to each of the local lists L1..Lk and changes nothing
else.  The loop then appends, to every list, the images of the sub-sequence of positions where c holds:

    m                       number of selected positions        0 <= m <= n
    pos : [0, m) -> [0, n)  strictly increasing, c(pos[j]) for all j      (the j-th selected position)
    inv : [0, n) -> [0, m)  for every t with c(t):  pos[inv[t]] == t       (every selected position is enumerated)
    Li += [ei(pos[j]) for j in range(m)]

m, pos, inv are named after (n, c): two loops / comprehensions filtering the same iterable by the same condition share them
(that is how "aligned" lists built by separate comprehensions are recognised).  The characterisation is complete: it
determines the appended sequences uniquely.
"""
import ast
import z3

from .sym import (Sym, SInt, SReal, SBool, SSeq, CList, SOpt, CheckerError, compare, tz, tb, treal, wrap, fresh, And, Len)
from .interp import PyRaise, PathEnd, Env, Poison, mutated_exprs, assigned_names
from .lib import Lib, defn_name

INT_ARR = z3.ArraySort(z3.IntSort(), z3.IntSort())


def subst_value(v, k, repl):
    """v with the integer constant k replaced by the term repl (values: numbers, options, wrapped observables)"""
    if isinstance(v, SInt):
        return SInt(z3.substitute(v.t, (k, repl)))
    if isinstance(v, SReal):
        return SReal(z3.substitute(v.t, (k, repl)))
    if isinstance(v, SBool):
        return SBool(z3.substitute(v.t, (k, repl)))
    if isinstance(v, SOpt):
        return SOpt(subst_value(v.isnone, k, repl), subst_value(v.val, k, repl) if v.val is not None else None)
    if hasattr(v, "val") and type(v).__name__ in ("OV", "OA"):
        return type(v)(subst_value(v.val, k, repl))
    return v          # concrete numbers, None, strings


def canon_len(ctx, n):
    """the length term with a decided `max(0, .)` removed, so that range(len(x)) and x itself name the same selection"""
    if isinstance(n, int):
        return n
    t = z3.simplify(tz(n))
    if z3.is_app(t) and t.decl().kind() == z3.Z3_OP_ITE:
        c, a, b = t.children()
        if ctx._qf_unsat(z3.Not(c)):
            return SInt(z3.simplify(a))
        if ctx._qf_unsat(c):
            return SInt(z3.simplify(b)) if not z3.is_int_value(z3.simplify(b)) else z3.simplify(b).as_long()
    return SInt(t)


def selection(interp, n, k, cond):
    """(m, pos) for the positions 0 <= k < n where cond (a z3 Bool over k) holds; axioms go to the path condition"""
    ctx = interp.ctx
    n = canon_len(ctx, n)
    base = defn_name("flt", n, k, cond)
    m = z3.Int(base + ".m")
    pos = z3.Const(base + ".pos", INT_ARR)
    inv = z3.Const(base + ".inv", INT_ARR)
    nn = tz(n)
    i, j, t = z3.Int(fresh("fi")), z3.Int(fresh("fj")), z3.Int(fresh("ft"))
    c_at = lambda x: z3.substitute(cond, (k, x))
    ctx._add(z3.And(0 <= m, m <= nn))
    ctx._add(z3.ForAll([j], z3.Implies(z3.And(0 <= j, j < m), z3.And(0 <= z3.Select(pos, j), z3.Select(pos, j) < nn, c_at(z3.Select(pos, j)))),
                       patterns=[z3.Select(pos, j)]))
    ctx._add(z3.ForAll([i, j], z3.Implies(z3.And(0 <= i, i < j, j < m), z3.Select(pos, i) < z3.Select(pos, j)),
                       patterns=[z3.MultiPattern(z3.Select(pos, i), z3.Select(pos, j))]))
    # triggers: inv[t] and every array read at t inside the condition (so that a fact about position t instantiates it)
    trig = [z3.Select(inv, t)]

    def reads(e):
        if z3.is_app(e):
            if e.decl().kind() == z3.Z3_OP_SELECT and e.arg(1).eq(t) and z3.is_const(e.arg(0)):
                if not any(e.eq(x) for x in trig):
                    trig.append(e)
            for c in e.children():
                reads(c)
    reads(c_at(t))
    ctx._add(z3.ForAll([t], z3.Implies(z3.And(0 <= t, t < nn, c_at(t)),
                                       z3.And(0 <= z3.Select(inv, t), z3.Select(inv, t) < m, z3.Select(pos, z3.Select(inv, t)) == t)),
                       patterns=trig))
    return SInt(m), pos, inv


def selected(n, k, cond):
    """spec helper: the (m, pos, inv) symbols of a selection (same naming as the engine)"""
    base = defn_name("flt", n, k, cond)
    return SInt(z3.Int(base + ".m")), z3.Const(base + ".pos", INT_ARR), z3.Const(base + ".inv", INT_ARR)


_old_m_append = Lib.m_append


def _m_append(self, interp, obj, args, kwargs, node):
    for L, log in interp.ctx.summary:
        if L is obj:
            log.append(args[0])
            return None
    return _old_m_append(self, interp, obj, args, kwargs, node)


Lib.m_append = _m_append
_old_summarize = Lib.try_summarize_loop


def _try_summarize(self, interp, node, env, n, getter):
    muts = mutated_exprs(node.body)
    if not muts or any(m[0] != "append" or not isinstance(m[1], ast.Name) for m in muts):
        return False
    names = []
    for m_ in muts:
        if m_[1].id not in names:
            names.append(m_[1].id)
    conditional = any(isinstance(s, ast.If) for s in ast.walk(ast.Module(body=node.body, type_ignores=[])))
    if len(names) == 1 and not conditional:
        return _old_summarize(self, interp, node, env, n, getter)
    for sub in ast.walk(ast.Module(body=node.body, type_ignores=[])):
        if isinstance(sub, (ast.Break, ast.Return, ast.While)):
            return False
    lists = []
    for nm in names:
        try:
            L = env.lookup(nm)
        except KeyError:
            return False
        if not isinstance(L, (CList, SSeq)) or L.kind != "list":
            return False
        lists.append(L)
    ctx = interp.ctx
    k = z3.Int(fresh("lt"))
    saved_vars = dict(env.vars)
    logs = [[] for _ in lists]
    for L, log in zip(lists, logs):
        ctx.summary.append((L, log))
    taken, skipped = [], []
    try:
        with ctx.scope():
            ctx.assume(And(compare("<=", 0, SInt(k)), compare("<", SInt(k), n)))

            def thunk():
                for log in logs:
                    del log[:]
                env.vars.clear()
                env.vars.update(saved_vars)
                interp.assign(node.target, getter(SInt(k)), env, node)
                interp.exec_block(node.body, env)
                return [list(log) for log in logs]
            paths = ctx.explore_local(thunk)
            for conds, outcome, val in paths:
                cond = z3.And(*conds) if conds else z3.BoolVal(True)
                if outcome == "raise":
                    with ctx.scope():
                        ctx._add(cond)
                        try:
                            ctx.oblige("safe", "%s@L%s" % (val.cls, getattr(val.node, "lineno", "?")), False, val.node)
                        except PathEnd:
                            pass
                    continue
                if outcome == "continue":
                    val = [list(log) for log in logs] if val is None else val
                if outcome not in ("normal", "continue") or val is None:
                    interp.err(node, "loop over a symbolic range is neither a map nor a filter; it needs an invariant")
                counts = set(len(v) for v in val)
                if counts == {0}:
                    skipped.append(cond)
                elif counts == {1}:
                    taken.append((cond, [v[0] for v in val]))
                else:
                    interp.err(node, "loop over a symbolic range appends unevenly to its lists; it needs an invariant")
    finally:
        for _ in lists:
            ctx.summary.pop()
        env.vars.clear()
        env.vars.update(saved_vars)
    if not taken and not skipped:
        interp.err(node, "no feasible path through the loop body")
    if not skipped and len(lists) == 1:
        return _old_summarize(self, interp, node, env, n, getter)
    sel = z3.simplify(z3.Or(*[c for c, _ in taken])) if taken else z3.BoolVal(False)
    m, pos, inv = selection(interp, n, k, sel)
    j = z3.Int(fresh("fl"))
    for li, (nm, L) in enumerate(zip(names, lists)):
        if taken:
            cur = taken[-1][1][li]
            for cond, vs in reversed(taken[:-1]):
                cur = self.merge_values(interp, wrap(cond), vs[li], cur, node)
            cur = subst_value(cur, k, z3.Select(pos, j))
            new = self.lambda_seq(interp, m, j, cur, "list", node)
        else:
            new = CList([], "list")
        merged = self.concat(interp, [L, new], "list", node) if not (isinstance(Len(L), int) and Len(L) == 0) else new
        if isinstance(merged, SSeq) and getattr(new, "wrapk", None):
            merged.wrapk = new.wrapk
        env.set_nonlocal(nm, merged) if nm not in env.vars else env.set(nm, merged)
    for nm in assigned_names(node.body) + assigned_names([node.target]):
        if nm not in names:
            env.set(nm, Poison("assigned inside a summarised loop"))
    return True


Lib.try_summarize_loop = _try_summarize
_old_symcomp = Lib.symbolic_comprehension


def _symbolic_comprehension(self, interp, node, env, it):
    g = node.generators[0]
    if not g.ifs:
        return _old_symcomp(self, interp, node, env, it)
    n, getter = self.symbolic_iter(interp, it, node)
    ctx = interp.ctx
    k = z3.Int(fresh("ci"))
    with ctx.scope():
        ctx.assume(And(compare("<=", 0, SInt(k)), compare("<", SInt(k), n)))

        def cond_thunk():
            e2 = Env(env)
            interp.assign(g.target, getter(SInt(k)), e2, node)
            ok = True
            for c in g.ifs:
                ok = And(ok, interp.truth_term(interp.eval(c, e2), node))
            return ok
        saved = ctx.nofork
        ctx.nofork = 0
        try:
            cv = self.merge_paths(interp, ctx.explore_local(cond_thunk), node)
        finally:
            ctx.nofork = saved
        sel = z3.simplify(tb(cv)) if not isinstance(cv, bool) else z3.BoolVal(cv)
        with ctx.scope():
            ctx._add(sel)

            def elt_thunk():
                e2 = Env(env)
                interp.assign(g.target, getter(SInt(k)), e2, node)
                return interp.eval(node.elt, e2)
            ctx.nofork = 0
            try:
                v = self.merge_paths(interp, ctx.explore_local(elt_thunk), node)
            finally:
                ctx.nofork = saved
    m, pos, inv = selection(interp, n, k, sel)
    j = z3.Int(fresh("fl"))
    return self.lambda_seq(interp, m, j, subst_value(v, k, z3.Select(pos, j)), "list", node)


Lib.symbolic_comprehension = _symbolic_comprehension


# ---- np.roll on a 1-D sequence: result[k] = x[(k - shift) mod n]  (assumed numpy semantics; n > 0)

def _roll(self, interp, args, kwargs, node):
    from .sym import arith, SSeq as _SSeq
    from .lib import mk_seq, _ssel
    x, shift = args[0], args[1]
    if isinstance(x, CList) and isinstance(shift, int):
        n = len(x.items)
        return CList([x.items[(k_ - shift) % n] for k_ in range(n)] if n else [], x.kind, x.ekind)
    if isinstance(x, CList):
        x = self.to_sseq(interp, x, node)
    if not isinstance(x, _SSeq) or not isinstance(shift, (int, SInt)):
        interp.err(node, "np.roll(%r, %r)" % (x, shift))
    n = x.length
    k = z3.Int(fresh("rl"))
    src = tz(arith("%", arith("-", SInt(k), shift), n))
    out = mk_seq(interp, n, k, _ssel(x, "arr", src), x.kind, x.ekind, _ssel(x, "none", src) if x.none is not None else None)
    if getattr(x, "wrapk", None):
        out.wrapk = x.wrapk
    return out


Lib.f_np__roll = _roll
