"""Contracts and parameter specifications (the sidecar DSL)."""
from fractions import Fraction
import itertools
import z3

from .sym import (Sym, SInt, SReal, SBool, SSeq, CList, CDict, SRange, SOpt, SObj, SOpaque, CheckerError,
                  tz, tb, wrap, fresh, And, Or, Not, Implies, compare, arith, Len, At, ForAll, strictly_increasing,
                  range_axioms, sym_range)

REGISTRY = {}


def lift_native(v):
    """native Python / numpy value -> concrete engine value (floats become exact Fractions)"""
    import numpy as np
    if v is None or isinstance(v, (bool, str)):
        return v
    if isinstance(v, (np.bool_,)):
        return bool(v)
    if isinstance(v, (int, np.integer)):
        return int(v)
    if isinstance(v, (float, np.floating)):
        return Fraction(float(v))
    if isinstance(v, range):
        return SRange(v.start, v.stop, v.step)
    if isinstance(v, np.ndarray):
        ek = "int" if np.issubdtype(v.dtype, np.integer) else ("bool" if v.dtype == bool else "real")
        return CList([lift_native(x) for x in v], "ndarray", ek if v.dtype != object else None)
    if isinstance(v, list):
        return CList([lift_native(x) for x in v], "list")
    if isinstance(v, tuple):
        return tuple(lift_native(x) for x in v)
    if isinstance(v, dict):
        return CDict({k: lift_native(x) for k, x in v.items()})
    raise CheckerError("cannot lift native value %r" % (v,))


class Spec:
    """describes one parameter (or result): how to make a symbolic value, which kinds it ranges over,
    how to make a concrete-shape value, and how to turn a model into a native Python value"""

    def variants(self):
        return [("", self)]

    def make(self, name, ctx, shape=None):
        raise NotImplementedError

    def shapes(self, bound):
        return [None]

    def native(self, value, ev):
        """value: what make() returned; ev: term -> python number"""
        raise NotImplementedError

    def random(self, rng, shape=None):
        """a native Python value of this kind (small, for differential runs and the search for failing inputs)"""
        raise NotImplementedError

    def lift(self, v):
        """native value -> concrete engine value"""
        return lift_native(v)


class Int(Spec):
    def __init__(self, lo=None, hi=None, small=None):
        self.lo, self.hi, self.small = lo, hi, small

    def make(self, name, ctx, shape=None):
        v = SInt(z3.Int(fresh(name)))
        if self.lo is not None:
            ctx.assume(compare(">=", v, self.lo))
        if self.hi is not None:
            ctx.assume(compare("<=", v, self.hi))
        return v

    def native(self, value, ev):
        return int(ev(value))

    def random(self, rng, shape=None):
        lo = self.lo if self.lo is not None else -3
        hi = self.hi if self.hi is not None else lo + 9
        return rng.randint(lo, hi)


class ConcInt(Spec):
    """an int enumerated over a finite set (its value is concrete on every case)"""

    def __init__(self, values):
        self.values = list(values)

    def variants(self):
        return [(str(v), Const(v)) for v in self.values]


class Real(Spec):
    def make(self, name, ctx, shape=None):
        return SReal(z3.Real(fresh(name)))

    def native(self, value, ev):
        return float(ev(value))

    def random(self, rng, shape=None):
        return rng.choice([-2.5, -1.0, 0.0, 0.5, 1.0, 2.0, 3.25, rng.uniform(-4, 4)])


class Bool(Spec):
    def variants(self):
        return [("T", Const(True)), ("F", Const(False))]


class Const(Spec):
    def __init__(self, v):
        self.v = v

    def make(self, name, ctx, shape=None):
        return self.v

    def native(self, value, ev):
        v = self.v
        return float(v) if isinstance(v, Fraction) else v

    def random(self, rng, shape=None):
        return self.native(None, None)


class OneOf(Spec):
    def __init__(self, **alts):
        self.alts = alts

    def variants(self):
        out = []
        for k, s in self.alts.items():
            for lab, v in s.variants():
                out.append((k + (":" + lab if lab else ""), v))
        return out


class Seq(Spec):
    def __init__(self, ekind="real", kind="ndarray", min_len=0, opt=False):
        self.ekind, self.kind, self.min_len, self.opt = ekind, kind, min_len, opt

    def make(self, name, ctx, shape=None):
        if shape is not None:
            mk = {"real": lambda n: SReal(z3.Real(n)), "int": lambda n: SInt(z3.Int(n)), "bool": lambda n: SBool(z3.Bool(n))}[self.ekind]
            items = []
            for i in range(shape):
                v = mk(fresh("%s_%d" % (name, i)))
                if self.opt:
                    v = SOpt(SBool(z3.Bool(fresh("%s_%d_none" % (name, i)))), v)
                items.append(v)
            return CList(items, self.kind, self.ekind)
        s = SSeq.fresh(name, self.kind, self.ekind, opt=self.opt)
        ctx.assume(compare(">=", s.length, self.min_len))
        return s

    def shapes(self, bound):
        return list(range(self.min_len, bound + 1))

    def native(self, value, ev):
        import numpy as np
        items = []
        for x in value.items:
            if isinstance(x, SOpt):
                items.append(None if ev(x.isnone) else _num(ev(x.val), self.ekind))
            else:
                items.append(_num(ev(x), self.ekind))
        if self.kind == "ndarray" and not self.opt:
            return np.array(items, dtype=float if self.ekind == "real" else (bool if self.ekind == "bool" else int))
        if self.kind == "tuple":
            return tuple(items)
        return items

    def random(self, rng, shape=None):
        import numpy as np
        n = shape if shape is not None else rng.randint(self.min_len, self.min_len + 4)
        if self.ekind == "real":
            items = [rng.choice([0.0, 1.0, -1.0, 0.5, 2.0, rng.uniform(-3, 3), rng.uniform(-3, 3)]) for _ in range(n)]
        elif self.ekind == "int":
            items = [rng.randint(-3, 9) for _ in range(n)]
        else:
            items = [rng.random() < 0.5 for _ in range(n)]
        if self.opt:
            items = [None if rng.random() < 0.3 else x for x in items]
            return items if self.kind != "tuple" else tuple(items)
        if self.kind == "ndarray":
            return np.array(items, dtype=float if self.ekind == "real" else (bool if self.ekind == "bool" else int))
        return tuple(items) if self.kind == "tuple" else items


def RealSeq(**kw):
    return Seq("real", "ndarray", **kw)


def IntList(**kw):
    return Seq("int", "list", **kw)


def _num(x, ekind):
    if ekind == "real":
        return float(x)
    if ekind == "bool":
        return bool(x)
    return int(x)


class IdlRange(Spec):
    def __init__(self, min_len=1, closed_form=False):
        self.min_len = min_len
        self.closed_form = closed_form

    def make(self, name, ctx, shape=None):
        start = SInt(z3.Int(fresh(name + ".start")))
        step = SInt(z3.Int(fresh(name + ".step")))
        ctx.assume(compare(">=", step, 1))
        if shape is not None:
            stop = arith("+", start, arith("*", shape, step))
            return SRange(start, stop, step, clen=shape)
        n = SInt(z3.Int(fresh(name + ".n")))
        ctx.assume(compare(">=", n, self.min_len))
        r = sym_range(name, start, step, n)
        for ax in range_axioms(r, self.closed_form):
            ctx.assume(wrap(ax))
        return r

    def shapes(self, bound):
        return list(range(self.min_len, bound + 1))

    def native(self, value, ev):
        return range(int(ev(value.start)), int(ev(value.stop)), int(ev(value.step)))

    def random(self, rng, shape=None):
        n = shape if shape is not None else rng.randint(self.min_len, self.min_len + 4)
        start, step = rng.randint(-2, 6), rng.choice([1, 1, 2, 3])
        return range(start, start + n * step - rng.randint(0, step - 1), step)


class IdlList(Spec):
    def __init__(self, min_len=1, as_array=False):
        self.min_len = min_len
        self.as_array = as_array

    def make(self, name, ctx, shape=None):
        if shape is not None:
            items = [SInt(z3.Int(fresh("%s_%d" % (name, i)))) for i in range(shape)]
            v = CList(items, "list", "int")
            ctx.assume(strictly_increasing(v))
            return v
        s = SSeq.fresh(name, "list", "int")
        ctx.assume(compare(">=", s.length, self.min_len))
        ctx.assume(strictly_increasing(s))
        return s

    def shapes(self, bound):
        return list(range(self.min_len, bound + 1))

    def native(self, value, ev):
        return [int(ev(x)) for x in value.items]

    def random(self, rng, shape=None):
        n = shape if shape is not None else rng.randint(self.min_len, self.min_len + 4)
        start = rng.randint(-2, 6)
        out, cur = [], start
        for _ in range(n):
            out.append(cur)
            cur += rng.choice([1, 1, 2, 2, 3, 4])
        return out


class Idl(Spec):
    """a configuration list: range with positive step, or strictly increasing list of ints"""

    def __init__(self, min_len=1, closed_form=False):
        self.min_len = min_len
        self.closed_form = closed_form

    def variants(self):
        return [("range", IdlRange(self.min_len, self.closed_form)), ("list", IdlList(self.min_len))]


class ListOf(Spec):
    """Python list with a concrete number of elements (enumerated), each described by `elem`"""

    def __init__(self, elem, counts=(1, 2), kind="list"):
        self.elem, self.counts, self.kind = elem, counts, kind

    def variants(self):
        out = []
        for n in self.counts:
            ev = self.elem.variants()
            for combo in itertools.product(ev, repeat=n):
                lab = "[" + ";".join(c[0] for c in combo) + "]"
                out.append((lab, _FixedList([c[1] for c in combo], self.kind)))
        return out


class _FixedList(Spec):
    def __init__(self, elems, kind):
        self.elems, self.kind = elems, kind

    def make(self, name, ctx, shape=None):
        shp = shape if shape is not None else [None] * len(self.elems)
        return CList([e.make("%s%d" % (name, i), ctx, shp[i]) for i, e in enumerate(self.elems)], self.kind)

    def shapes(self, bound):
        return [list(c) for c in itertools.product(*[e.shapes(bound) for e in self.elems])]

    def native(self, value, ev):
        out = [e.native(v, ev) for e, v in zip(self.elems, value.items)]
        return tuple(out) if self.kind == "tuple" else out

    def random(self, rng, shape=None):
        shp = shape if shape is not None else [None] * len(self.elems)
        out = [e.random(rng, shp[i]) for i, e in enumerate(self.elems)]
        return tuple(out) if self.kind == "tuple" else out


class Custom(Spec):
    """escape hatch: make(name, ctx, shape) / shapes(bound) / native(value, ev) given as callables"""

    def __init__(self, make, shapes=None, native=None, variants=None, random=None, lift=None):
        self._make, self._shapes, self._native, self._variants = make, shapes, native, variants
        self._random, self._lift = random, lift

    def variants(self):
        if self._variants is None:
            return [("", self)]
        return self._variants()

    def make(self, name, ctx, shape=None):
        return self._make(name, ctx, shape)

    def shapes(self, bound):
        return self._shapes(bound) if self._shapes else [None]

    def native(self, value, ev):
        if self._native is None:
            raise CheckerError("no native form")
        return self._native(value, ev)

    def random(self, rng, shape=None):
        if self._random is None:
            raise CheckerError("no random generator")
        return self._random(rng, shape)

    def lift(self, v):
        return self._lift(v) if self._lift is not None else lift_native(v)


class Contract:
    def __init__(self, target, props, params=None, requires=None, ensures=None, raises=(), loops=None, result=None,
                 inline=(), inline_only=False, slice=None, class_attrs=None, writes=(), note="", shape_bound=4,
                 native=None, name=None, self_spec=None, max_shapes=60, crosscheck=True, refute=True, assumed=False,
                 native_call=None, cases_filter=None, gen=None, native_ok=True, compare_native=None, slice_note=None,
                 not_decided=(), lemmas=None, ghost_after=None, ghost_on=(), finite=None, locate=None, curry=(), finite_native=None, lib=None, may_raise=(), abstract_nl=True, abstract_real=False, overrides=None, register=True, sum_axioms=False, writable_attrs=None, pre_execute=None, reads_allowed=None, native_slice=False, axioms=None, bounded=None):
        self.target = target
        self.props = list(props)
        self.params = dict(params or {})
        self.requires = requires
        self.ensures = ensures
        self.ensures_old = False
        self.raises = list(raises)
        self.loops = dict(loops or {})
        self.result = result
        self.inline = tuple(inline)
        self.inline_only = inline_only
        self.slice = slice
        self.class_attrs = class_attrs or {}
        self.writes = tuple(writes)
        self.note = note
        self.shape_bound = shape_bound
        self.max_shapes = max_shapes
        self.crosscheck = crosscheck
        self.refute = refute
        self.assumed = assumed            # contract used at call sites but NOT verified here (listed as assumed)
        self.native_call = native_call    # how replay calls the real code (default: module attribute lookup)
        self.bounded = bounded            # text: what about this contract is only a bounded / sampled check (reported, never counted as proved)
        self.axioms = axioms              # callable -> list of z3 formulas: axioms of an assumed library theory used by this contract
        self.native_slice = native_slice  # replay / sampling executes the statement slice itself (compiled from the real source)
        self.cases_filter = cases_filter
        self.gen = gen                    # optional generator of native inputs: gen(rng, case) -> dict | None
        self.native_ok = native_ok        # False: no native entry point (nested function / slice): no sampling
        self.compare_native = compare_native
        self.slice_note = slice_note
        self.name_is_alias = False
        self.not_decided = list(not_decided)
        self.lemmas = dict(lemmas or {})
        self.ghost_after = dict(ghost_after or {})
        self.ghost_on = list(ghost_on)    # [(predicate(ast stmt) -> bool, ghost(view) -> commands)] run after matching statements
        self.finite_native = finite_native  # finite_native(obligation id) -> (fails natively: bool, text)
        self.may_raise = tuple(may_raise)  # exception classes that are acceptable outcomes without a stated condition
        self.abstract_real = abstract_real
        self.writable_attrs = dict(writable_attrs or {})   # param -> attribute names that may be written (everything else of that object is frozen)
        self.reads_allowed = reads_allowed  # {class name: attribute names that may be read}; every other attribute read of that class is a frame.read failure
        self.pre_execute = pre_execute    # hook(interp, mod, fnode, args) run before the body / slice (binds closures to live-in variables)
        self.sum_axioms = sum_axioms      # add the recursive definition and extensionality of SUM to the path condition
        self.overrides = dict(overrides or {})   # callee qualname -> contract used at call sites of THIS contract only
        self.abstract_nl = abstract_nl    # False: integer * // % stay interpreted (small nonlinear problems, e.g. bounded case splits)
        self.libname = lib                # None: plain library models; 'obs': observable-valued scalars (lib_obs)
        self.finite = finite              # finite(registry) -> list of (id, ok, detail): exhaustive exact decision
        self.curry = tuple(curry)         # parameters applied to the function value returned by a lambda-returning lambda
        self.locate = locate              # locate(module) -> AST node (for code that is not a named function)
        self.name = name or target
        self.short = (name or target.split("::", 1)[1])
        if register:
            REGISTRY[self.name] = self

    # ---- cases: one variant per parameter
    def cases(self):
        names = list(self.params)
        alts = [self.params[n].variants() for n in names]
        out = []
        for combo in itertools.product(*alts):
            case = {n: lab for n, (lab, _) in zip(names, combo) if lab != ""}
            specs = {n: sp for n, (_, sp) in zip(names, combo)}
            if self.cases_filter is not None and not self.cases_filter(case):
                continue
            out.append((case, specs))
        return out

    def specs_for(self, case):
        for c, specs in self.cases():
            if c == case:
                return specs
        raise CheckerError("unknown case %r" % (case,))

    def make_args(self, case, ctx, shape=None):
        specs = self.specs_for(case)
        args = {}
        for n, sp in specs.items():
            args[n] = sp.make(n, ctx, None if shape is None else shape.get(n))
        return args

    def shapes(self, case):
        specs = self.specs_for(case)
        names = list(specs)
        per = [specs[n].shapes(self.shape_bound) for n in names]
        out = []
        for combo in itertools.product(*per):
            out.append(dict(zip(names, combo)))
        return out

    def freeze(self, args):
        for n, v in args.items():
            if n in self.writes:
                continue
            if n in self.writable_attrs and isinstance(v, SObj):
                allowed = set(self.writable_attrs[n])
                v.frozen = True
                v.writable = allowed
                seen = {id(v)}
                for k, x in v.attrs.items():
                    if k not in allowed:
                        _freeze(x, seen)
                continue
            if isinstance(v, (SSeq, CList, CDict, SObj)):
                _freeze(v, set())

    def make_result(self, a, ctx):
        if self.result is None:
            return None
        if callable(self.result):
            try:
                sp = self.result(a, ctx)
            except TypeError:
                sp = self.result(a)
        else:
            sp = self.result
        if isinstance(sp, Spec):
            vs = sp.variants()
            if len(vs) != 1:
                raise CheckerError("result spec of %s must be single-variant at a call site" % self.name)
            return vs[0][1].make("res_" + self.short.replace(".", "_"), ctx)
        return sp   # already a value

    def execute(self, interp, mod, fnode, args):
        """run the function body (or the slice) on `args`"""
        env = Env(None)
        for k, v in args.items():
            env.set(k, v)
        if self.slice is not None:
            stmts = self.slice(mod, fnode)
            from .interp import _Continue
            env.set("__continued__", False)
            try:
                interp.exec_block(stmts, env)
            except _Continue:
                env.set("__continued__", True)      # a slice of a loop body ended with `continue`
            return View(env)
        # closures over an enclosing function: the enclosing variables are parameters of the contract
        interp.loop_counter = 0
        import ast as _ast
        if isinstance(fnode, _ast.Lambda):
            v = interp.eval(fnode.body, env)
            if self.curry:
                v = interp.call(v, [args[c] for c in self.curry], {}, fnode)
            return v
        if self.curry:
            env2 = Env(None)
            for k, v in args.items():
                if k not in self.curry:
                    env2.set(k, v)
            v = interp.run_body(fnode.body, env2)
            return interp.call(v, [args[c] for c in self.curry], {}, fnode)
        # defaults for parameters not given
        a = fnode.args
        params = [p.arg for p in a.posonlyargs + a.args]
        nd = len(a.defaults)
        for i, p in enumerate(params):
            if p not in env.vars:
                di = i - (len(params) - nd)
                if di >= 0:
                    env.set(p, interp.eval(a.defaults[di], env))
        for p, d in zip(a.kwonlyargs, a.kw_defaults):
            if p.arg not in env.vars and d is not None:
                env.set(p.arg, interp.eval(d, env))
        if a.kwarg is not None and a.kwarg.arg not in env.vars:
            env.set(a.kwarg.arg, CDict())
        return interp.run_body(fnode.body, env)

    def class_attr(self, interp, ctx, cls, attr, node):
        key = cls.split("::")[-1] + "." + attr
        if key in self.class_attrs:
            return self.class_attrs[key]
        return interp.eval(node, Env(None))


def _freeze(v, seen):
    if id(v) in seen:
        return
    seen.add(id(v))
    if isinstance(v, (SSeq, CList, CDict, SObj)):
        v.frozen = True
    if isinstance(v, CList):
        for x in v.items:
            _freeze(x, seen)
    elif isinstance(v, CDict):
        for x in v.d.values():
            _freeze(x, seen)
    elif isinstance(v, SObj):
        for x in v.attrs.values():
            _freeze(x, seen)


from .interp import Env, View  # noqa: E402  (cycle-free: interp does not import specs)


def contract(target, **kw):
    return Contract(target, **kw)
