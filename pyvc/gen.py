"""Generators of small native inputs (used for the vacuity guard, the CPython cross-check and the search for
an input to attach to a refuted obligation).  They never decide anything."""
import numpy as np


def idl(rng, kind, n=None, lo=-2, hi=6):
    n = n if n is not None else rng.randint(1, 6)
    start = rng.randint(lo, hi)
    if kind == "range":
        step = rng.choice([1, 1, 2, 3])
        return range(start, start + n * step - rng.randint(0, step - 1), step)
    out, cur = [], start
    for _ in range(n):
        out.append(cur)
        cur += rng.choice([1, 1, 2, 2, 3, 4])
    return out


def lattice_idl(rng, kind, gap, n=None):
    """idl whose elements all lie on first + m*gap"""
    n = n if n is not None else rng.randint(1, 6)
    start = rng.randint(-2, 6)
    if kind == "range":
        step = gap * rng.choice([1, 1, 2])
        return range(start, start + n * step, step)
    out, cur = [], start
    for _ in range(n):
        out.append(cur)
        cur += gap * rng.choice([1, 1, 2, 3])
    return out


def sub_idl(rng, sup, kind):
    """a non-empty idl of the given kind whose configurations all occur in `sup` (or None)"""
    els = list(sup)
    if not els:
        return None
    if kind == "list":
        k = rng.randint(1, len(els))
        return sorted(rng.sample(els, k))
    for _ in range(20):
        i0 = rng.randrange(len(els))
        m = rng.randint(1, max(1, len(els) - i0))
        c = rng.randint(1, (len(els) - i0 - 1) // m + 1)
        pick = [els[i0 + j * m] for j in range(c)]
        d = set(pick[i + 1] - pick[i] for i in range(len(pick) - 1))
        if len(d) <= 1:
            step = d.pop() if d else rng.choice([1, 2, 3])
            return range(pick[0], pick[-1] + 1, step)
    return range(els[0], els[0] + 1, 1)


def reals(rng, n):
    return np.array([rng.choice([0.0, 1.0, -1.0, 0.5, 2.0, rng.uniform(-3, 3), rng.uniform(-3, 3)]) for _ in range(n)], dtype=float)
