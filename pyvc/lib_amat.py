"""Abstract matrix algebra (assumed model of numpy / scipy linear algebra on float matrices; C10 / C16).

A matrix of floats is an element of an uninterpreted sort `Mat` with the ring operations as uninterpreted functions:

    MM(a, b)  a @ b      ADD / SUB / NEG      TR(a)  a.T      I  identity      J  exchange matrix (reverses rows / columns)
    INV(a), CHOL(a), EIGV(a) (orthonormal eigenvectors as columns, ascending eigenvalues), LAM(a) (diag of eigenvalues),
    GEIGV(a, b), GLAM(a, b) (generalised symmetric-definite problem, scipy.linalg.eigh(a, b))

Axioms (ring laws, transposition, exchange matrix, and the defining equations of inverse / Cholesky / eigen-decompositions)
are stated once in AXIOMS and added to the path condition of contracts that use this model.  Dimensions are concrete per
case; entries are never inspected (an entry access yields an uninterpreted real).
"""
from fractions import Fraction
import z3

from .sym import (Sym, SInt, SReal, SBool, SSeq, CList, CDict, SObj, SOpaque, CheckerError, wrap, fresh)
from .interp import PyRaise, LibFn
from .lib import Lib, SCALAR

M = z3.DeclareSort("Mat")
MM = z3.Function("MM", M, M, M)
ADD = z3.Function("MADD", M, M, M)
NEG = z3.Function("MNEG", M, M)
TR = z3.Function("TR", M, M)
INV = z3.Function("MINV", M, M)
CHOL = z3.Function("CHOL", M, M)
EIGV = z3.Function("EIGV", M, M)
LAM = z3.Function("LAM", M, M)
GEIGV = z3.Function("GEIGV", M, M, M)
GLAM = z3.Function("GLAM", M, M, M)
ELEM = z3.Function("MELEM", M, z3.IntSort(), z3.IntSort(), z3.RealSort())
I = z3.Const("MI", M)
J = z3.Const("MJ", M)
ZERO = z3.Const("MZERO", M)
SPD = z3.Function("is_spd", M, z3.BoolSort())


def SUB(a, b):
    return ADD(a, NEG(b))


def axioms():
    a, b, c = z3.Consts("ma mb mc", M)
    return [
        z3.ForAll([a, b, c], MM(MM(a, b), c) == MM(a, MM(b, c)), patterns=[MM(MM(a, b), c), MM(a, MM(b, c))]),
        z3.ForAll([a, b], TR(MM(a, b)) == MM(TR(b), TR(a)), patterns=[TR(MM(a, b)), MM(TR(b), TR(a))]),
        z3.ForAll([a], TR(TR(a)) == a),
        z3.ForAll([a], MM(I, a) == a), z3.ForAll([a], MM(a, I) == a),
        MM(J, J) == I, TR(J) == J, TR(I) == I,
        # additive group and distributivity
        z3.ForAll([a, b], ADD(a, b) == ADD(b, a), patterns=[ADD(a, b)]),
        z3.ForAll([a, b, c], ADD(ADD(a, b), c) == ADD(a, ADD(b, c)), patterns=[ADD(ADD(a, b), c), ADD(a, ADD(b, c))]),
        z3.ForAll([a], ADD(a, ZERO) == a), z3.ForAll([a], ADD(a, NEG(a)) == ZERO), z3.ForAll([a], NEG(NEG(a)) == a),
        z3.ForAll([a, b, c], MM(a, ADD(b, c)) == ADD(MM(a, b), MM(a, c)), patterns=[MM(a, ADD(b, c))]),
        z3.ForAll([a, b, c], MM(ADD(a, b), c) == ADD(MM(a, c), MM(b, c)), patterns=[MM(ADD(a, b), c)]),
        z3.ForAll([a, b], MM(a, NEG(b)) == NEG(MM(a, b)), patterns=[MM(a, NEG(b))]),
        z3.ForAll([a, b], MM(NEG(a), b) == NEG(MM(a, b)), patterns=[MM(NEG(a), b)]),
        z3.ForAll([a, b], NEG(ADD(a, b)) == ADD(NEG(a), NEG(b)), patterns=[NEG(ADD(a, b))]),
        # defining equations of the decompositions (assumed numpy / scipy semantics)
        z3.ForAll([a], z3.And(MM(INV(a), a) == I, MM(a, INV(a)) == I), patterns=[INV(a)]),
        z3.ForAll([a], z3.Implies(SPD(a), MM(CHOL(a), TR(CHOL(a))) == a), patterns=[CHOL(a)]),
        z3.ForAll([a], MM(a, EIGV(a)) == MM(EIGV(a), LAM(a)), patterns=[EIGV(a)]),
        z3.ForAll([a, b], z3.Implies(SPD(b), MM(a, GEIGV(a, b)) == MM(MM(b, GEIGV(a, b)), GLAM(a, b))), patterns=[GEIGV(a, b)]),
    ]


class AMat(Sym):
    def __init__(self, t, n):
        self.t, self.n = t, n          # n: concrete dimension (square)
        self.frozen = False

    def __repr__(self):
        return "AMat(%s)" % self.t


def fresh_mat(name, n):
    return AMat(z3.Const(fresh(name), M), n)


def _is(x):
    return isinstance(x, AMat)


_old_getattr = Lib.getattr


def _getattr(self, interp, obj, attr, node):
    if _is(obj):
        if attr == "T":
            return AMat(TR(obj.t), obj.n)
        if attr == "shape":
            return (obj.n, obj.n)
        if attr == "ndim":
            return 2
    return _old_getattr(self, interp, obj, attr, node)


Lib.getattr = _getattr
_old_matmul = Lib.matmul


def _matmul(self, interp, a, b, node):
    if _is(a) and _is(b):
        if a.n != b.n:
            raise PyRaise("ValueError", "matmul: dimension mismatch", node)
        return AMat(MM(a.t, b.t), a.n)
    if _is(a) or _is(b):
        interp.err(node, "@ of an abstract matrix and %r" % (b if _is(a) else a,))
    return _old_matmul(self, interp, a, b, node)


Lib.matmul = _matmul
_old_binop_ext = Lib.binop_ext


def _binop_ext(self, interp, op, a, b, node):
    if _is(a) and _is(b) and op in ("+", "-"):
        return AMat(ADD(a.t, b.t) if op == "+" else SUB(a.t, b.t), a.n)
    if _is(a) or _is(b):
        interp.err(node, "operation %s on an abstract matrix" % op)
    return _old_binop_ext(self, interp, op, a, b, node)


Lib.binop_ext = _binop_ext
_old_getitem_ext = Lib.getitem_ext


def _getitem_ext(self, interp, obj, idx, node):
    if _is(obj):
        if isinstance(idx, int):
            return SOpaque("amatrow", (obj, idx))
        if isinstance(idx, tuple) and len(idx) == 2 and all(isinstance(i, int) for i in idx):
            return wrap(ELEM(obj.t, idx[0], idx[1]))
        interp.err(node, "index %r into an abstract matrix" % (idx,))
    if isinstance(obj, SOpaque) and obj.tag == "amatrow" and isinstance(idx, int):
        m, i = obj.payload
        return wrap(ELEM(m.t, i, idx))
    return _old_getitem_ext(self, interp, obj, idx, node)


Lib.getitem_ext = _getitem_ext
_old_getslice = Lib.getslice


def _getslice(self, interp, obj, lo, hi, st, node):
    if _is(obj):
        if lo is None and hi is None and st == -1:
            return AMat(MM(J, obj.t), obj.n)          # rows reversed
        if lo is None and hi is None and st in (None, 1):
            return obj
        interp.err(node, "slice of an abstract matrix")
    return _old_getslice(self, interp, obj, lo, hi, st, node)


Lib.getslice = _getslice


def _chol(self, interp, args, kwargs, node):
    a = args[0]
    if not _is(a):
        interp.err(node, "cholesky of %r" % (a,))
    if not interp.ctx.decide(SPD(a.t), "np.linalg.LinAlgError", node):
        raise PyRaise("np.linalg.LinAlgError", "Matrix is not positive definite", node)
    return AMat(CHOL(a.t), a.n)


def _inv(self, interp, args, kwargs, node):
    a = args[0]
    if not _is(a):
        interp.err(node, "inv of %r" % (a,))
    return AMat(INV(a.t), a.n)


def _eigh(self, interp, args, kwargs, node):
    a = args[0]
    if _is(a) and len(args) == 1:
        return (SOpaque("eigvals"), AMat(EIGV(a.t), a.n))
    return _old_np_eigh(self, interp, args, kwargs, node)


def _sp_eigh(self, interp, args, kwargs, node):
    a = args[0]
    b = args[1] if len(args) > 1 else kwargs.get("b")
    if _is(a) and _is(b):
        if not interp.ctx.decide(SPD(b.t), "np.linalg.LinAlgError", node):
            raise PyRaise("np.linalg.LinAlgError", "b is not positive definite", node)
        return (SOpaque("eigvals"), AMat(GEIGV(a.t, b.t), a.n))
    interp.err(node, "scipy.linalg.eigh(%r)" % (a,))


def _multi_dot(self, interp, args, kwargs, node):
    ops = self.iterate_concrete(interp, args[0], node)
    if not ops or not all(_is(o) for o in ops):
        interp.err(node, "multi_dot of non-matrices")
    cur = ops[0]
    for o in ops[1:]:
        cur = AMat(MM(cur.t, o.t), cur.n)
    return cur


def _flip(self, interp, args, kwargs, node):
    a = args[0]
    ax = kwargs.get("axis", args[1] if len(args) > 1 else None)
    if _is(a) and ax == 1:
        return AMat(MM(a.t, J), a.n)       # columns reversed
    if _is(a) and ax == 0:
        return AMat(MM(J, a.t), a.n)
    interp.err(node, "np.flip(%r, axis=%r)" % (a, ax))


_old_np_eigh = Lib.f_np__linalg__eigh
Lib.f_np__linalg__cholesky = _chol
Lib.f_np__linalg__inv = _inv
Lib.f_np__linalg__eigh = _eigh
Lib.f_scipy__linalg__eigh = _sp_eigh
Lib.f_np__linalg__multi_dot = _multi_dot
Lib.f_np__flip = _flip


# ---- object arrays of concrete shape (np.empty((n, m), dtype=object), np.copy): nested lists of cells

def _empty(self, interp, args, kwargs, node):
    shp = args[0]
    if isinstance(shp, tuple) and len(shp) == 2 and all(isinstance(x, int) for x in shp):
        return CList([CList([None] * shp[1], "ndarray") for _ in range(shp[0])], "ndarray")
    if isinstance(shp, int):
        return CList([None] * shp, "ndarray")
    interp.err(node, "np.empty with symbolic shape")


def _copy(self, interp, args, kwargs, node):
    x = args[0]
    if isinstance(x, CList):
        return CList([_copy(self, interp, [y], {}, node) if isinstance(y, CList) else y for y in x.items], x.kind, x.ekind)
    if _is(x) or isinstance(x, SCALAR):
        return x
    interp.err(node, "np.copy(%r)" % (x,))


Lib.f_np__empty = _empty
Lib.f_np__copy = _copy


VALS = z3.Function("MVALS", M, M)          # matrix of central values of a matrix of observables


def install_calc(lib_calc_mod):
    old = lib_calc_mod.call_opaque

    def call_opaque(self, interp, fn, args, kwargs, node):
        if fn.tag == "vectorized" and args and _is(args[0]):
            # np.vectorize(lambda x: x.value)(matrix of observables): the matrix of central values
            probe = SObj("Obs", {"_value": SReal(z3.Real(fresh("probe.value")))})
            r = interp.call(fn.payload, [probe], {}, node)
            if r is probe.attrs["_value"]:
                return AMat(VALS(args[0].t), args[0].n)
            interp.err(node, "np.vectorize of an unknown function over an abstract matrix")
        return old(self, interp, fn, args, kwargs, node)
    lib_calc_mod.call_opaque = call_opaque
