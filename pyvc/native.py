"""Native side: call the real function from /repo, evaluate a contract on native values, JSON encoding."""
import copy
import importlib
import math
import os
import sys
from fractions import Fraction

from .source import REPO
from .sym import CheckerError, SSeq, CList, CDict, SRange, SOpt, SObj, SInt, SReal, SBool
from .driver import Namespace
from .interp import _named, exc_matches


def repo_module(modname):
    """import a module of the package under verification (from PYVC_REPO, default /repo)"""
    if REPO not in sys.path:
        sys.path.insert(0, REPO)
    mod = importlib.import_module(modname)
    if not os.path.abspath(mod.__file__).startswith(os.path.abspath(REPO)):
        raise CheckerError("module %s was imported from %s, not from %s" % (modname, mod.__file__, REPO))
    return mod


def real_function(target):
    """'pyerrors/obs.py::Obs.gamma_method' -> the function object of the package in /repo"""
    if REPO not in sys.path:
        sys.path.insert(0, REPO)
    rel, qual = target.split("::", 1)
    modname = rel[:-3].replace("/", ".")
    mod = importlib.import_module(modname)
    if not os.path.abspath(mod.__file__).startswith(os.path.abspath(REPO)):
        raise CheckerError("module %s was imported from %s, not from %s" % (modname, mod.__file__, REPO))
    if "::" in qual:
        raise CheckerError("nested function %s has no native entry point" % qual)
    obj = mod
    for part in qual.split("."):
        obj = getattr(obj, part)
    return obj


def encode(v):
    import numpy as np
    if v is None or isinstance(v, (bool, int, str)):
        return v
    if isinstance(v, float):
        if math.isnan(v) or math.isinf(v):
            return {"__float__": repr(v)}
        return v
    if isinstance(v, (np.bool_,)):
        return bool(v)
    if isinstance(v, np.integer):
        return int(v)
    if isinstance(v, np.floating):
        return encode(float(v))
    if isinstance(v, range):
        return {"__range__": [v.start, v.stop, v.step]}
    if isinstance(v, np.ndarray):
        return {"__nd__": [encode(x) for x in v.tolist()], "dtype": str(v.dtype)}
    if isinstance(v, list):
        return [encode(x) for x in v]
    if isinstance(v, tuple):
        return {"__tuple__": [encode(x) for x in v]}
    if isinstance(v, dict):
        return {"__dict__": [[encode(k), encode(x)] for k, x in v.items()]}
    if isinstance(v, complex):
        return {"__complex__": [v.real, v.imag]}
    tn = type(v).__name__
    if tn == "SimpleNamespace":
        return {"__ns__": {k: encode(x) for k, x in vars(v).items()}}
    if tn == "Corr" and getattr(v, "N", 1) > 1:
        # matrix-valued correlator: central values per timeslice (observables are rebuilt with a fixed small noise pattern)
        return {"__corrmat__": [None if x is None else [[float(o.value) for o in row] for row in x] for x in v.content]}
    if tn == "Corr" and getattr(v, "N", None) == 1:
        return {"__corr__": [None if x is None else float(x[0].value) for x in v.content],
                "prange": encode(v.prange), "tag": encode(v.tag)}
    if tn == "Obs":
        if len(v.names) >= 1 and all(n in v.idl for n in v.names):
            out = {"__obsfull__": {n: [encode(v.idl[n] if isinstance(v.idl[n], range) else list(v.idl[n])),
                                       [float(x) for x in (v.deltas[n] + v.r_values[n])]] for n in v.names},
                   "reweighted": bool(v.reweighted)}
            out["value"] = float(v.value)
            out["dvalue"] = float(v._dvalue)
            if hasattr(v, "e_dvalue") and getattr(v, "S", None):
                # an analysed observable: the analysis is repeated with the same parameters when the input is decoded
                out["analysed"] = {"S": float(list(v.S.values())[0]), "tau_exp": float(list(v.tau_exp.values())[0]),
                                   "N_sigma": float(list(v.N_sigma.values())[0])}
            return out
        return {"__obs__": float(v.value)}
    return {"__repr__": repr(v)}


def decode(v):
    import numpy as np
    if isinstance(v, list):
        return [decode(x) for x in v]
    if isinstance(v, dict):
        if "__range__" in v:
            return range(*v["__range__"])
        if "__nd__" in v:
            return np.array([decode(x) for x in v["__nd__"]], dtype=v.get("dtype", "float64"))
        if "__tuple__" in v:
            return tuple(decode(x) for x in v["__tuple__"])
        if "__dict__" in v:
            return {decode(k) if not isinstance(k, list) else tuple(k): decode(x) for k, x in v["__dict__"]}
        if "__float__" in v:
            return float(v["__float__"])
        if "__ns__" in v:
            import types
            return types.SimpleNamespace(**{k: decode(x) for k, x in v["__ns__"].items()})
        if "__complex__" in v:
            return complex(*v["__complex__"])
        if "__corrmat__" in v:
            import numpy as _np
            pe = repo_module("pyerrors.obs")
            co = repo_module("pyerrors.correlators")
            noise = _np.array([0.01, -0.01, 0.02, -0.02, 0.005, -0.005]) * 1e-3
            content = []
            for x in v["__corrmat__"]:
                if x is None:
                    content.append(None)
                    continue
                m = _np.empty((len(x), len(x[0])), dtype=object)
                for i, row in enumerate(x):
                    for j, val in enumerate(row):
                        m[i, j] = pe.Obs([val + noise], ["e"])
                content.append(m)
            return co.Corr(content)
        if "__corr__" in v:
            from contracts.corr import native_corr
            c = native_corr(v["__corr__"], prange=decode(v.get("prange")))
            c.tag = decode(v.get("tag"))
            return c
        if "__obsfull__" in v:
            from contracts.obsmodel import native_obs_from
            o = native_obs_from({"chains": {n: (decode(x[0]), x[1]) for n, x in v["__obsfull__"].items()},
                                 "reweighted": v.get("reweighted")})
            if v.get("analysed"):
                o.gamma_method(**v["analysed"])
            # central value / error set directly on the object (inputs built from a solver model)
            if "value" in v and abs(float(o.value) - v["value"]) > 1e-12 * max(1.0, abs(v["value"])):
                o._value = v["value"]
            if "dvalue" in v and abs(float(o._dvalue) - v["dvalue"]) > 1e-12 * max(1.0, abs(v["dvalue"])):
                o._dvalue = v["dvalue"]
            return o
        if "__obs__" in v:
            from contracts.corr import native_obs
            return native_obs(v["__obs__"])
        raise CheckerError("cannot decode %r" % (v,))
    return v


def _truthy(x):
    try:
        return bool(x)
    except Exception:
        return False


def run_slice_native(C, args):
    """execute the statement slice of a contract natively: the statements are taken from the AST of the real source, compiled
    and run with the live-in variables as locals and the globals of the real module (so the real helpers / imports are used)"""
    import ast
    from .source import SourceRegistry
    reg = SourceRegistry()
    mod, fnode = reg.function(C.target, C.locate)
    stmts = C.slice(mod, fnode)
    rel = C.target.split("::", 1)[0]
    real_mod = repo_module(rel[:-3].replace("/", "."))
    # a one-iteration loop around the statements makes a `continue` of the sliced loop body legal
    wrapper = ast.For(target=ast.Name(id="__once__", ctx=ast.Store()), iter=ast.List(elts=[ast.Constant(value=0)], ctx=ast.Load()),
                      body=list(stmts), orelse=[], type_comment=None)
    fdef = ast.FunctionDef(name="__slice__", args=ast.arguments(posonlyargs=[], args=[ast.arg(arg=k) for k in args], vararg=None,
                                                                 kwonlyargs=[], kw_defaults=[], kwarg=None, defaults=[]),
                           body=[wrapper, ast.Return(value=ast.Call(func=ast.Name(id="locals", ctx=ast.Load()), args=[], keywords=[]))],
                           decorator_list=[], returns=None, type_comment=None, type_params=[])
    module = ast.Module(body=[fdef], type_ignores=[])
    ast.fix_missing_locations(module)
    g = dict(vars(real_mod))
    exec(compile(module, "<slice of %s>" % C.target, "exec"), g)
    out = g["__slice__"](**args)
    out.pop("__once__", None)
    return Namespace(out)


def run_native(C, nargs):
    """call the real code; returns (outcome, value_or_exception_class_name, post_args)"""
    call = C.native_call
    args = copy.deepcopy(nargs)
    try:
        if call is not None:
            res = call(args)
        elif getattr(C, "native_slice", False) and C.slice is not None:
            res = run_slice_native(C, args)
        else:
            fn = real_function(C.target)
            import inspect
            call = dict(args)
            try:
                sig = inspect.signature(fn)
                for pn, prm in sig.parameters.items():
                    if prm.kind == inspect.Parameter.VAR_KEYWORD and pn in call and isinstance(call[pn], dict):
                        call.update(call.pop(pn))       # a contract parameter standing for **kwargs
            except (TypeError, ValueError):
                pass
            res = fn(**call)
        return "return", res, args
    except Exception as e:  # the verified code's exceptions are outcomes
        name = type(e).__name__
        mod = type(e).__module__
        if mod == "struct":
            name = "struct.error"
        if name == "LinAlgError":
            name = "np.linalg.LinAlgError"
        return "raise", name, args


def eval_contract_native(C, nargs, outcome, value, post_args):
    """-> list of failed clause names (empty = contract holds on this input)"""
    a = Namespace(dict(nargs))
    a.__dict__["post"] = Namespace(dict(post_args))
    failed = []
    if outcome == "return":
        if C.ensures is not None:
            for nm, f in _named(C.ensures(a, value)):
                if isinstance(f, tuple) and f and f[0] in ("induct", "induct_down", "assert"):
                    continue      # ghost step of the proof: nothing to evaluate natively
                try:
                    ok = _truthy(f)
                except Exception as e:
                    ok = False
                if not ok:
                    failed.append("post." + nm)
        for cls, when in C.raises:
            if _truthy(when(a)):
                failed.append("raises.required." + cls)
    else:
        allowed = [when(a) for cls, when in C.raises if exc_matches(value, cls)]
        if any(exc_matches(value, m) for m in C.may_raise):
            allowed.append(True)
        if not any(_truthy(w) for w in allowed):
            failed.append(("raises.allowed." if allowed else "safe.") + value)
    # frame: arguments not listed as writable must be unchanged
    for k, v in nargs.items():
        if k in C.writes:
            continue
        if not same_native(v, post_args.get(k)):
            failed.append("frame.write." + k)
    return failed


def pre_holds_native(C, nargs):
    if C.requires is None:
        return True
    a = Namespace(dict(nargs))
    try:
        return all(_truthy(f) for _, f in _named(C.requires(a)))
    except Exception:
        return False


def same_native(a, b, tol=0.0):
    import numpy as np
    if isinstance(a, np.ndarray) or isinstance(b, np.ndarray):
        try:
            a1, b1 = np.asarray(a), np.asarray(b)
            if a1.shape != b1.shape:
                return False
            if a1.dtype == object or b1.dtype == object:
                return all(same_native(x, y, tol) for x, y in zip(a1.ravel().tolist(), b1.ravel().tolist()))
            return bool(np.allclose(a1, b1, rtol=tol, atol=tol, equal_nan=True)) if tol else bool(np.array_equal(a1, b1))
        except Exception:
            return False
    if isinstance(a, (list, tuple)) and isinstance(b, (list, tuple)):
        return type(a) is type(b) and len(a) == len(b) and all(same_native(x, y, tol) for x, y in zip(a, b))
    if isinstance(a, dict) and isinstance(b, dict):
        return set(a) == set(b) and all(same_native(a[k], b[k], tol) for k in a)
    if isinstance(a, float) or isinstance(b, float):
        try:
            return math.isclose(float(a), float(b), rel_tol=tol, abs_tol=tol) if tol else float(a) == float(b)
        except Exception:
            return False
    if isinstance(a, range) or isinstance(b, range):
        return isinstance(a, range) and isinstance(b, range) and a == b
    ta, tb_ = type(a).__name__, type(b).__name__
    if ta == "SimpleNamespace" and tb_ == "SimpleNamespace":
        return same_native(vars(a), vars(b), tol)
    if ta in ("Corr", "Obs", "CObs") or tb_ in ("Corr", "Obs", "CObs"):
        if ta != tb_:
            return False
        if ta == "Corr":
            return a.T == b.T and a.N == b.N and same_native(a.prange, b.prange, tol) and same_native(a.tag, b.tag, tol) and \
                all(same_native(x, y, tol) for x, y in zip(a.content, b.content))
        if ta == "CObs":
            return same_native(a.real, b.real, tol) and same_native(a.imag, b.imag, tol)
        return a is b or (same_native(float(a.value), float(b.value), tol) and list(a.names) == list(b.names)
                          and all(same_native(a.deltas[n], b.deltas[n], tol) for n in a.names if n in a.deltas)
                          and all(same_native(a.idl[n], b.idl[n], tol) for n in a.names if n in a.idl))
    try:
        r = a == b
        return bool(r)
    except Exception:
        return a is b


def engine_to_native(v):
    """concrete engine value -> native value (for the differential cross-check)"""
    import numpy as np
    if v is None or isinstance(v, (bool, str, int)):
        return v
    if isinstance(v, Fraction):
        return float(v)
    if isinstance(v, tuple):
        return tuple(engine_to_native(x) for x in v)
    if isinstance(v, CList):
        items = [engine_to_native(x) for x in v.items]
        if v.kind == "ndarray":
            return np.array(items, dtype=object if any(x is None for x in items) else None) if items else np.array([], dtype=float)
        return tuple(items) if v.kind == "tuple" else items
    if isinstance(v, CDict):
        return {k: engine_to_native(x) for k, x in v.d.items()}
    if isinstance(v, SRange):
        if all(isinstance(x, int) for x in (v.start, v.step)) and (isinstance(v.stop, int) or isinstance(v.clen, int)):
            stop = v.stop if isinstance(v.stop, int) else v.start + v.clen * v.step
            return range(v.start, stop, v.step)
    if isinstance(v, SOpt):
        if v.isnone is True:
            return None
        if v.isnone is False:
            return engine_to_native(v.val)
    if isinstance(v, SSeq) and isinstance(v.length, int):
        import z3
        items = []
        for i in range(v.length):
            t = z3.simplify(z3.Select(v.arr, i))
            if z3.is_int_value(t):
                x = t.as_long()
            elif z3.is_rational_value(t):
                x = float(Fraction(t.numerator_as_long(), t.denominator_as_long()))
            elif z3.is_true(t) or z3.is_false(t):
                x = z3.is_true(t)
            else:
                raise NotConcrete(repr(t))
            if v.none is not None:
                nn = z3.simplify(z3.Select(v.none, i))
                if z3.is_true(nn):
                    x = None
                elif not z3.is_false(nn):
                    raise NotConcrete(repr(nn))
            items.append(x)
        if v.kind == "ndarray":
            return np.array(items, dtype=float if v.ekind == "real" else None)
        return tuple(items) if v.kind == "tuple" else items
    raise NotConcrete(repr(v))


class NotConcrete(Exception):
    pass
