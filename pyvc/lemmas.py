"""Lemma library: mathematical facts used as axioms inside verification conditions, each discharged on its own.

div.*   floor division / modulo by a positive divisor (sym.div_lemmas): the VCs only see the uninterpreted
        fdiv / fmod constrained by these lemmas; here each lemma is proved by z3 over the interpreted div / mod.
"""
import time
import z3

from .sym import div_lemmas


def check_lemmas(prop, contracts):
    out = []
    vs, lems = div_lemmas(lambda a, b: a / b, lambda a, b: a % b)
    for name, (f, _) in lems.items():
        s = z3.Solver()
        s.set("timeout", 20000)
        s.add(z3.Not(f))
        t0 = time.time()
        r = s.check()
        out.append({"id": "lemma.div.%s" % name, "verdict": "proved" if r == z3.unsat else ("refuted" if r == z3.sat else "unknown"),
                    "backend": "z3-nia", "solver_s": round(time.time() - t0, 4)})
    from .sym import mul_lemmas
    vs, lems = mul_lemmas(lambda a, b: a * b)
    for name, (f, _) in lems.items():
        s = z3.Solver()
        s.set("timeout", 20000)
        s.add(z3.Not(f))
        t0 = time.time()
        r = s.check()
        out.append({"id": "lemma.mul.%s" % name, "verdict": "proved" if r == z3.unsat else ("refuted" if r == z3.sat else "unknown"),
                    "backend": "z3-nia", "solver_s": round(time.time() - t0, 4)})
    for c in contracts:
        for name, thunk in c.lemmas.items():
            t0 = time.time()
            f = thunk()
            s = z3.Solver()
            s.set("timeout", 30000)
            s.add(z3.Not(f))
            r = s.check()
            out.append({"id": "lemma.%s.%s" % (c.short, name), "verdict": "proved" if r == z3.unsat else ("refuted" if r == z3.sat else "unknown"),
                        "backend": "z3-lemma", "solver_s": round(time.time() - t0, 4)})
    return out
