"""Locating the real code: every run parses the *current* text of /repo."""
import ast
import hashlib
import os

from .interp import RepoFn, RepoClass
from .sym import CheckerError

REPO = os.environ.get("PYVC_REPO", "/repo")
CANON = {"numpy": "np", "autograd.numpy": "anp", "matplotlib.pyplot": "plt", "numdifftools": "nd"}


class ModuleInfo:
    def __init__(self, relpath, registry):
        self.relpath = relpath
        self.registry = registry
        path = os.path.join(REPO, relpath)
        with open(path) as fh:
            self.text = fh.read()
        self.tree = ast.parse(self.text, filename=path)
        self.aliases = {}        # local name -> dotted module (import numpy as np)
        self.from_imports = {}   # local name -> (module, level)
        self.functions = {}      # qualname -> FunctionDef
        self.classes = {}        # name -> ClassDef
        self.toplevel = {}       # name -> node (function/class/assign value)
        self.assigns = {}        # module level constant assignments: name -> value node
        for node in self.tree.body:
            if isinstance(node, ast.Import):
                for a in node.names:
                    full = a.name if a.asname else a.name.split(".")[0]
                    self.aliases[a.asname or a.name.split(".")[0]] = CANON.get(full, full)
            elif isinstance(node, ast.ImportFrom):
                for a in node.names:
                    self.from_imports[a.asname or a.name] = (node.module, node.level, a.name)
            elif isinstance(node, ast.FunctionDef):
                self.toplevel[node.name] = node
                self._collect(node, node.name)
            elif isinstance(node, ast.ClassDef):
                self.classes[node.name] = node
                self.toplevel[node.name] = node
                for sub in node.body:
                    if isinstance(sub, ast.FunctionDef):
                        self._collect(sub, node.name + "." + sub.name)
            elif isinstance(node, ast.Assign) and len(node.targets) == 1 and isinstance(node.targets[0], ast.Name):
                self.assigns[node.targets[0].id] = node.value

    def _collect(self, node, qual):
        self.functions[qual] = node
        for sub in ast.walk(node):
            if sub is not node and isinstance(sub, ast.FunctionDef):
                # nested: qual::name (first level only is enough for our anchors)
                self.functions.setdefault(qual + "::" + sub.name, sub)

    def fq(self, qual):
        return self.relpath + "::" + qual

    def resolve(self, name):
        node = self.toplevel.get(name)
        if isinstance(node, ast.FunctionDef):
            return RepoFn(self.fq(name), node)
        if isinstance(node, ast.ClassDef):
            return RepoClass(self.fq(name), node)
        if name in self.assigns:
            v = self.assigns[name]
            # alias of a function:  gm = gamma_method
            if isinstance(v, ast.Name) and v.id in self.toplevel:
                return self.resolve(v.id)
        return None

    def class_member(self, cls, attr):
        # cls may be "Obs" or a fully qualified "pyerrors/obs.py::Obs"
        mod = self
        if "::" in cls:
            rel, cls = cls.split("::", 1)
            mod = self.registry.module(rel)
        c = mod.classes.get(cls)
        if c is None:
            return None
        for sub in c.body:
            if isinstance(sub, ast.FunctionDef) and sub.name == attr:
                isprop = any(isinstance(d, ast.Name) and d.id == "property" for d in sub.decorator_list)
                return ("property" if isprop else "method", sub, mod.fq(cls + "." + attr))
            if isinstance(sub, ast.Assign) and len(sub.targets) == 1 and isinstance(sub.targets[0], ast.Name) and sub.targets[0].id == attr:
                if isinstance(sub.value, ast.Name):
                    for s2 in c.body:
                        if isinstance(s2, ast.FunctionDef) and s2.name == sub.value.id:
                            return ("method", s2, mod.fq(cls + "." + s2.name))
                return ("classattr", sub.value, mod.fq(cls + "." + attr))
        return None

    def is_trivial(self, fnode):
        """property getters of the form `return self._x`"""
        body = [s for s in fnode.body if not (isinstance(s, ast.Expr) and isinstance(s.value, ast.Constant))]
        if len(body) == 1 and isinstance(body[0], ast.Return) and isinstance(body[0].value, ast.Attribute) \
                and isinstance(body[0].value.value, ast.Name) and body[0].value.value.id == "self":
            return True
        return False

    def module_of(self, qual):
        rel = qual.split("::", 1)[0]
        return self.registry.module(rel)

    def segment(self, node):
        return ast.get_source_segment(self.text, node) or ""

    def describe(self, node, qual):
        seg = self.segment(node) if hasattr(node, "lineno") else self.text
        return {"function": self.fq(qual), "lines": [getattr(node, "lineno", 1), getattr(node, "end_lineno", len(self.text.splitlines()))],
                "sha256": hashlib.sha256(seg.encode()).hexdigest()[:16]}


class SourceRegistry:
    def __init__(self):
        self.mods = {}

    def module(self, relpath):
        if relpath not in self.mods:
            self.mods[relpath] = ModuleInfo(relpath, self)
        return self.mods[relpath]

    def function(self, target, locate=None):
        """target = 'pyerrors/obs.py::Obs.gamma_method::_compute_drho'"""
        rel, qual = target.split("::", 1)
        mod = self.module(rel)
        if locate is not None:
            node = locate(mod)
            if node is None:
                raise CheckerError("contract no longer binds: %s not located in %s" % (qual, rel))
            return mod, node
        node = mod.functions.get(qual)
        if node is None:
            raise CheckerError("contract no longer binds: %s not found in %s" % (qual, rel))
        return mod, node
