"""Symbolic values of the pyvc verifier and the dual-mode spec helpers.

Value universe (what a Python expression of the verified subset evaluates to):

  concrete   int, bool, Fraction (= Python float, kept exact), str, None, tuple,
             CList (list / ndarray / tuple of *concrete length* holding values),
             CDict (insertion ordered, concrete keys)
  symbolic   SInt, SReal, SBool           scalars backed by a z3 term
             SSeq                         list / 1-D ndarray of symbolic length:
                                          (length term, z3 array Int -> elem)
             SRange                       range(start, stop, step), step > 0 assumed
             SOpt                         "None or a value" (isnone : Bool term)
             SObj                         object with concrete attribute names
             SFile                        binary file model (bytes never inspected,
                                          only the position / length arithmetic)

Spec helpers (Len, At, ForAll, And, ... ) work on symbolic values (building z3
terms), on concrete-shape values (expanding quantifiers) and on native Python /
numpy values (replay), so that one contract text serves proof, refutation and
replay.
"""
from fractions import Fraction
import itertools
import math
import z3

_counter = itertools.count()
PENDING = []      # definitional axioms created by spec helpers; drained into the path condition by the driver


def fresh(prefix):
    return "%s!%d" % (prefix.replace("|", "_"), next(_counter))


class CheckerError(Exception):
    """Unsupported construct / contract cannot be bound: exit 3, never a violation."""


class Sym:
    __slots__ = ()


def _is_real_kind(v):
    return isinstance(v, (Fraction, float, SReal))


class SBool(Sym):
    __slots__ = ("t",)

    def __init__(self, t):
        self.t = t

    def __bool__(self):
        raise CheckerError("symbolic Bool used in a Python boolean context (use And/Or/Not/Implies in specs)")

    def __invert__(self):
        return SBool(z3.Not(self.t))

    def __and__(self, o):
        return And(self, o)

    def __or__(self, o):
        return Or(self, o)

    def __eq__(self, o):
        return SBool(tb(self) == tb(o))

    def __ne__(self, o):
        return SBool(tb(self) != tb(o))

    __hash__ = object.__hash__

    def __repr__(self):
        return "SBool(%s)" % self.t


class _Num(Sym):
    __slots__ = ("t",)

    def __init__(self, t):
        self.t = t

    def __bool__(self):
        raise CheckerError("symbolic number used in a Python boolean context")

    __hash__ = object.__hash__

    def __add__(self, o):
        return arith("+", self, o)

    def __radd__(self, o):
        return arith("+", o, self)

    def __sub__(self, o):
        return arith("-", self, o)

    def __rsub__(self, o):
        return arith("-", o, self)

    def __mul__(self, o):
        return arith("*", self, o)

    def __rmul__(self, o):
        return arith("*", o, self)

    def __truediv__(self, o):
        return arith("/", self, o)

    def __rtruediv__(self, o):
        return arith("/", o, self)

    def __floordiv__(self, o):
        return arith("//", self, o)

    def __rfloordiv__(self, o):
        return arith("//", o, self)

    def __mod__(self, o):
        return arith("%", self, o)

    def __rmod__(self, o):
        return arith("%", o, self)

    def __pow__(self, o):
        return arith("**", self, o)

    def __neg__(self):
        return arith("-", 0, self)

    def __pos__(self):
        return self

    def __lt__(self, o):
        return compare("<", self, o)

    def __le__(self, o):
        return compare("<=", self, o)

    def __gt__(self, o):
        return compare(">", self, o)

    def __ge__(self, o):
        return compare(">=", self, o)

    def __eq__(self, o):
        return compare("==", self, o)

    def __ne__(self, o):
        return compare("!=", self, o)

    def __repr__(self):
        return "%s(%s)" % (type(self).__name__, self.t)


class SInt(_Num):
    __slots__ = ()


class SReal(_Num):
    __slots__ = ()


def is_num(v):
    return isinstance(v, (int, Fraction, float, SInt, SReal)) and not isinstance(v, bool) or isinstance(v, bool)


def is_symbolic(v):
    return isinstance(v, Sym)


def tz(v):
    """z3 arithmetic / boolean term of a scalar value."""
    if isinstance(v, (SInt, SReal, SBool)):
        return v.t
    if isinstance(v, bool):
        return z3.BoolVal(v)
    if isinstance(v, int):
        return z3.IntVal(v)
    if isinstance(v, Fraction):
        return z3.RealVal(v)
    if isinstance(v, float):
        return z3.RealVal(Fraction(v))
    if z3.is_expr(v):
        return v
    if hasattr(v, "item") and getattr(v, "shape", None) == ():
        return tz(v.item())
    raise CheckerError("no z3 term for %r" % (v,))


def tb(v):
    """z3 Bool term of a truth value."""
    if isinstance(v, SBool):
        return v.t
    if isinstance(v, bool):
        return z3.BoolVal(v)
    if z3.is_expr(v) and z3.is_bool(v):
        return v
    if hasattr(v, "dtype") and getattr(v, "shape", None) == ():
        return z3.BoolVal(bool(v))
    raise CheckerError("no z3 Bool for %r" % (v,))


def treal(v):
    t = tz(v)
    if z3.is_int(t):
        return z3.ToReal(t)
    return t


def wrap(t):
    """wrap a z3 term into the matching scalar value (folding literals)."""
    t = z3.simplify(t) if False else t
    if z3.is_bool(t):
        if z3.is_true(t):
            return True
        if z3.is_false(t):
            return False
        return SBool(t)
    if z3.is_int(t):
        if z3.is_int_value(t):
            return t.as_long()
        return SInt(t)
    if z3.is_real(t):
        if z3.is_rational_value(t):
            return Fraction(t.numerator_as_long(), t.denominator_as_long())
        return SReal(t)
    raise CheckerError("cannot wrap term of sort %s" % t.sort())


def _conc_num(v):
    return isinstance(v, (int, Fraction, float)) or (hasattr(v, "dtype") and getattr(v, "shape", None) == ())


def _pyfloor_div(a, b):
    """Python // and % on z3 Ints (z3 div/mod are Euclidean: remainder >= 0)."""
    q = a / b          # z3 integer division (Euclidean)
    r = a % b
    # Python: floor division, remainder has the sign of the divisor.
    # For b > 0 Euclidean == floor.  For b < 0: if r != 0 then q_py = q - 1 ... handle both.
    if z3.is_int_value(b):
        if b.as_long() > 0:
            return q, r
        if b.as_long() < 0:
            return z3.If(r == 0, q, q - 1), z3.If(r == 0, r, r + b)
    qp = z3.If(b > 0, q, z3.If(r == 0, q, q - 1))
    rp = z3.If(b > 0, r, z3.If(r == 0, r, r + b))
    return qp, rp


# ---- floor division / modulo by a *symbolic* divisor are kept out of the verification conditions:
# they are the uninterpreted functions fdiv / fmod, constrained by the lemma library DIV_LEMMAS (each lemma
# is itself discharged by z3 over the interpreted div / mod as a separate obligation, see lemmas.py).
ABSTRACT_NL = [True]
ABSTRACT_REAL = [False]      # opt-in per contract (abstract_real=True): products / quotients of symbolic reals behind UFs
FDIV = z3.Function("fdiv", z3.IntSort(), z3.IntSort(), z3.IntSort())
FMOD = z3.Function("fmod", z3.IntSort(), z3.IntSort(), z3.IntSort())


def div_lemmas(D, M):
    """lemma library for floor division / modulo by a positive divisor.  Every lemma mentions D / M only on
    bound variables (never on arithmetic terms) so that E-matching cannot loop; `pats` are the trigger terms."""
    x, y, w, g = z3.Ints("dl.x dl.y dl.w dl.g")
    one = [D(x, g)]
    two = [D(x, g), D(y, g)]
    three = [D(x, g), D(y, g), D(w, g)]
    return [x, y, w, g], {
        "mod-range": (z3.Implies(g >= 1, z3.And(0 <= M(x, g), M(x, g) < g)), [[M(x, g)], one]),
        "div-monotone": (z3.Implies(z3.And(g >= 1, x <= y), D(x, g) <= D(y, g)), [two]),
        "div-strict-on-lattice": (z3.Implies(z3.And(g >= 1, M(x, g) == 0, M(y, g) == 0, x < y), D(x, g) < D(y, g)), [two]),
        "div-shift": (z3.Implies(z3.And(g >= 1, y == x + g), z3.And(D(y, g) == D(x, g) + 1, M(y, g) == M(x, g))), [two]),
        "div-zero": (z3.Implies(z3.And(g >= 1, x == 0), z3.And(D(x, g) == 0, M(x, g) == 0)), [one]),
        "div-small": (z3.Implies(z3.And(g >= 1, 0 <= x, x < g), z3.And(D(x, g) == 0, M(x, g) == x)), [one]),
        "div-one": (z3.Implies(g == 1, z3.And(D(x, g) == x, M(x, g) == 0)), [one]),
        "div-nonneg": (z3.Implies(z3.And(g >= 1, x >= 0), z3.And(D(x, g) <= x, D(x, g) >= 0)), [one]),
        "divmod-injective": (z3.Implies(z3.And(g >= 1, D(x, g) == D(y, g), M(x, g) == M(y, g)), x == y), [two]),
        "div-diff-on-lattice": (z3.Implies(z3.And(g >= 1, M(x, g) == 0, M(y, g) == 0, w == x - y),
                                           z3.And(M(w, g) == 0, D(w, g) == D(x, g) - D(y, g))), [three]),
        "div-self": (z3.Implies(z3.And(g >= 1, x == g), z3.And(D(x, g) == 1, M(x, g) == 0)), [one]),
        "div-lattice-step": (z3.Implies(z3.And(g >= 1, M(x, g) == 0, M(y, g) == 0, x < y), y >= x + g), [two]),
    }


IMUL = z3.Function("imul", z3.IntSort(), z3.IntSort(), z3.IntSort())
# products / quotients of two *symbolic* reals are kept behind uninterpreted functions as well: the verified code and
# the contracts build the same terms, so congruence decides the obligations and the solver stays in linear arithmetic
# (contracts that need real nonlinear reasoning switch this off with abstract_nl=False)
RMUL = z3.Function("rmul", z3.RealSort(), z3.RealSort(), z3.RealSort())
RDIV = z3.Function("rdiv", z3.RealSort(), z3.RealSort(), z3.RealSort())


def _is_numeral(t):
    t = z3.simplify(t)
    return z3.is_rational_value(t) or z3.is_int_value(t) or (z3.is_app(t) and t.decl().kind() == z3.Z3_OP_TO_REAL and z3.is_int_value(t.arg(0)))


def rmul(x, y):
    if _is_numeral(x) or _is_numeral(y):
        return x * y
    x, y = z3.simplify(x), z3.simplify(y)       # canonical argument order must not depend on how a term was written
    a, b = (x, y) if x.get_id() <= y.get_id() else (y, x)
    return RMUL(a, b)


def rdiv(x, y):
    if _is_numeral(y):
        return x / y
    return RDIV(z3.simplify(x), z3.simplify(y))


def _split_const(t):
    """t == c * rest with an integer literal c (1 if none)"""
    t = z3.simplify(t)
    if z3.is_int_value(t):
        return t.as_long(), None
    if z3.is_mul(t):
        ch = t.children()
        c = 1
        rest = []
        for x in ch:
            if z3.is_int_value(x):
                c *= x.as_long()
            else:
                rest.append(x)
        if len(rest) == 1:
            return c, rest[0]
        if not rest:
            return c, None
        r = rest[0]
        for x in rest[1:]:
            r = imul(r, x)
        return c, r
    return 1, t


def imul(a, b):
    """product of two integer terms with literal factors pulled out and symbolic*symbolic kept behind IMUL"""
    ca, ra = _split_const(a)
    cb, rb = _split_const(b)
    c = ca * cb
    if ra is None and rb is None:
        return z3.IntVal(c)
    if ra is None:
        return c * rb if c != 1 else rb
    if rb is None:
        return c * ra if c != 1 else ra
    if z3.is_add(ra) or z3.is_add(rb):
        # distribute over sums so that (k + 1) * R and k * R + R meet
        if z3.is_add(ra):
            t = z3.Sum([imul(x, rb) for x in ra.children()])
        else:
            t = z3.Sum([imul(ra, x) for x in rb.children()])
        return c * t if c != 1 else t
    ra, rb = z3.simplify(ra), z3.simplify(rb)
    x, y = (ra, rb) if ra.get_id() <= rb.get_id() else (rb, ra)
    t = IMUL(x, y)
    return c * t if c != 1 else t


def mul_lemmas(M):
    x, y, z = z3.Ints("ml.x ml.y ml.z")
    two = [M(x, y), M(z, y)]
    twob = [M(y, x), M(y, z)]
    return [x, y, z], {
        "mul-nonneg": (z3.Implies(z3.And(x >= 0, y >= 0), M(x, y) >= 0), [[M(x, y)]]),
        "mul-zero": (z3.Implies(z3.Or(x == 0, y == 0), M(x, y) == 0), [[M(x, y)]]),
        "mul-one": (z3.And(z3.Implies(x == 1, M(x, y) == y), z3.Implies(y == 1, M(x, y) == x)), [[M(x, y)]]),
        "mul-monotone-left": (z3.Implies(z3.And(y >= 0, x <= z), M(x, y) <= M(z, y)), [two]),
        "mul-monotone-right": (z3.Implies(z3.And(y >= 0, x <= z), M(y, x) <= M(y, z)), [twob]),
        "mul-strict-left": (z3.Implies(z3.And(y >= 1, x < z), M(x, y) + y <= M(z, y)), [two]),
        "mul-strict-right": (z3.Implies(z3.And(y >= 1, x < z), M(y, x) + y <= M(y, z)), [twob]),
        "mul-pos": (z3.Implies(z3.And(x >= 1, y >= 1), z3.And(M(x, y) >= x, M(x, y) >= y)), [[M(x, y)]]),
        "mul-succ-left": (z3.Implies(z == x + 1, M(z, y) == M(x, y) + y), [two]),
        "mul-succ-right": (z3.Implies(z == x + 1, M(y, z) == M(y, x) + y), [twob]),
    }


def comm_axioms(real=False):
    """commutativity of the abstracted products (canonical argument order is not stable under substitution)"""
    x, y = z3.Ints("cm.x cm.y")
    out = [z3.ForAll([x, y], IMUL(x, y) == IMUL(y, x), patterns=[IMUL(x, y)])]
    if real:
        u, v = z3.Reals("cm.u cm.v")
        out.append(z3.ForAll([u, v], RMUL(u, v) == RMUL(v, u), patterns=[RMUL(u, v)]))
    return out


def mul_axioms():
    vs, lems = mul_lemmas(IMUL)
    out = []
    for f, pats in lems.values():
        ps = [z3.MultiPattern(*p) if len(p) > 1 else p[0] for p in pats]
        used = [v for v in vs if _occurs(v, f)]
        out.append(z3.ForAll(used, f, patterns=ps))
    return out


def div_axioms():
    vs, lems = div_lemmas(FDIV, FMOD)
    out = []
    for f, pats in lems.values():
        ps = [z3.MultiPattern(*p) if len(p) > 1 else p[0] for p in pats]
        used = [v for v in vs if _occurs(v, f)]
        out.append(z3.ForAll(used, f, patterns=ps))
    return out


def _occurs(v, e):
    if e.eq(v):
        return True
    return any(_occurs(v, c) for c in e.children())


def uses_fdiv(ts):
    seen = set()

    def walk(e):
        if e.get_id() in seen:
            return False
        seen.add(e.get_id())
        if z3.is_app(e) and e.decl().name() in ("fdiv", "fmod"):
            return True
        if z3.is_quantifier(e):
            return walk(e.body())
        return any(walk(c) for c in e.children())
    return any(walk(t) for t in ts)


# uninterpreted real functions (transcendentals); shared by code and specs
_UF = {}


def uf(name, arity=1):
    key = (name, arity)
    if key not in _UF:
        _UF[key] = z3.Function("uf_" + name, *([z3.RealSort()] * (arity + 1)))
    return _UF[key]


def arith(op, a, b):
    if isinstance(a, bool):
        a = int(a)
    if isinstance(b, bool):
        b = int(b)
    if isinstance(a, float):
        a = Fraction(a)
    if isinstance(b, float):
        b = Fraction(b)
    if isinstance(a, SBool):
        a = SInt(z3.If(a.t, 1, 0))
    if isinstance(b, SBool):
        b = SInt(z3.If(b.t, 1, 0))
    if isinstance(a, (int, Fraction)) and isinstance(b, (int, Fraction)):
        isr = isinstance(a, Fraction) or isinstance(b, Fraction)
        if op == "+":
            r = a + b
        elif op == "-":
            r = a - b
        elif op == "*":
            r = a * b
        elif op == "/":
            if b == 0:
                raise ZeroDivisionError
            return Fraction(a) / Fraction(b)
        elif op == "//":
            if b == 0:
                raise ZeroDivisionError
            r = a // b
            return Fraction(r) if isr else r
        elif op == "%":
            if b == 0:
                raise ZeroDivisionError
            r = a % b
        elif op == "**":
            if isinstance(b, int) or (isinstance(b, Fraction) and b.denominator == 1):
                if a == 0 and b < 0:
                    raise ZeroDivisionError
                r = Fraction(a) ** int(b) if (isr or b < 0) else a ** b
                return r
            return wrap(uf("pow", 2)(treal(a), treal(b)))
        else:
            raise CheckerError("arith op " + op)
        return Fraction(r) if isr and not isinstance(r, Fraction) else r
    if not isinstance(a, (int, Fraction, SInt, SReal)) or not isinstance(b, (int, Fraction, SInt, SReal)):
        return NotImplemented
    isr = _is_real_kind(a) or _is_real_kind(b)
    if op == "/":
        if ABSTRACT_REAL[0]:
            return wrap(rdiv(treal(a), treal(b)))
        return wrap(treal(a) / treal(b))
    if op == "**":
        if isinstance(b, int) or (isinstance(b, Fraction) and b.denominator == 1):
            n = int(b)
            base = treal(a) if isr or n < 0 else tz(a)
            if n == 0:
                return Fraction(1) if isr else 1
            t = base
            for _ in range(abs(n) - 1):
                t = t * base
            if n < 0:
                t = z3.RealVal(1) / t
            return wrap(t)
        return wrap(uf("pow", 2)(treal(a), treal(b)))
    if isr:
        x, y = treal(a), treal(b)
        if op == "+":
            return wrap(x + y)
        if op == "-":
            return wrap(x - y)
        if op == "*":
            if ABSTRACT_REAL[0]:
                return wrap(rmul(x, y))
            return wrap(x * y)
        if op in ("//", "%"):
            raise CheckerError("// or % on reals is outside the verified subset")
        raise CheckerError("arith op " + op)
    x, y = tz(a), tz(b)
    if op == "+":
        return wrap(x + y)
    if op == "-":
        return wrap(x - y)
    if op == "*":
        if ABSTRACT_NL[0] and not z3.is_int_value(x) and not z3.is_int_value(y):
            return wrap(imul(x, y))
        return wrap(x * y)
    if op in ("//", "%") and ABSTRACT_NL[0] and not z3.is_int_value(y):
        return wrap(FDIV(x, y) if op == "//" else FMOD(x, y))
    if op == "//":
        return wrap(_pyfloor_div(x, y)[0])
    if op == "%":
        return wrap(_pyfloor_div(x, y)[1])
    raise CheckerError("arith op " + op)


def compare(op, a, b):
    if isinstance(a, float):
        a = Fraction(a)
    if isinstance(b, float):
        b = Fraction(b)
    if isinstance(a, (int, Fraction)) and isinstance(b, (int, Fraction)):
        return {"<": a < b, "<=": a <= b, ">": a > b, ">=": a >= b, "==": a == b, "!=": a != b}[op]
    if isinstance(a, (SBool, bool)) and isinstance(b, (SBool, bool)) and op in ("==", "!="):
        x, y = tb(a), tb(b)
    elif isinstance(a, (int, Fraction, SInt, SReal, SBool)) and isinstance(b, (int, Fraction, SInt, SReal, SBool)):
        if isinstance(a, SBool):
            a = SInt(z3.If(a.t, 1, 0))
        if isinstance(b, SBool):
            b = SInt(z3.If(b.t, 1, 0))
        if _is_real_kind(a) or _is_real_kind(b):
            x, y = treal(a), treal(b)
        else:
            x, y = tz(a), tz(b)
    else:
        if op == "==":
            return False if (a is None) != (b is None) else NotImplemented
        if op == "!=":
            return True if (a is None) != (b is None) else NotImplemented
        return NotImplemented
    if op == "<":
        return wrap(x < y)
    if op == "<=":
        return wrap(x <= y)
    if op == ">":
        return wrap(x > y)
    if op == ">=":
        return wrap(x >= y)
    if op == "==":
        return wrap(x == y)
    if op == "!=":
        return wrap(x != y)
    raise CheckerError("compare op " + op)


# --------------------------------------------------------------------------
# containers


class Elem:
    """Element descriptor of a symbolic sequence."""

    def __init__(self, kind):
        self.kind = kind  # 'int' | 'real' | 'bool' | 'optreal'

    def sort(self):
        return {"int": z3.IntSort(), "real": z3.RealSort(), "bool": z3.BoolSort()}[self.kind]


def select(arr, i):
    """arr[i] with eager beta reduction when arr is a lambda term (keeps lambdas out of the solver where possible)"""
    if z3.is_quantifier(arr) and arr.is_lambda() and arr.num_vars() == 1:
        return z3.substitute_vars(arr.body(), i)
    if z3.is_app(arr) and arr.decl().kind() == z3.Z3_OP_CONST_ARRAY:
        return arr.arg(0)
    return z3.Select(arr, i)


def seq_sel(seq, which, i):
    """seq.arr[i] (which='arr') or seq.none[i] (which='none') with beta reduction through the sequence's definition"""
    if which == "arr":
        d = getattr(seq, "defn", None)
        if d is not None and getattr(seq, "_defn_arr", None) is not None and seq.arr.eq(seq._defn_arr):
            return z3.substitute(d[1], (d[0], i))
        return select(seq.arr, i)
    d = getattr(seq, "defn_none", None)
    if d is not None and getattr(seq, "_defn_none_arr", None) is not None and seq.none.eq(seq._defn_none_arr):
        return z3.substitute(d[1], (d[0], i))
    return select(seq.none, i)


class SSeq(Sym):
    """list / 1-D ndarray with symbolic length.  Mutable object with identity."""

    def __init__(self, length, arr, kind="ndarray", ekind="real", none=None, name=None):
        self.length = length      # int or SInt
        self.arr = arr            # z3 Array Int -> (Int|Real|Bool)
        self.kind = kind          # 'list' | 'ndarray' | 'tuple'
        self.ekind = ekind        # 'int' | 'real' | 'bool'
        self.none = none          # optional z3 Array Int -> Bool: element is None
        self.name = name or fresh("seq")
        self.frozen = False       # parameter that must not be written (frame)
        self.defn = None          # (bound variable, body): arr[k] == body for 0 <= k < length (reads are beta-reduced)
        self.defn_none = None

    @staticmethod
    def fresh(prefix, kind="ndarray", ekind="real", length=None, opt=False):
        n = fresh(prefix)
        srt = {"int": z3.IntSort(), "real": z3.RealSort(), "bool": z3.BoolSort(), "opaque": z3.IntSort()}[ekind]
        arr = z3.Const(n, z3.ArraySort(z3.IntSort(), srt))
        if length is None:
            length = SInt(z3.Int(n + ".len"))
        none = z3.Const(n + ".none", z3.ArraySort(z3.IntSort(), z3.BoolSort())) if opt else None
        return SSeq(length, arr, kind, ekind, none, n)

    def get(self, i):
        if self.ekind == "opaque":
            return SOpaque("elem")
        d = getattr(self, "defn", None)
        if d is not None and d[0] is not None and getattr(self, "_defn_arr", None) is not None and self.arr.eq(self._defn_arr):
            v = wrap(z3.substitute(d[1], (d[0], tz(i))))
        else:
            v = wrap(select(self.arr, tz(i)))
        if self.none is not None:
            dn = getattr(self, "defn_none", None)
            if dn is not None and getattr(self, "_defn_none_arr", None) is not None and self.none.eq(self._defn_none_arr):
                return SOpt(wrap(z3.substitute(dn[1], (dn[0], tz(i)))), v)
            return SOpt(wrap(select(self.none, tz(i))), v)
        return v

    def __repr__(self):
        return "SSeq<%s %s len=%s>" % (self.kind, self.ekind, self.length)


class CList(Sym):
    """list / ndarray / tuple of concrete length holding arbitrary values."""

    def __init__(self, items, kind="list", ekind=None):
        self.items = list(items)
        self.kind = kind
        self.ekind = ekind
        self.frozen = False

    def __repr__(self):
        return "CList<%s %r>" % (self.kind, self.items)


class CDict(Sym):
    def __init__(self, d=None):
        self.d = dict(d or {})
        self.frozen = False

    def __repr__(self):
        return "CDict(%r)" % self.d


class SRange(Sym):
    """range(start, stop, step) with step >= 1.

    Two representations:
      * closed form (arr is None): element i is start + i*step; used when the length is concrete
      * axiomatised (arr given): elements are an array `arr` constrained by *linear* facts
        (first element, constant adjacent difference, strictly increasing), see range_axioms();
        this keeps the verification conditions inside linear integer arithmetic.
    """

    def __init__(self, start, stop, step, clen=None, arr=None):
        self.start, self.stop, self.step = start, stop, step
        self.clen = clen
        self.arr = arr

    def length(self):
        if self.clen is not None:
            return self.clen
        if all(isinstance(x, int) for x in (self.start, self.stop, self.step)):
            return len(range(self.start, self.stop, self.step))
        raise CheckerError("range of symbolic length without a length term")

    def get(self, i):
        if self.arr is not None:
            return wrap(z3.Select(self.arr, tz(i)))
        return arith("+", self.start, arith("*", i, self.step))

    def __repr__(self):
        return "SRange(%s,%s,%s)" % (self.start, self.stop, self.step)


def range_axioms(r, closed_form=False):
    """facts true of every Python range with step >= 1 whose length is r.clen and whose elements are r.arr"""
    n, s, a = tz(r.clen), tz(r.step), r.arr
    i, j = z3.Int(fresh("ri")), z3.Int(fresh("rj"))
    ax = [n >= 0, s >= 1,
          z3.Implies(n > 0, z3.Select(a, 0) == tz(r.start)),
          # constant adjacent difference, stated over two existing index terms (a one-variable form with a[i+1] in the
          # body feeds its own trigger: matching loop)
          z3.ForAll([i, j], z3.Implies(z3.And(0 <= i, j == i + 1, j < n), z3.Select(a, j) == z3.Select(a, i) + s),
                    patterns=[z3.MultiPattern(z3.Select(a, i), z3.Select(a, j))]),
          z3.ForAll([i, j], z3.Implies(z3.And(0 <= i, i < j, j < n), z3.And(z3.Select(a, i) < z3.Select(a, j),
                                                                            z3.Select(a, j) >= z3.Select(a, i) + s)),
                    patterns=[z3.MultiPattern(z3.Select(a, i), z3.Select(a, j))])]
    if closed_form:
        # (i*s) div s == i and (i*s) mod s == 0 for s >= 1, stated on the elements
        D, M = (FDIV, FMOD) if (ABSTRACT_NL[0] and not z3.is_int_value(s)) else ((lambda p, q: p / q), (lambda p, q: p % q))
        ax.append(z3.ForAll([i], z3.Implies(z3.And(0 <= i, i < n),
                                            z3.And(D(z3.Select(a, i) - tz(r.start), s) == i,
                                                   M(z3.Select(a, i) - tz(r.start), s) == 0))))
    return ax


def sym_range(name, start, step, n):
    """an axiomatised range object; the caller must assume range_axioms(r)"""
    arr = z3.Const(fresh(name + ".el"), z3.ArraySort(z3.IntSort(), z3.IntSort()))
    return SRange(start, None, step, clen=n, arr=arr)


class SOpt(Sym):
    """None or a value."""

    def __init__(self, isnone, val):
        self.isnone = isnone   # bool | SBool
        self.val = val

    def __repr__(self):
        return "SOpt(%s,%s)" % (self.isnone, self.val)


class SObj(Sym):
    def __init__(self, cls, attrs=None, name=None):
        self.cls = cls
        self.attrs = dict(attrs or {})
        self.name = name or fresh(cls)
        self.frozen = False

    def __repr__(self):
        return "SObj<%s %s>" % (self.cls, self.name)


class SOpaque(Sym):
    """A value the engine knows nothing about except identity (and an optional tag)."""

    def __init__(self, tag, payload=None):
        self.tag = tag
        self.payload = payload

    def __repr__(self):
        return "SOpaque<%s>" % (self.tag,)


# --------------------------------------------------------------------------
# dual-mode spec helpers


def _native(v):
    return not isinstance(v, Sym) and not z3.is_expr(v)


def Len(x):
    if isinstance(x, SSeq):
        return x.length
    if isinstance(x, CList):
        return len(x.items)
    if isinstance(x, SRange):
        return x.length()
    if isinstance(x, CDict):
        return len(x.d)
    if isinstance(x, Sym) and hasattr(x, "length") and not callable(x.length):
        return x.length
    return len(x)


def At(x, i):
    """x[i] for 0 <= i < len (no negative indices in specs)."""
    if isinstance(x, SSeq):
        return x.get(i)
    if isinstance(x, SRange):
        return x.get(i)
    if isinstance(x, CList):
        if isinstance(i, int):
            if not (0 <= i < len(x.items)):
                return UNDEF      # specs are total (eagerly evaluated guarded clauses)
            return x.items[i]
        t = None
        for k in range(len(x.items) - 1, -1, -1):
            v = x.items[k]
            t = v if t is None else Ite(compare("==", i, k), v, t)
        return t
    i = int(i)
    if not (0 <= i < len(x)):
        return UNDEF      # specs are total: an out-of-range access yields a value that satisfies nothing
    v = x[i]
    return v.item() if hasattr(v, "item") else v


class _Undef:
    """result of an out-of-range access in native evaluation of a spec (eager evaluation of guarded clauses)"""

    def _s(self, *a):
        return self

    def _f(self, *a):
        return False

    __add__ = __radd__ = __sub__ = __rsub__ = __mul__ = __rmul__ = __truediv__ = __rtruediv__ = _s
    __floordiv__ = __rfloordiv__ = __mod__ = __rmod__ = __pow__ = __neg__ = _s
    __lt__ = __le__ = __gt__ = __ge__ = __eq__ = __ne__ = __bool__ = _f
    __hash__ = object.__hash__

    def __float__(self):
        return float("nan")

    def __int__(self):
        return -(10 ** 9)


UNDEF = _Undef()


def And(*xs):
    xs = [x for x in _flat(xs)]
    if all(_native(x) for x in xs):
        return all(bool(x) for x in xs)
    ts = []
    for x in xs:
        if _native(x):
            if not bool(x):
                return False
            continue
        ts.append(tb(x))
    if not ts:
        return True
    return wrap(z3.And(*ts)) if len(ts) > 1 else wrap(ts[0])


def Or(*xs):
    xs = [x for x in _flat(xs)]
    if all(_native(x) for x in xs):
        return any(bool(x) for x in xs)
    ts = []
    for x in xs:
        if _native(x):
            if bool(x):
                return True
            continue
        ts.append(tb(x))
    if not ts:
        return False
    return wrap(z3.Or(*ts)) if len(ts) > 1 else wrap(ts[0])


def _flat(xs):
    for x in xs:
        if isinstance(x, (list, tuple)):
            for y in _flat(x):
                yield y
        else:
            yield x


def Not(x):
    if _native(x):
        return not bool(x)
    return wrap(z3.Not(tb(x)))


def Implies(a, b):
    if _native(a):
        return b if bool(a) else True
    if _native(b):
        return True if bool(b) else Not(a)
    return wrap(z3.Implies(tb(a), tb(b)))


def Iff(a, b):
    if _native(a) and _native(b):
        return bool(a) == bool(b)
    return wrap(tb(a) == tb(b))


def Ite(c, a, b):
    if _native(c):
        return a if bool(c) else b
    if isinstance(a, SOpt) or isinstance(b, SOpt):
        a = a if isinstance(a, SOpt) else SOpt(a is None, a)
        b = b if isinstance(b, SOpt) else SOpt(b is None, b)
        va = a.val if a.val is not None else b.val
        vb = b.val if b.val is not None else a.val
        return SOpt(Ite(c, a.isnone, b.isnone), Ite(c, va, vb) if va is not None else None)
    if isinstance(a, (bool, SBool)) and isinstance(b, (bool, SBool)):
        return wrap(z3.If(tb(c), tb(a), tb(b)))
    if _is_real_kind(a) or _is_real_kind(b):
        return wrap(z3.If(tb(c), treal(a), treal(b)))
    return wrap(z3.If(tb(c), tz(a), tz(b)))


REL_TOL = 1e-9
ABS_TOL = 1e-11


def eq(a, b):
    """equality of reals: exact in proofs, tolerance in native replay (floats)."""
    if _native(a) and _native(b):
        if a is None or b is None:
            return a is b
        a, b = float(a), float(b)
        if math.isnan(a) or math.isnan(b):
            return False
        return math.isclose(a, b, rel_tol=REL_TOL, abs_tol=ABS_TOL)
    return compare("==", a, b)


def ForAll(lo, hi, f):
    """for all integers k with lo <= k < hi: f(k)"""
    if _native(lo) and _native(hi):
        rs = [f(k) for k in range(int(lo), int(hi))]
        return And(*rs)
    k = z3.Int(fresh("k"))
    body = f(SInt(k))
    if _native(body):
        if bool(body):
            return True
        return wrap(z3.Not(z3.And(tz(lo) <= k, k < tz(hi)))) if False else Not(compare("<", lo, hi))
    return wrap(z3.ForAll([k], z3.Implies(z3.And(tz(lo) <= k, k < tz(hi)), tb(body))))


def Exists(lo, hi, f):
    if _native(lo) and _native(hi):
        rs = [f(k) for k in range(int(lo), int(hi))]
        return Or(*rs)
    k = z3.Int(fresh("k"))
    body = f(SInt(k))
    if _native(body):
        return compare("<", lo, hi) if bool(body) else False
    return wrap(z3.Exists([k], z3.And(tz(lo) <= k, k < tz(hi), tb(body))))


def is_range(x):
    return isinstance(x, (SRange, range))


def is_none(x):
    if isinstance(x, SOpt):
        return x.isnone
    return x is None


def unopt(x):
    return x.val if isinstance(x, SOpt) else x


def Step(x):
    return x.step


def Start(x):
    return x.start


def strictly_increasing(x):
    """∀ a < b: x[a] < x[b]  (transitive form, friendlier to instantiation)."""
    n = Len(x)
    if isinstance(x, SRange) or isinstance(x, range):
        return True
    if _native(n):
        return And(*[compare("<", At(x, i), At(x, i + 1)) for i in range(int(n) - 1)])
    a, b = z3.Int(fresh("a")), z3.Int(fresh("b"))
    body = tz(x.get(SInt(a))) < tz(x.get(SInt(b)))
    return wrap(z3.ForAll([a, b], z3.Implies(z3.And(0 <= a, a < b, b < tz(n)), body)))


def member(c, x):
    """c in x for an idl x (range or strictly increasing list)."""
    if isinstance(x, SRange) and x.arr is None:
        return And(compare("<=", x.start, c), compare("<", c, arith("+", x.start, arith("*", Len(x), x.step))),
                   compare("==", arith("%", arith("-", c, x.start), x.step), 0))
    if isinstance(x, range) or (_native(x) and _native(c)):
        return c in x if isinstance(x, range) else (c in list(x))
    return Exists(0, Len(x), lambda j: compare("==", At(x, j), c))
