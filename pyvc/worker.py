"""One verification task = one contract in one case.  Runs in its own process (hard timeout by the parent).

usage: python -m pyvc.worker '<json task>'    ->   one JSON document on stdout (last line)
"""
import importlib
import json
import os
import random
import sys
import time
import traceback

import z3

from .specs import REGISTRY
from .source import SourceRegistry
from .lib import Lib
from .driver import Run, explore, Namespace
from .sym import CheckerError
from . import native as N


def make_lib(C):
    if C.libname == "obs":
        from .lib_obs import ObsLib
        return ObsLib()
    return Lib()


def load_contracts(modules):
    for m in modules:
        importlib.import_module(m)
    return {c.target: c for c in REGISTRY.values() if c.name == c.target}


def prove(C, case, reg, contracts, lib):
    run = Run(C, case, reg, contracts, lib)
    explore(run)
    return run


def sample_native(C, case, rng, want, tries):
    """random native inputs that satisfy the precondition (rejection sampling, or the contract's generator)"""
    specs = C.specs_for(case)
    out = []
    shapes = C.shapes(case)
    for _ in range(tries):
        if len(out) >= want:
            break
        if C.gen is not None:
            nargs = C.gen(rng, case)
            if nargs is None:
                continue
        else:
            shape = rng.choice(shapes) if shapes else None
            try:
                nargs = {n: sp.random(rng, None if shape is None else shape.get(n)) for n, sp in specs.items()}
            except CheckerError:
                return out
        if N.pre_holds_native(C, nargs):
            out.append(nargs)
    return out


def differential(C, case, nargs, reg, contracts, lib):
    """run the symbolic executor on concrete inputs and compare with CPython. -> None (agree) or description"""
    specs = C.specs_for(case)
    eargs = {n: specs[n].lift(v) for n, v in nargs.items()}
    run = Run(C, case, reg, contracts, lib, shape_mode=True)
    run.concrete_args = eargs
    run.inline_all = True
    res = explore(run)
    res = [r for r in res]
    if len(res) == 0 and C.requires is not None:
        return None      # the input satisfies only the native (wider) precondition: outside the domain of the symbolic contract
    if len(res) != 1:
        return "engine produced %d paths on concrete input" % len(res)
    ctx, outcome, args, value = res[0]
    n_out, n_val, n_post = N.run_native(C, nargs)
    if outcome != n_out:
        return "outcome: engine %s (%s) vs CPython %s (%s)" % (outcome, getattr(value, "cls", ""), n_out, n_val if n_out == "raise" else "")
    if outcome == "raise":
        if value.cls != n_val and not N.exc_matches(n_val, value.cls) and not N.exc_matches(value.cls, n_val):
            return "exception class: engine %s vs CPython %s" % (value.cls, n_val)
        return None
    try:
        ev = N.engine_to_native(value)
    except N.NotConcrete as e:
        return None if C.crosscheck == "loose" else "engine result not concrete: %s" % e
    if C.compare_native is not None:
        return None if C.compare_native(ev, n_val) else "result: engine %r vs CPython %r" % (ev, n_val)
    if not N.same_native(ev, n_val, tol=1e-9):
        return "result: engine %r vs CPython %r" % (ev, n_val)
    return None


def refute_by_shapes(C, case, reg, contracts, lib, deadline, max_models=12):
    """quantifier-free instances (concrete lengths, symbolic contents): z3 models -> native inputs"""
    found = []
    specs = C.specs_for(case)
    shapes = C.shapes(case)
    tried = 0
    for shape in shapes[: C.max_shapes]:
        if time.time() > deadline or len(found) >= max_models:
            break
        tried += 1
        run = Run(C, case, reg, contracts, lib, shape_mode=True, shape=shape)
        models = []

        def on_refuted(ctx, model, args, oid):
            def ev(t):
                from .sym import tz, tb, SBool
                if isinstance(t, bool):
                    return t
                if isinstance(t, (int, float)):
                    return t
                from fractions import Fraction
                if isinstance(t, Fraction):
                    return t
                term = tb(t) if isinstance(t, SBool) else tz(t)
                v = model.eval(term, model_completion=True)
                if z3.is_true(v) or z3.is_false(v):
                    return z3.is_true(v)
                if z3.is_int_value(v):
                    return v.as_long()
                if z3.is_rational_value(v):
                    return Fraction(v.numerator_as_long(), v.denominator_as_long())
                if z3.is_algebraic_value(v):
                    a = v.approx(20)
                    return Fraction(a.numerator_as_long(), a.denominator_as_long())
                raise CheckerError("model value %s" % v)
            try:
                nargs = {n: specs[n].native(args[n], ev) for n in specs}
                models.append((oid, nargs))
            except Exception as e:
                models.append((oid, None))
        run.on_refuted = on_refuted
        try:
            explore(run, max_paths=400)
        except CheckerError as e:
            continue
        for oid, nargs in models:
            if nargs is not None:
                found.append({"obligation": oid, "args": nargs, "shape": shape})
    return found, tried


def main():
    task = json.loads(sys.argv[1])
    t0 = time.time()
    real_stdout = sys.stdout
    sys.stdout = open(os.devnull, "w")       # the library under verification prints; only the result document goes to stdout
    out = {"contract": task["contract"], "case": task["case"], "error": None, "obligations": [], "refutations": [],
           "crosscheck": {"runs": 0, "disagreements": []}, "cover": {}, "relies_on": [], "lib_used": []}
    try:
        contracts = load_contracts(task["modules"])
        C = REGISTRY[task["contract"]]
        case = task["case"]
        reg = SourceRegistry()
        lib = make_lib(C)
        missing = None
        try:
            mod, fnode = reg.function(C.target, C.locate)
            out["function"] = mod.describe(fnode, C.target.split("::", 1)[1])
            out["function"]["slice"] = C.slice_note
        except CheckerError as e:
            # the function is no longer defined where the contract expects it (e.g. generated by a decorator now): no proof is
            # possible, but the contract can still be evaluated natively on whatever Python resolves the name to
            missing = "CHECKER-ERROR %s" % e
            fnode = None
        if C.finite is not None and missing is None:
            # exhaustive exact decision over a finite domain read from the AST (level: proved-finite)
            for rec in C.finite(reg):
                oid, ok, detail = rec[0], rec[1], rec[2]
                backend = rec[3] if len(rec) > 3 else "exact-finite"
                out["obligations"].append({"id": "%s:%s" % (C.short, oid), "kind": "finite", "line": getattr(fnode, "lineno", 1),
                                           "verdict": "proved" if ok else "refuted", "paths": 1, "solver_s": 0.0,
                                           "backend": {backend: 1}, "detail": detail})
                if not ok:
                    rec = {"how": backend, "failed": [oid], "args": {"__dict__": [["finite_obligation", oid]]},
                           "outcome": str(detail), "finite": True}
                    if C.finite_native is not None:
                        try:
                            bad, text = C.finite_native(oid)
                        except Exception as e:
                            bad, text = False, "native replay failed: %s" % e
                        rec["native"] = text
                        if not bad:
                            rec["failed"] = []
                            rec["unconfirmed"] = [oid]
                    out["refutations"].append(rec)
            out["cover"]["pre_native_samples"] = 1
            out["wall_s"] = round(time.time() - t0, 3)
            sys.stdout = real_stdout
            print("\n" + json.dumps(out))
            return
        import zlib
        # (not hash(): string hashes differ from process to process, the sampled inputs must not)
        rng = random.Random(task.get("seed", 0) * 1000003 + zlib.crc32((task["contract"] + json.dumps(task["case"], sort_keys=True)).encode()) % 100000)
        # ---- 1. the proof
        proof_error = None
        try:
            if missing is not None:
                raise CheckerError(missing.replace("CHECKER-ERROR ", ""))
            run = prove(C, case, reg, contracts, lib)
            out["obligations"] = [o.as_dict() for o in run.obls.values()]
            out["npaths"] = run.npaths
            out["solver_s"] = round(run.solver_s, 3)
            out["relies_on"] = sorted(run.relies_on)
            unproved = [o for o in run.obls.values() if o.verdict != "proved"]
        except CheckerError as e:
            # the (changed) code left the verified subset: no verdict from the verifier; the native contract evaluation
            # below still runs, so that a failing input against the real code is reported if one is found
            proof_error = "CHECKER-ERROR %s" % e
            unproved = [None]
        out["lib_used"] = sorted(lib.used)
        # ---- 2. native sampling: vacuity guard, differential cross-check, search for failing inputs
        tier = task.get("tier", "quick")
        want = (12 if tier == "quick" else 80) if not unproved else 200
        samples = sample_native(C, case, rng, want, tries=want * 60) if C.native_ok else []
        out["cover"]["pre_native_samples"] = len(samples)
        n_normal = n_raise = 0
        for nargs in samples:
            o, v, post = N.run_native(C, nargs)
            if o == "return":
                n_normal += 1
            else:
                n_raise += 1
            failed = N.eval_contract_native(C, nargs, o, v, post)
            if failed:
                out["refutations"].append({"how": "native-search", "failed": failed, "args": N.encode(nargs),
                                           "outcome": o if o == "return" else "raise " + str(v)})
                if len(out["refutations"]) >= 3:
                    break
        out["cover"]["normal"] = n_normal
        out["cover"]["raise"] = n_raise
        if C.crosscheck and proof_error is None:
            k = 4 if tier == "quick" else 25
            for nargs in samples[:k]:
                try:
                    d = differential(C, case, nargs, reg, contracts, lib)
                except CheckerError as e:
                    d = "engine error on concrete input: %s" % e
                out["crosscheck"]["runs"] += 1
                if d is not None:
                    out["crosscheck"]["disagreements"].append({"args": N.encode(nargs), "what": d})
        # ---- 3. unproved obligations: quantifier-free refutation search
        if proof_error is not None:
            out["error"] = proof_error
        if unproved and not out["refutations"] and C.refute and proof_error is None:
            found, tried = refute_by_shapes(C, case, reg, contracts, lib, deadline=t0 + task.get("budget_s", 240) * 0.8)
            out["cover"]["shapes_tried"] = tried
            for f in found:
                nargs = f["args"]
                if not N.pre_holds_native(C, nargs):
                    continue
                o, v, post = N.run_native(C, nargs)
                failed = N.eval_contract_native(C, nargs, o, v, post)
                rec = {"how": "z3-shape-model", "obligation": f["obligation"], "args": N.encode(nargs), "failed": failed,
                       "outcome": o if o == "return" else "raise " + str(v), "confirmed_native": bool(failed)}
                out["refutations"].append(rec)
                if failed:
                    break
        # ---- 4. thorough tier: probe of the proof itself - the same contract on concrete shapes (quantifier-free instances);
        # a solver model there that fails natively would be a violation the unbounded proof missed (engine unsoundness)
        if tier == "thorough" and not unproved and proof_error is None and C.refute and C.native_ok and not out["refutations"]:
            try:
                found, tried = refute_by_shapes(C, case, reg, contracts, lib, deadline=time.time() + 45, max_models=3)
            except Exception as e:
                # the probe is an extra look for counterexamples; a spec that cannot be evaluated on some concrete shape ends the
                # probe, it is not a verdict about the code
                found, tried = [], 0
                out["cover"]["thorough_shape_probe_error"] = str(e)[:200]
            out["cover"]["thorough_shape_probe"] = {"shapes": tried, "models": len(found)}
            for f in found:
                nargs = f["args"]
                try:
                    if not N.pre_holds_native(C, nargs):
                        continue
                    o, v, post = N.run_native(C, nargs)
                    failed = N.eval_contract_native(C, nargs, o, v, post)
                except Exception:
                    continue          # a candidate that cannot even be evaluated natively is not a counterexample
                if failed:
                    out["refutations"].append({"how": "thorough-shape-probe", "obligation": f["obligation"], "args": N.encode(nargs),
                                               "failed": failed, "outcome": o if o == "return" else "raise " + str(v),
                                               "confirmed_native": True})
                    break
    except CheckerError as e:
        out["error"] = "CHECKER-ERROR %s" % e
    except Exception as e:
        out["error"] = "CHECKER-ERROR internal: %s\n%s" % (e, traceback.format_exc()[-1500:])
    out["wall_s"] = round(time.time() - t0, 3)
    sys.stdout = real_stdout
    print("\n" + json.dumps(out))


if __name__ == "__main__":
    main()
