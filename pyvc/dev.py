"""development harness: python -m pyvc.dev contracts.obs_kernel [name-substring]"""
import importlib
import sys
import time
import traceback

from .specs import REGISTRY
from .source import SourceRegistry
from .lib import Lib
from .driver import Run, explore
from .sym import CheckerError


def main():
    modname = sys.argv[1]
    filt = sys.argv[2] if len(sys.argv) > 2 else ""
    importlib.import_module(modname)
    reg = SourceRegistry()
    lib = Lib()
    contracts = {c.target: c for c in REGISTRY.values() if c.name == c.target}
    for name, C in list(REGISTRY.items()):
        if filt not in name or C.assumed:
            continue
        from .worker import make_lib
        lib = make_lib(C)
        for case, specs in C.cases():
            import os
            if os.environ.get("PYVC_CASE") and os.environ["PYVC_CASE"] not in str(case):
                continue
            t0 = time.time()
            run = Run(C, case, reg, contracts, lib)
            try:
                explore(run)
            except CheckerError as e:
                print("CHECKER-ERROR", name, case, e)
                traceback.print_exc()
                continue
            dt = time.time() - t0
            bad = [o for o in run.obls.values() if o.verdict != "proved"]
            print("%s %s: %d paths, %d obligations, %d not proved, %.2fs (solver %.2fs)" % (name, run.case_label(), run.npaths, len(run.obls), len(bad), dt, run.solver_s), flush=True)
            for o in run.obls.values():
                if o.verdict != "proved" or "-v" in sys.argv:
                    print("   ", o.verdict, o.oid, "line", o.line, o.detail, "%.2fs" % o.time, flush=True)


if __name__ == "__main__":
    main()
