"""Orchestrator: ./check <PROPERTY> [--tier quick|thorough]   |   ./check --replay <file>   |   ./check --list

Exit codes: 0 property held on everything explored; 1 violation (VIOLATION line); 2 undecided (UNDECIDED lines,
never a VIOLATION line); 3 checker error (unsupported construct, contract no longer binds, crash, timeout).
"""
import argparse
import importlib
import json
import os
import subprocess
import sys
import time

HERE = os.path.dirname(os.path.dirname(os.path.abspath(__file__)))
sys.path.insert(0, HERE)

from pyvc.specs import REGISTRY          # noqa: E402
from pyvc import lemmas as LEM           # noqa: E402

TASK_TIMEOUT = {"quick": 420, "thorough": 1500}


def contract_modules():
    import contracts
    return list(contracts.MODULES)


def load_all():
    mods = contract_modules()
    for m in mods:
        importlib.import_module(m)
    return mods


def run_tasks(tasks, tier, jobs):
    """tasks: list of dict; returns list of results (same order)"""
    results = [None] * len(tasks)
    running = []
    nxt = 0
    py = sys.executable
    env = dict(os.environ)
    env["PYTHONPATH"] = HERE + os.pathsep + env.get("PYTHONPATH", "")
    for k in ("OMP_NUM_THREADS", "OPENBLAS_NUM_THREADS", "MKL_NUM_THREADS", "NUMEXPR_NUM_THREADS"):
        env[k] = "1"
    while nxt < len(tasks) or running:
        while nxt < len(tasks) and len(running) < jobs:
            t = tasks[nxt]
            p = subprocess.Popen([py, "-m", "pyvc.worker", json.dumps(t)], stdout=subprocess.PIPE, stderr=subprocess.PIPE,
                                 cwd=HERE, env=env, text=True)
            running.append((nxt, p, time.time()))
            nxt += 1
        time.sleep(0.05)
        still = []
        for i, p, t0 in running:
            rc = p.poll()
            if rc is None:
                if time.time() - t0 > TASK_TIMEOUT[tier]:
                    p.kill()
                    p.communicate()
                    results[i] = {"contract": tasks[i]["contract"], "case": tasks[i]["case"], "obligations": [],
                                  "error": "CHECKER-ERROR task exceeded %ds (killed)" % TASK_TIMEOUT[tier], "refutations": [],
                                  "crosscheck": {"runs": 0, "disagreements": []}, "cover": {}, "wall_s": TASK_TIMEOUT[tier]}
                else:
                    still.append((i, p, t0))
                continue
            out, err = p.communicate()
            last = out.strip().splitlines()[-1] if out.strip() else ""
            try:
                results[i] = json.loads(last)
            except Exception:
                results[i] = {"contract": tasks[i]["contract"], "case": tasks[i]["case"], "obligations": [],
                              "error": "CHECKER-ERROR worker died rc=%s: %s" % (rc, (err or out)[-800:]), "refutations": [],
                              "crosscheck": {"runs": 0, "disagreements": []}, "cover": {}, "wall_s": 0}
        running = still
    return results


def load_known():
    path = os.path.join(HERE, "known_findings.json")
    if not os.path.exists(path):
        return []
    with open(path) as fh:
        return json.load(fh).get("findings", [])


def load_baseline():
    path = os.path.join(HERE, "baseline_obligations.json")
    if not os.path.exists(path):
        return {}
    with open(path) as fh:
        return json.load(fh)


def match_known(known, prop, contract, failed, nargs):
    """a refutation is a known finding iff an entry names this property + contract + one of the failed clauses and
    its region predicate holds on the failing input"""
    from pyvc.native import decode
    from pyvc.driver import Namespace
    for k in known:
        if k.get("status") != "known" or k["property"] != prop or k["contract"] != contract:
            continue
        if k["clause"] not in failed:
            continue
        try:
            a = Namespace(decode(nargs) if not isinstance(nargs, dict) or "__dict__" in nargs else nargs)
            env = {"a": a, "len": len, "isinstance": isinstance, "range": range, "list": list, "any": any, "all": all,
                   "min": min, "max": max, "abs": abs, "set": set, "sum": sum}
            if eval(k["region"], {"__builtins__": {}}, env):
                return k
        except Exception:
            continue
    return None


def check_property(prop, tier, seed, jobs, write_evidence=True):
    t0 = time.time()
    mods = load_all()
    cs = [c for c in REGISTRY.values() if prop in c.props and not c.assumed]
    assumed = [c for c in REGISTRY.values() if prop in c.props and c.assumed]
    if not cs:
        print("CHECKER-ERROR no contracts registered for %s" % prop)
        return 3
    tasks = []
    for C in cs:
        for case, _ in C.cases():
            tasks.append({"modules": mods, "contract": C.name, "case": case, "seed": seed, "tier": tier,
                          "budget_s": TASK_TIMEOUT[tier]})
    results = run_tasks(tasks, tier, jobs)
    lemma_results = LEM.check_lemmas(prop, cs)
    known = load_known()
    baseline = load_baseline().get(prop, [])

    n_obl = n_proved = 0
    violations, undecided, errors, known_hits = [], [], [], []
    known_obls = []
    by_backend = {}
    solver_s = 0.0
    samples = []
    functions = []
    lib_used = set()
    relies = set()
    cross_runs = cross_bad = 0
    cover_problems = []
    bounded = [{"contract": c.name, "bound": c.bounded} for c in cs if getattr(c, "bounded", None)]
    all_obls = []
    slow = []
    for t, r in zip(tasks, results):
        for o in r.get("obligations", []):
            slow.append((o.get("solver_s", 0), o["id"]))
        cname = r["contract"]
        if r.get("function"):
            f = dict(r["function"])
            f["case"] = r["case"]
            functions.append(f)
        lib_used.update(r.get("lib_used", []))
        relies.update(r.get("relies_on", []))
        solver_s += r.get("solver_s", 0) or 0
        if r.get("error"):
            errors.append("%s %s: %s" % (cname, r["case"], r["error"]))
        cr = r.get("crosscheck", {})
        cross_runs += cr.get("runs", 0)
        for d in cr.get("disagreements", []):
            cross_bad += 1
            errors.append("CHECKER-ERROR encoding disagrees with CPython in %s %s: %s" % (cname, r["case"], d["what"]))
        unproved = []
        for o in r["obligations"]:
            n_obl += 1
            all_obls.append(o["id"])
            for b, k in o.get("backend", {}).items():
                by_backend[b] = by_backend.get(b, 0) + k
            if not o.get("backend"):
                by_backend["trivial"] = by_backend.get("trivial", 0) + 1
            if o["verdict"] == "proved":
                n_proved += 1
                if len(samples) < 6 and o["kind"] in ("post", "inv.step", "raises.allowed", "safe"):
                    samples.append({"obligation": o["id"], "kind": o["kind"], "line": o["line"], "verdict": o["verdict"],
                                    "solver_s": o["solver_s"], "paths": o["paths"]})
            else:
                unproved.append(o)
        C = REGISTRY[cname]
        if not r.get("error") and C.native_ok and r.get("cover", {}).get("pre_native_samples", 1) == 0:
            cover_problems.append("%s %s: no native input satisfying the precondition was generated (vacuity guard)" % (cname, r["case"]))
        # refutations with a native failing input
        confirmed = [x for x in r.get("refutations", []) if x.get("failed")]
        unconfirmed = [x for x in r.get("refutations", []) if not x.get("failed")]
        handled = False
        case_known = []
        for x in confirmed:
            k = match_known(known, prop, cname, x["failed"], x["args"])
            if k is not None:
                known_hits.append((k, x))
                case_known.append(k)
                handled = True
                continue
            violations.append({"contract": cname, "case": r["case"], "failed": x["failed"], "args": x["args"], "how": x["how"],
                               "outcome": x.get("outcome"), "unproved": [o["id"] for o in unproved]})
            handled = True
            break
        if case_known and not any(v["contract"] == cname and v["case"] == r["case"] for v in violations):
            # obligations that fail only inside the region of a listed finding: reported as KNOWN-FINDING, not counted as
            # obligations of the proof (every other unproved obligation of the case stays undecided)
            for o in unproved:
                if any(o["id"].endswith(":" + k["clause"]) or k["clause"] in o["id"] for k in case_known):
                    n_obl -= 1
                    known_obls.append(o["id"])
                else:
                    undecided.append("%s (%s)" % (o["id"], o["verdict"]))
        if unproved and not handled:
            ids = [o["id"] for o in unproved]
            if unconfirmed and (any(i in baseline for i in ids) or any(x.get("finite") for x in unconfirmed)):
                violations.append({"contract": cname, "case": r["case"], "failed": [], "args": unconfirmed[0]["args"],
                                   "how": "solver model not confirmed natively", "no_input": True, "unproved": ids,
                                   "solver": [o.get("detail") for o in unproved]})
            else:
                for o in unproved:
                    undecided.append("%s (%s)" % (o["id"], o["verdict"]))
    for lr in lemma_results:
        n_obl += 1
        all_obls.append(lr["id"])
        by_backend[lr["backend"]] = by_backend.get(lr["backend"], 0) + 1
        solver_s += lr["solver_s"]
        if lr["verdict"] == "proved":
            n_proved += 1
        else:
            undecided.append("%s (%s)" % (lr["id"], lr["verdict"]))
    if n_obl == 0 and not errors:
        errors.append("CHECKER-ERROR zero obligations generated for %s" % prop)
    errors.extend("CHECKER-ERROR " + c for c in cover_problems)

    # ---- report
    rc = 0
    os.makedirs(os.path.join(HERE, "replays", prop), exist_ok=True)
    for old in os.listdir(os.path.join(HERE, "replays", prop)):
        os.remove(os.path.join(HERE, "replays", prop, old))
    seen_known = []
    for k, x in known_hits:
        if k["what"] not in seen_known:
            seen_known.append(k["what"])
            print("KNOWN-FINDING: property=%s %s" % (prop, k["what"]))
    # a known finding must still reproduce; listed ones that did not show up are only noted
    for i, v in enumerate(violations):
        safe = "".join(ch if ch.isalnum() or ch in "._-" else "_" for ch in v["contract"].split("::")[-1])
        path = os.path.join("replays", prop, "%s_%d.json" % (safe, i))
        with open(os.path.join(HERE, path), "w") as fh:
            json.dump({"property": prop, "contract": v["contract"], "case": v["case"], "failed_clauses": v["failed"],
                       "failed_obligations": v["unproved"], "args": v["args"], "found_by": v["how"], "outcome": v.get("outcome"),
                       "solver_output": v.get("solver"), "modules": mods}, fh, indent=1)
        print("VIOLATION property=%s replay=%s%s" % (prop, path, " no-failing-input-found" if v.get("no_input") else ""))
        rc = 1
    if rc == 0 and errors:
        for e in errors[:30]:
            print(e if e.startswith("CHECKER-ERROR") else "CHECKER-ERROR " + e)
        rc = 3
    if rc == 0 and undecided:
        for u in undecided[:40]:
            print("UNDECIDED obligation=%s" % u)
        rc = 2

    wall = time.time() - t0
    if write_evidence:
        trusted = sorted("assumed library model: " + x for x in lib_used)
        trusted += ["encoding: Python int / numpy integer = mathematical integer (no overflow)",
                    "encoding: float / float64 = mathematical real (no rounding, NaN, inf)",
                    "encoding: // and % by a symbolic divisor abstracted by fdiv/fmod + lemma library (each lemma discharged separately over interpreted div/mod)",
                    "z3 %s as the deciding back end" % _z3_version()]
        trusted += ["assumed contract (not verified here): " + c.name + " -- " + c.note for c in assumed]
        for c in cs:
            for q, oc in sorted(c.overrides.items()):
                line = "assumed call-site contract (stub used only inside %s): %s -- %s" % (c.name, oc.name, oc.note or "")
                if line not in trusted:
                    trusted.append(line)
        ev = {
            "property_id": prop, "tier": tier, "seed": seed, "level": "proof",
            "coverage": {
                "obligations": n_obl, "discharged": n_proved,
                "checker_cmd": "./check %s --tier %s" % (prop, tier),
                "trusted_base": trusted,
                "functions_under_contract": functions,
                "by_backend": by_backend,
                "solver_s": round(solver_s, 2),
                "relies_on_contracts": sorted(relies),
                "cases": len(tasks),
                "samples": samples,
                "crosscheck": {"concrete_differential_runs": cross_runs, "disagreements": cross_bad},
                "native_cover": {"%s %s" % (r["contract"].split("::")[-1], json.dumps(r["case"], sort_keys=True)): r.get("cover", {}) for r in results},
                "bounded": bounded,
                "undecided": undecided, "errors": errors[:20],
                "known_findings": seen_known,
                "known_finding_obligations": sorted(set(known_obls)),
                "not_decided": sorted(set(sum([c.not_decided for c in cs], []))),
                "obligation_ids": all_obls,
                "slowest_obligations": [{"obligation": i, "solver_s": s_} for s_, i in sorted(slow, reverse=True)[:8]],
                "slowest_cases": sorted([(r.get("wall_s", 0), r["contract"].split("::")[-1] + " " + json.dumps(r["case"], sort_keys=True)) for r in results], reverse=True)[:5],
            },
            "assumptions": trusted,
            "wall_s": round(wall, 2),
            "violations": len(violations),
        }
        evdir = os.environ.get("PYVC_EVIDENCE_DIR") or os.path.join(HERE, "evidence")
        os.makedirs(evdir, exist_ok=True)
        with open(os.path.join(evdir, prop + ".json"), "w") as fh:
            json.dump(ev, fh, indent=1)
    print("%s tier=%s: %d obligations, %d discharged, %d cases, %d violations, %d undecided, %d errors, %.1fs" % (
        prop, tier, n_obl, n_proved, len(tasks), len(violations), len(undecided), len(errors), wall))
    return rc


def _z3_version():
    import z3
    return z3.get_version_string()


def replay(path):
    from pyvc import native as N
    with open(os.path.join(HERE, path) if not os.path.isabs(path) else path) as fh:
        rec = json.load(fh)
    for m in rec.get("modules", contract_modules()):
        importlib.import_module(m)
    C = REGISTRY[rec["contract"]]
    nargs = N.decode(rec["args"])
    if "finite_obligation" in nargs:
        oid = nargs["finite_obligation"]
        print("replaying obligation %s of %s against the real code" % (oid, rec["contract"]))
        if C.finite_native is None:
            print("no native replay for this obligation; verifier output: %s" % rec.get("outcome"))
            return 0
        bad, text = C.finite_native(oid)
        print(text)
        if bad:
            print("VIOLATION property=%s replay=%s" % (rec["property"], path))
            return 1
        print("holds natively")
        return 0
    print("replaying %s on %s" % (rec["contract"], {k: (v if not hasattr(v, "tolist") else v.tolist()) for k, v in nargs.items()}))
    if not N.pre_holds_native(C, nargs):
        print("precondition does not hold on this input")
        return 0
    o, v, post = N.run_native(C, nargs)
    failed = N.eval_contract_native(C, nargs, o, v, post)
    print("outcome: %s %s" % (o, v if o == "raise" else ""))
    if o == "return":
        print("result: %r" % (v,))
    if failed:
        print("contract clauses violated on the real code: %s" % failed)
        print("VIOLATION property=%s replay=%s" % (rec["property"], path))
        return 1
    print("contract holds on this input")
    return 0


def main():
    ap = argparse.ArgumentParser()
    ap.add_argument("prop", nargs="?")
    ap.add_argument("--tier", default=os.environ.get("VERIF_TIER", "quick"))
    ap.add_argument("--replay")
    ap.add_argument("--list", action="store_true")
    ap.add_argument("--jobs", type=int, default=int(os.environ.get("PYVC_JOBS", "16")))
    ap.add_argument("--write-baseline", action="store_true")
    a = ap.parse_args()
    seed = int(os.environ.get("VERIF_SEED", "0") or 0)
    if a.replay:
        sys.exit(replay(a.replay))
    if a.list:
        load_all()
        for c in REGISTRY.values():
            print(c.name, c.props, len(c.cases()), "cases")
        return
    if a.write_baseline:
        load_all()
        props = sorted(set(p for c in REGISTRY.values() for p in c.props))
        base = {}
        for p in props:
            check_property(p, "quick", seed, a.jobs)
            with open(os.path.join(HERE, "evidence", p + ".json")) as fh:
                ev = json.load(fh)
            if ev["coverage"]["obligations"] == ev["coverage"]["discharged"]:
                base[p] = ev["coverage"]["obligation_ids"]
        with open(os.path.join(HERE, "baseline_obligations.json"), "w") as fh:
            json.dump(base, fh, indent=0)
        return
    if a.tier not in ("quick", "thorough"):
        a.tier = "quick"
    sys.exit(check_property(a.prop, a.tier, seed, a.jobs))


if __name__ == "__main__":
    main()
