"""Symbolic executor for the verified Python subset (see DESIGN.md section 2.2).

One `Interp` instance executes ONE path of one function (or statement slice) of
the real source, re-read from /repo at check time.  Branches on symbolic
conditions consult a decision list owned by the driver (`PathCtx`), which
re-executes the function once per path.  Loops with a symbolic trip count are
cut at the invariant supplied by the contract; calls to other pyerrors
functions are replaced by their contract; calls into numpy & co are replaced by
the assumed models of `pyvc.lib`.
"""
import ast
from fractions import Fraction
import z3

from .sym import (Sym, SInt, SReal, SBool, SSeq, CList, CDict, SRange, SOpt, SObj, SOpaque, CheckerError,
                  arith, compare, tz, tb, treal, wrap, fresh, Len, And, Or, Not, Implies, Ite, uf)
from . import sym


# --------------------------------------------------------------------------
# control flow signals


class _Return(Exception):
    def __init__(self, value):
        self.value = value


class _Break(Exception):
    pass


class _Continue(Exception):
    pass


class PyRaise(Exception):
    """The verified code raises a Python exception of class `cls`."""

    def __init__(self, cls, msg=None, node=None):
        self.cls = cls
        self.msg = msg
        self.node = node


class PathEnd(Exception):
    """The current path is finished without an outcome (infeasible, or cut after an invariant step)."""


EXC_PARENTS = {
    "IndexError": "LookupError", "KeyError": "LookupError", "LookupError": "Exception",
    "ValueError": "Exception", "TypeError": "Exception", "ZeroDivisionError": "ArithmeticError",
    "ArithmeticError": "Exception", "AttributeError": "Exception", "NotImplementedError": "RuntimeError",
    "RuntimeError": "Exception", "struct.error": "Exception", "Exception": "BaseException",
    "StopIteration": "Exception", "np.linalg.LinAlgError": "ValueError", "AssertionError": "Exception",
    "OSError": "Exception", "EOFError": "Exception", "UnicodeDecodeError": "ValueError",
}


def exc_matches(cls, handler):
    while cls is not None:
        if cls == handler:
            return True
        cls = EXC_PARENTS.get(cls)
    return False


class Poison:
    def __init__(self, why):
        self.why = why


class Mod:
    """module object / dotted name prefix (np, np.linalg, struct, ...)"""

    def __init__(self, name):
        self.name = name


class LibFn:
    def __init__(self, name):
        self.name = name

    def __repr__(self):
        return "LibFn(%s)" % self.name


class Closure:
    """function / lambda defined in the verified source"""

    def __init__(self, node, env, qual):
        self.node = node
        self.env = env
        self.qual = qual


class BoundMethod:
    def __init__(self, obj, name):
        self.obj = obj
        self.name = name


class ExcClass:
    def __init__(self, name):
        self.name = name


class Env:
    def __init__(self, parent=None):
        self.vars = {}
        self.parent = parent

    def lookup(self, name):
        e = self
        while e is not None:
            if name in e.vars:
                return e.vars[name]
            e = e.parent
        raise KeyError(name)

    def has(self, name):
        try:
            self.lookup(name)
            return True
        except KeyError:
            return False

    def set(self, name, value):
        self.vars[name] = value

    def set_nonlocal(self, name, value):
        e = self
        while e is not None:
            if name in e.vars:
                e.vars[name] = value
                return
            e = e.parent
        self.vars[name] = value


class View:
    """what a loop invariant / slice contract sees: the variables by name"""

    def __init__(self, env, pre=None):
        object.__setattr__(self, "_env", env)
        object.__setattr__(self, "pre", pre)

    def __getattr__(self, name):
        try:
            return self._env.lookup(name)
        except KeyError:
            raise CheckerError("contract no longer binds: variable %r not found" % name)


BUILTIN_EXC = {"ValueError", "TypeError", "IndexError", "KeyError", "Exception", "ZeroDivisionError",
               "AttributeError", "NotImplementedError", "RuntimeError", "StopIteration", "AssertionError",
               "LookupError", "ArithmeticError", "OSError", "EOFError", "UnboundLocalError", "NameError"}


def assigned_names(stmts):
    """names stored to (not inside nested defs) in a list of statements"""
    out = []

    class V(ast.NodeVisitor):
        def visit_Name(self, n):
            if isinstance(n.ctx, (ast.Store, ast.Del)) and n.id not in out:
                out.append(n.id)

        def visit_FunctionDef(self, n):
            if n.name not in out:
                out.append(n.name)

        def visit_Lambda(self, n):
            pass

        def visit_ListComp(self, n):
            # comprehension targets are local to the comprehension
            for g in n.generators:
                self.visit(g.iter)

        visit_GeneratorExp = visit_SetComp = visit_DictComp = visit_ListComp

    for s in stmts:
        V().visit(s)
    return out


def mutated_exprs(stmts):
    """AST expressions whose *object* is mutated in the statements (x[...] = v, x.a = v, x.append(v) ...)."""
    out = []

    class V(ast.NodeVisitor):
        def _tgt(self, t):
            if isinstance(t, ast.Subscript):
                base = t.value
                while isinstance(base, ast.Subscript):     # m[i][j] = v mutates m (m[i] is a view)
                    base = base.value
                out.append(("store", base))
            elif isinstance(t, ast.Attribute):
                out.append(("attr", t.value, t.attr))
            elif isinstance(t, (ast.Tuple, ast.List)):
                for e in t.elts:
                    self._tgt(e)

        def visit_Assign(self, n):
            for t in n.targets:
                self._tgt(t)
            self.generic_visit(n)

        def visit_AugAssign(self, n):
            self._tgt(n.target)
            self.generic_visit(n)

        def visit_Call(self, n):
            if isinstance(n.func, ast.Attribute) and n.func.attr in ("append", "extend", "update", "sort", "insert", "pop"):
                out.append((n.func.attr, n.func.value))
            if isinstance(n.func, ast.Attribute) and n.func.attr == "read":
                out.append(("attr", n.func.value, "pos"))     # file objects: read() advances the position
            self.generic_visit(n)

        def visit_FunctionDef(self, n):
            pass

        def visit_Lambda(self, n):
            pass

    for s in stmts:
        V().visit(s)
    return out


class Interp:
    def __init__(self, ctx, module, lib, contracts, target_contract=None, inline=()):
        self.ctx = ctx                   # PathCtx
        self.module = module             # ModuleInfo (ast, functions by qualname, file)
        self.lib = lib
        self.contracts = contracts       # registry: qualname -> Contract (for callee replacement)
        self.tc = target_contract        # contract of the function under verification (loop invariants)
        self.inline = set(inline)
        self.loop_counter = 0
        self.depth = 0
        self.self_qual = None

    # ------------------------------------------------------------------ helpers
    def err(self, node, msg):
        line = getattr(node, "lineno", "?")
        raise CheckerError("%s:%s: %s" % (self.module.relpath, line, msg))

    def truth(self, v, node=None):
        """Python truthiness as bool or z3 condition -> decided through branching."""
        c = self.truth_term(v, node)
        if isinstance(c, bool):
            return c
        return self.ctx.branch(tb(c))

    def truth_term(self, v, node=None):
        if isinstance(v, bool):
            return v
        if isinstance(v, SBool):
            return v
        if v is None:
            return False
        if isinstance(v, (int, Fraction)):
            return v != 0
        if isinstance(v, (SInt, SReal)):
            return compare("!=", v, 0)
        if isinstance(v, str):
            return len(v) > 0
        if isinstance(v, tuple):
            return len(v) > 0
        if isinstance(v, CList):
            if v.kind == "ndarray" and len(v.items) != 1:
                self.err(node, "truth value of an ndarray")
            return len(v.items) > 0 if v.kind != "ndarray" else self.truth_term(v.items[0], node)
        if isinstance(v, CDict):
            return len(v.d) > 0
        if isinstance(v, SSeq):
            if v.kind == "ndarray":
                self.err(node, "truth value of a symbolic ndarray")
            return compare(">", v.length, 0)
        if isinstance(v, SRange):
            return compare(">", v.length(), 0)
        if isinstance(v, SOpt):
            inner = self.truth_term(v.val, node) if v.val is not None else True
            return And(Not(v.isnone), inner)
        if isinstance(v, (SObj, SOpaque, Closure, LibFn, BoundMethod)):
            return True
        r = self.lib.truth_ext(self, v, node)
        if r is not NotImplemented:
            return r
        self.err(node, "truthiness of %r" % (v,))

    # ------------------------------------------------------------------ expressions
    def eval(self, node, env):
        m = getattr(self, "e_" + type(node).__name__, None)
        if m is None:
            self.err(node, "unsupported expression %s" % type(node).__name__)
        return m(node, env)

    def e_Constant(self, node, env):
        v = node.value
        if isinstance(v, float):
            return Fraction(repr(v)) if v == v and abs(v) != float("inf") else self.err(node, "non-finite literal")
        if isinstance(v, complex):
            return self.lib.make_complex(0, Fraction(repr(v.imag)))
        return v

    def e_Name(self, node, env):
        try:
            v = env.lookup(node.id)
        except KeyError:
            return self.global_name(node.id, node)
        if isinstance(v, Poison):
            self.err(node, "use of %s: %s" % (node.id, v.why))
        return v

    def global_name(self, name, node):
        if name in self.module.aliases:
            return Mod(self.module.aliases[name])
        if name in self.module.from_imports:
            return self.lib.from_import(self, self.module.from_imports[name], name, node)
        q = self.module.resolve(name)
        if q is not None:
            return q
        if name in BUILTIN_EXC:
            return ExcClass(name)
        if name == "NotImplemented":
            return NOT_IMPLEMENTED
        if self.lib.has_builtin(name):
            return LibFn(name)
        root = getattr(self, "root_node", None)
        if root is not None and name in assigned_names(getattr(root, "body", [])):
            # a local variable of the function under verification that no statement on this path has bound
            raise PyRaise("UnboundLocalError", "local variable %r referenced before assignment" % name, node)
        self.err(node, "unknown name %r" % name)

    def e_Attribute(self, node, env):
        obj = self.eval(node.value, env)
        return self.getattr(obj, node.attr, node)

    def getattr(self, obj, attr, node):
        if obj is None and attr not in ("__class__",):
            raise PyRaise("AttributeError", "'NoneType' object has no attribute %r" % attr, node)
        if attr == "__class__":
            from .lib import kind_of
            k = obj.cls.split("::")[-1] if isinstance(obj, SObj) else kind_of(obj).split(".")[-1]
            return SObj("type", {"__name__": k})
        if isinstance(obj, Mod):
            full = obj.name + "." + attr
            if self.lib.is_module(full):
                return Mod(full)
            if self.lib.is_exc(full):
                return ExcClass(self.lib.is_exc(full))
            if self.lib.has(full):
                return LibFn(full)
            c = self.lib.constant(full)
            if c is not None:
                return c
            self.err(node, "unmodelled library name %s" % full)
        if isinstance(obj, SObj):
            if attr in obj.attrs:
                v = obj.attrs[attr]
                if isinstance(v, Poison):
                    self.err(node, "read of %s.%s: %s" % (obj.cls, attr, v.why))
                self.ctx.note_read(obj, attr)
                return v
            cm = self.module.class_member(obj.cls, attr) or self.lib._class_member_any(self, obj.cls, attr)
            if cm is not None:
                kind, fnode, qual = cm
                if kind == "property":
                    return self.call_repo(qual, fnode, [obj], {}, node, bound=True)
                if kind == "method":
                    return BoundMethod(obj, attr)
                if kind == "classattr":
                    return self.ctx.class_attr(self, obj.cls, attr, fnode)
            if obj.cls in self.lib.obj_models and attr in self.lib.obj_models[obj.cls]:
                return BoundMethod(obj, attr)
            raise PyRaise("AttributeError", "%s has no attribute %s" % (obj.cls, attr), node)
        r = self.lib.getattr(self, obj, attr, node)
        if r is not NotImplemented:
            return r
        return BoundMethod(obj, attr)

    def e_UnaryOp(self, node, env):
        v = self.eval(node.operand, env)
        if isinstance(node.op, ast.Not):
            c = self.truth_term(v, node)
            return Not(c)
        if isinstance(node.op, ast.USub):
            if isinstance(v, SObj):
                r = self.lib.dunder(self, v, "__neg__", [], node)
                if r is not NotImplemented:
                    return r
            return self.binop("-", 0, v, node) if not isinstance(v, (SSeq, CList, SOpt, SObj)) else self.binop("*", -1, v, node)
        if isinstance(node.op, ast.UAdd):
            return v
        self.err(node, "unary op")

    OPS = {ast.Add: "+", ast.Sub: "-", ast.Mult: "*", ast.Div: "/", ast.FloorDiv: "//", ast.Mod: "%", ast.Pow: "**",
           ast.MatMult: "@", ast.BitAnd: "&", ast.BitOr: "|"}

    def e_BinOp(self, node, env):
        a = self.eval(node.left, env)
        b = self.eval(node.right, env)
        op = self.OPS.get(type(node.op))
        if op is None:
            self.err(node, "binary operator")
        return self.binop(op, a, b, node)

    def binop(self, op, a, b, node):
        # scalars
        if isinstance(a, (int, Fraction, SInt, SReal, SBool)) and isinstance(b, (int, Fraction, SInt, SReal, SBool)):
            if op in ("/", "//", "%"):
                nz = compare("!=", b, 0)
                if nz is False:
                    raise PyRaise("ZeroDivisionError", node=node)
                # symbolic *real* divisors: numpy floating point division never raises (it yields inf / nan); with
                # reals for floats the quotient by zero is an unspecified real (DESIGN 2.2).  Integer division and
                # modulo by zero raise as in Python.
                int_div = isinstance(b, (int, SInt, SBool)) and (op != "/" or isinstance(a, (int, SInt, SBool)))
                if nz is not True and int_div and not self.ctx.branch(tb(nz)):
                    raise PyRaise("ZeroDivisionError", node=node)
            if op == "**" and not isinstance(b, int):
                pass
            if op in ("&", "|"):
                if isinstance(a, (bool, SBool)) and isinstance(b, (bool, SBool)):
                    return And(a, b) if op == "&" else Or(a, b)
                self.err(node, "bit operation on integers")
            if op == "@":
                self.err(node, "@ on scalars")
            try:
                return arith(op, a, b)
            except ZeroDivisionError:
                raise PyRaise("ZeroDivisionError", node=node)
        r = self.lib.binop(self, op, a, b, node)
        if r is NotImplemented:
            self.err(node, "binary %s on %r and %r" % (op, type(a).__name__, type(b).__name__))
        return r

    def e_BoolOp(self, node, env):
        isand = isinstance(node.op, ast.And)
        # value semantics: result is the deciding operand; we support the boolean use
        last = None
        for i, sub in enumerate(node.values):
            v = self.eval(sub, env)
            last = v
            if i == len(node.values) - 1:
                return v
            t = self.truth(v, node)
            if isand and not t:
                return v
            if not isand and t:
                return v
        return last

    CMP = {ast.Lt: "<", ast.LtE: "<=", ast.Gt: ">", ast.GtE: ">=", ast.Eq: "==", ast.NotEq: "!="}

    def e_Compare(self, node, env):
        left = self.eval(node.left, env)
        result = True
        for i, (op, rn) in enumerate(zip(node.ops, node.comparators)):
            right = self.eval(rn, env)
            r = self.compare_op(op, left, right, node)
            if i == len(node.ops) - 1:
                return And(result, r) if result is not True else r
            # chained: short circuit
            if not self.truth(r, node):
                return False
            left = right
        return result

    def compare_op(self, op, a, b, node):
        if isinstance(op, ast.Is):
            return self.is_op(a, b, node)
        if isinstance(op, ast.IsNot):
            return Not(self.is_op(a, b, node))
        if isinstance(op, ast.In):
            return self.lib.contains(self, b, a, node)
        if isinstance(op, ast.NotIn):
            return Not(self.lib.contains(self, b, a, node))
        o = self.CMP[type(op)]
        if isinstance(a, (int, Fraction, SInt, SReal, SBool)) and isinstance(b, (int, Fraction, SInt, SReal, SBool)):
            return compare(o, a, b)
        return self.lib.compare(self, o, a, b, node)

    def is_op(self, a, b, node):
        if b is None or a is None:
            x = a if b is None else b
            if x is None:
                return True
            if isinstance(x, SOpt):
                return x.isnone
            return False
        if isinstance(a, bool) and isinstance(b, bool):
            return a is b
        if isinstance(a, (bool, SBool)) or isinstance(b, (bool, SBool)):
            # `x is True` on a bool-valued expression
            if isinstance(a, (bool, SBool)) and isinstance(b, (bool, SBool)):
                return wrap(tb(a) == tb(b))
            return False
        if isinstance(a, ExcClass) or isinstance(b, ExcClass) or isinstance(a, LibFn) or isinstance(b, LibFn):
            return self.lib.same_type(a, b)
        if isinstance(a, (SObj, SSeq, CList, CDict, SRange, SOpaque)) and isinstance(b, (SObj, SSeq, CList, CDict, SRange, SOpaque)):
            return a is b
        if isinstance(a, Sym) and isinstance(b, Sym) and not isinstance(a, (SInt, SReal, SBool)) and not isinstance(b, (SInt, SReal, SBool)):
            return a is b
        self.err(node, "`is` on %r / %r" % (a, b))

    def e_IfExp(self, node, env):
        if self.truth(self.eval(node.test, env), node):
            return self.eval(node.body, env)
        return self.eval(node.orelse, env)

    def e_Tuple(self, node, env):
        return tuple(self.eval_elts(node.elts, env))

    def eval_elts(self, elts, env):
        out = []
        for e in elts:
            if isinstance(e, ast.Starred):
                out.extend(self.lib.iterate_concrete(self, self.eval(e.value, env), e))
            else:
                out.append(self.eval(e, env))
        return out

    def e_List(self, node, env):
        return CList(self.eval_elts(node.elts, env), "list")

    def e_Set(self, node, env):
        return self.lib.make_set(self, self.eval_elts(node.elts, env), node)

    def e_Dict(self, node, env):
        d = CDict()
        for k, v in zip(node.keys, node.values):
            if k is None:
                other = self.eval(v, env)
                d.d.update(other.d)
            else:
                kk = self.eval(k, env)
                d.d[self.lib.dict_key(self, kk, node)] = self.eval(v, env)
        return d

    def e_Lambda(self, node, env):
        return Closure(node, env, "<lambda>")

    def e_JoinedStr(self, node, env):
        parts = []
        for v in node.values:
            if isinstance(v, ast.Constant):
                parts.append(v.value)
            else:
                x = self.eval(v.value, env)
                if isinstance(x, (str, int)) and v.format_spec is None:
                    parts.append(str(x))
                else:
                    return SOpaque("str")
        return "".join(parts)

    def e_Subscript(self, node, env):
        obj = self.eval(node.value, env)
        if isinstance(node.slice, ast.Slice):
            lo = self.eval(node.slice.lower, env) if node.slice.lower is not None else None
            hi = self.eval(node.slice.upper, env) if node.slice.upper is not None else None
            st = self.eval(node.slice.step, env) if node.slice.step is not None else None
            return self.lib.getslice(self, obj, lo, hi, st, node)
        idx = self.eval(node.slice, env)
        return self.lib.getitem(self, obj, idx, node)

    def e_ListComp(self, node, env):
        return self.lib.comprehension(self, node, env, "list")

    def e_GeneratorExp(self, node, env):
        return self.lib.comprehension(self, node, env, "list")

    def e_SetComp(self, node, env):
        return self.lib.make_set(self, self.lib.comprehension(self, node, env, "list").items, node)

    def e_DictComp(self, node, env):
        return self.lib.dict_comprehension(self, node, env)

    def e_Starred(self, node, env):
        self.err(node, "starred expression outside call/list")

    def e_Call(self, node, env):
        fn = self.eval(node.func, env)
        args = []
        for a in node.args:
            if isinstance(a, ast.Starred):
                args.extend(self.lib.iterate_concrete(self, self.eval(a.value, env), a))
            else:
                args.append(self.eval(a, env))
        kwargs = {}
        for k in node.keywords:
            if k.arg is None:
                d = self.eval(k.value, env)
                if not isinstance(d, CDict):
                    self.err(node, "**kwargs of non-concrete dict")
                kwargs.update(d.d)
            else:
                kwargs[k.arg] = self.eval(k.value, env)
        return self.call(fn, args, kwargs, node)

    def call(self, fn, args, kwargs, node):
        if isinstance(fn, LibFn):
            return self.lib.call(self, fn.name, args, kwargs, node)
        if isinstance(fn, Closure):
            return self.call_closure(fn, args, kwargs, node)
        if isinstance(fn, BoundMethod):
            obj = fn.obj
            if isinstance(obj, SObj):
                cm = self.module.class_member(obj.cls, fn.name) or self.lib._class_member_any(self, obj.cls, fn.name)
                if cm is not None and cm[0] == "method":
                    return self.call_repo(cm[2], cm[1], [obj] + args, kwargs, node, bound=True)
                if obj.cls in self.lib.obj_models and fn.name in self.lib.obj_models[obj.cls]:
                    return self.lib.obj_models[obj.cls][fn.name](self, obj, args, kwargs, node)
            return self.lib.method(self, obj, fn.name, args, kwargs, node)
        if isinstance(fn, RepoFn):
            return self.call_repo(fn.qual, fn.node, args, kwargs, node)
        if isinstance(fn, ExcClass):
            return SOpaque("exc", (fn.name, args))
        if isinstance(fn, RepoClass):
            return self.lib.construct(self, fn, args, kwargs, node)
        if isinstance(fn, SOpaque) and fn.tag == "symfunc":
            # an arbitrary user function of a vector of reals: uninterpreted
            F = fn.payload
            items = self.lib.iterate_concrete(self, args[0], node)
            return wrap(F(*[treal(x) for x in items]))
        self.err(node, "call of %r" % (fn,))

    # ------------------------------------------------------------------ calls into the verified source
    def bind_args(self, fnode, args, kwargs, node, env):
        a = fnode.args
        params = [p.arg for p in a.posonlyargs + a.args]
        if len(args) > len(params) and a.vararg is None:
            raise PyRaise("TypeError", "too many positional arguments", node)
        for p, v in zip(params, args):
            env.set(p, v)
        if a.vararg is not None:
            env.set(a.vararg.arg, tuple(args[len(params):]))
        ndef = len(a.defaults)
        kw = dict(kwargs)
        for i, p in enumerate(params):
            if i < len(args):
                if p in kw:
                    raise PyRaise("TypeError", "multiple values for %s" % p, node)
                continue
            if p in kw:
                env.set(p, kw.pop(p))
            else:
                di = i - (len(params) - ndef)
                if di < 0:
                    raise PyRaise("TypeError", "missing argument %s" % p, node)
                env.set(p, self.eval(a.defaults[di], env.parent or env))
        for p, d in zip(a.kwonlyargs, a.kw_defaults):
            if p.arg in kw:
                env.set(p.arg, kw.pop(p.arg))
            elif d is not None:
                env.set(p.arg, self.eval(d, env.parent or env))
            else:
                raise PyRaise("TypeError", "missing kw-only %s" % p.arg, node)
        if a.kwarg is not None:
            env.set(a.kwarg.arg, CDict(kw))
        elif kw:
            raise PyRaise("TypeError", "unexpected keyword %s" % list(kw), node)

    def call_closure(self, fn, args, kwargs, node):
        env = Env(fn.env)
        self.bind_args(fn.node, args, kwargs, node, env)
        if isinstance(fn.node, ast.Lambda):
            return self.eval(fn.node.body, env)
        return self.run_body(fn.node.body, env)

    def run_body(self, body, env):
        self.depth += 1
        if self.depth > 40:
            raise CheckerError("call depth exceeded (recursion is not modelled)")
        try:
            self.exec_block(body, env)
        except _Return as r:
            return r.value
        finally:
            self.depth -= 1
        return None

    def call_repo(self, qual, fnode, args, kwargs, node, bound=False):
        """call of a function / method defined in the repository: contract if there is one, inline if allowed."""
        c = self.contracts.get(qual)
        if self.tc is not None and qual in getattr(self.tc, "overrides", {}):
            c = self.tc.overrides[qual]
        inline_all = getattr(self.ctx.run, "inline_all", False)
        if c is not None and not c.inline_only and not inline_all and (qual != self.self_qual or c.result is not None):
            # (a recursive call of the function under verification uses its own contract: partial correctness)
            return self.ctx.call_contract(self, c, fnode, args, kwargs, node)
        if qual in self.inline or (c is not None and (c.inline_only or inline_all)) or self.module.is_trivial(fnode):
            mod = self.module.module_of(qual)
            saved = self.module
            self.module = mod
            try:
                env = Env(None)
                self.bind_args(fnode, args, kwargs, node, env)
                return self.run_body(fnode.body, env)
            finally:
                self.module = saved
        self.err(node, "call of %s which has neither a contract nor an inline permission" % qual)

    # ------------------------------------------------------------------ statements
    def exec_block(self, stmts, env):
        for s in stmts:
            self.exec(s, env)

    def exec(self, node, env):
        m = getattr(self, "s_" + type(node).__name__, None)
        if m is None:
            self.err(node, "unsupported statement %s" % type(node).__name__)
        self.ctx.cur_line = getattr(node, "lineno", None)
        r = m(node, env)
        if self.tc is not None and self.tc.ghost_on and not self.ctx.shape_mode:
            for pred, ghost in self.tc.ghost_on:
                if pred(node):
                    self.run_ghost(ghost, env, node, "L%s" % getattr(node, "lineno", "?"))
        return r

    def s_Expr(self, node, env):
        if isinstance(node.value, ast.Constant):
            return
        if isinstance(node.value, ast.Call):
            f = node.value.func
            if isinstance(f, ast.Name) and f.id == "print":
                return  # dropped (DESIGN 2.2)
            if isinstance(f, ast.Attribute) and isinstance(f.value, ast.Name) and f.value.id == "warnings":
                return  # dropped
        self.eval(node.value, env)

    def s_Pass(self, node, env):
        pass

    def s_Import(self, node, env):
        pass

    def s_ImportFrom(self, node, env):
        for a in node.names:
            env.set(a.asname or a.name, self.lib.from_import(self, (node.module, node.level), a.name, node))

    def s_Return(self, node, env):
        raise _Return(self.eval(node.value, env) if node.value is not None else None)

    def s_Break(self, node, env):
        raise _Break()

    def s_Continue(self, node, env):
        raise _Continue()

    def s_Assert(self, node, env):
        if not self.truth(self.eval(node.test, env), node):
            raise PyRaise("AssertionError", node=node)

    def s_Global(self, node, env):
        self.err(node, "global statement")

    def s_Nonlocal(self, node, env):
        for n in node.names:
            env.set(n, _NonlocalMarker)

    def s_FunctionDef(self, node, env):
        env.set(node.name, Closure(node, env, node.name))

    def s_ClassDef(self, node, env):
        env.set(node.name, self.lib.local_class(self, node, env))

    def s_Raise(self, node, env):
        if node.exc is None:
            self.err(node, "bare raise")
        e = node.exc
        cls = None
        if isinstance(e, ast.Call):
            fn = self.eval(e.func, env)
            if isinstance(fn, ExcClass):
                cls = fn.name
        else:
            fn = self.eval(e, env)
            if isinstance(fn, ExcClass):
                cls = fn.name
        if cls is None:
            self.err(node, "raise of non-exception")
        raise PyRaise(cls, None, node)

    def s_If(self, node, env):
        if self.truth(self.eval(node.test, env), node):
            self.exec_block(node.body, env)
        else:
            self.exec_block(node.orelse, env)

    def s_Assign(self, node, env):
        v = self.eval(node.value, env)
        for t in node.targets:
            self.assign(t, v, env, node)
            if isinstance(t, ast.Name) and self.tc is not None and t.id in self.tc.ghost_after and not self.ctx.shape_mode \
                    and self.depth <= 1:
                self.run_ghost(self.tc.ghost_after[t.id], env, node, t.id)

    def run_ghost(self, ghost, env, node, label):
        """ghost code of the contract: intermediate assertions and inductions, proved here and then assumed"""
        ctx = self.ctx
        for cmd in ghost(View(env)):
            kind = cmd[0]
            if kind == "assert":
                _, name, f = cmd
                ctx.oblige("ghost.assert", "%s.%s" % (label, name), f, node)
            elif kind == "induct":
                _, name, lo, hi, P = cmd
                ctx.oblige("ghost.induct.base", "%s.%s" % (label, name), Implies(compare("<", lo, hi), P(lo)), node)
                i = SInt(z3.Int(fresh("ind")))
                with ctx.scope():
                    ctx.assume(And(compare("<=", lo, i), compare("<", arith("+", i, 1), hi)))
                    ctx.assume(P(i))
                    ctx.oblige("ghost.induct.step", "%s.%s" % (label, name), P(arith("+", i, 1)), node)
                from .sym import ForAll
                ctx.assume(ForAll(lo, hi, P))
            elif kind == "induct_down":
                _, name, lo, hi, P = cmd
                ctx.oblige("ghost.induct.base", "%s.%s" % (label, name), Implies(compare("<", lo, hi), P(arith("-", hi, 1))), node)
                i = SInt(z3.Int(fresh("ind")))
                with ctx.scope():
                    ctx.assume(And(compare("<=", lo, i), compare("<", arith("+", i, 1), hi)))
                    ctx.assume(P(arith("+", i, 1)))
                    ctx.oblige("ghost.induct.step", "%s.%s" % (label, name), P(i), node)
                from .sym import ForAll
                ctx.assume(ForAll(lo, hi, P))
            else:
                raise CheckerError("unknown ghost command %r" % (kind,))

    def s_AnnAssign(self, node, env):
        if node.value is not None:
            self.assign(node.target, self.eval(node.value, env), env, node)

    def assign(self, target, v, env, node):
        if isinstance(target, ast.Name):
            if env.vars.get(target.id) is _NonlocalMarker:
                env.parent.set_nonlocal(target.id, v)
            else:
                env.set(target.id, v)
        elif isinstance(target, (ast.Tuple, ast.List)):
            items = self.lib.iterate_concrete(self, v, node)
            if len(items) != len(target.elts):
                raise PyRaise("ValueError", "unpack", node)
            for t, x in zip(target.elts, items):
                self.assign(t, x, env, node)
        elif isinstance(target, ast.Subscript):
            obj = self.eval(target.value, env)
            if isinstance(target.slice, ast.Slice):
                lo = self.eval(target.slice.lower, env) if target.slice.lower is not None else None
                hi = self.eval(target.slice.upper, env) if target.slice.upper is not None else None
                st = self.eval(target.slice.step, env) if target.slice.step is not None else None
                self.lib.setslice(self, obj, lo, hi, st, v, node)
            else:
                idx = self.eval(target.slice, env)
                self.lib.setitem(self, obj, idx, v, node)
        elif isinstance(target, ast.Attribute):
            obj = self.eval(target.value, env)
            self.setattr(obj, target.attr, v, node)
        else:
            self.err(node, "assignment target")

    def setattr(self, obj, attr, v, node):
        if isinstance(obj, SObj):
            self.ctx.note_write(obj, attr, node)
            obj.attrs[attr] = v
            return
        self.err(node, "attribute store on %r" % (obj,))

    def s_AugAssign(self, node, env):
        op = self.OPS.get(type(node.op))
        t = node.target
        if isinstance(t, ast.Name):
            cur = self.e_Name(ast.Name(id=t.id, ctx=ast.Load(), lineno=node.lineno), env)
            new = self.lib.inplace(self, op, cur, self.eval(node.value, env), node)
            if new is not cur:
                self.assign(t, new, env, node)
        elif isinstance(t, ast.Subscript):
            obj = self.eval(t.value, env)
            if isinstance(t.slice, ast.Slice):
                lo = self.eval(t.slice.lower, env) if t.slice.lower is not None else None
                hi = self.eval(t.slice.upper, env) if t.slice.upper is not None else None
                st = self.eval(t.slice.step, env) if t.slice.step is not None else None
                cur = self.lib.getslice(self, obj, lo, hi, st, node)
                new = self.binop(op, cur, self.eval(node.value, env), node)
                self.lib.setslice(self, obj, lo, hi, st, new, node)
            else:
                idx = self.eval(t.slice, env)
                cur = self.lib.getitem(self, obj, idx, node)
                new = self.lib.inplace(self, op, cur, self.eval(node.value, env), node)
                self.lib.setitem(self, obj, idx, new, node)
        elif isinstance(t, ast.Attribute):
            obj = self.eval(t.value, env)
            cur = self.getattr(obj, t.attr, node)
            new = self.lib.inplace(self, op, cur, self.eval(node.value, env), node)
            self.setattr(obj, t.attr, new, node)
        else:
            self.err(node, "augmented assignment target")

    def s_With(self, node, env):
        for item in node.items:
            v = self.eval(item.context_expr, env)
            if item.optional_vars is not None:
                self.assign(item.optional_vars, v, env, node)
        self.exec_block(node.body, env)

    def s_Try(self, node, env):
        if node.finalbody:
            self.err(node, "try/finally")
        try:
            self.exec_block(node.body, env)
        except PyRaise as e:
            for h in node.handlers:
                names = self.handler_names(h, env)
                if names is None or any(exc_matches(e.cls, n) for n in names):
                    if h.name:
                        env.set(h.name, SOpaque("exc", (e.cls, [])))
                    self.exec_block(h.body, env)
                    return
            raise
        else:
            self.exec_block(node.orelse, env)

    def handler_names(self, h, env):
        if h.type is None:
            return None
        t = h.type
        elts = t.elts if isinstance(t, ast.Tuple) else [t]
        out = []
        for e in elts:
            v = self.eval(e, env)
            if not isinstance(v, ExcClass):
                self.err(h, "except clause with non-exception")
            out.append(v.name)
        return out

    # ------------------------------------------------------------------ loops
    def loop_ordinal(self, node):
        """static ordinal of a loop statement: its index among the for/while statements of the function under
        verification, in source order (stable across paths)"""
        table = getattr(self, "_loop_table", None)
        if table is None:
            table = self._loop_table = {}
            root = getattr(self, "root_node", None)
            if root is not None:
                loops = [n for n in ast.walk(root) if isinstance(n, (ast.For, ast.While))]
                loops.sort(key=lambda n: (n.lineno, n.col_offset))
                cnt = {"for": 0, "while": 0}
                self._loop_kind = {}
                for i, n in enumerate(loops):
                    table[id(n)] = i
                    k = "while" if isinstance(n, ast.While) else "for"
                    self._loop_kind[i] = "%s:%d" % (k, cnt[k])
                    cnt[k] += 1
        if id(node) in table:
            return table[id(node)]
        return -1 - self.loop_counter

    def loop_invariant(self, ordinal):
        """contracts may key a loop by its static ordinal or by 'while:<n>' / 'for:<n>' (n-th loop of that kind)"""
        if self.tc is None:
            return None
        inv = self.tc.loops.get(ordinal)
        if inv is None and ordinal >= 0:
            inv = self.tc.loops.get(getattr(self, "_loop_kind", {}).get(ordinal))
        return inv

    def s_While(self, node, env):
        ordinal = self.loop_ordinal(node)
        self.loop_counter += 1
        if node.orelse:
            self.err(node, "while/else")
        inv = self.loop_invariant(ordinal)
        if inv is None:
            # concrete unrolling (bounded by fuel); symbolic conditions need an invariant
            fuel = self.ctx.fuel
            while True:
                c = self.truth_term(self.eval(node.test, env), node)
                if not isinstance(c, bool):
                    if self.ctx.shape_mode:
                        c = self.ctx.branch(tb(c))
                    else:
                        self.err(node, "while loop %d with symbolic condition needs an invariant" % ordinal)
                if not c:
                    return
                fuel -= 1
                if fuel < 0:
                    if self.ctx.shape_mode:
                        raise PathEnd("fuel")
                    self.err(node, "while loop %d: unrolling fuel exhausted" % ordinal)
                try:
                    self.exec_block(node.body, env)
                except _Break:
                    return
                except _Continue:
                    continue
        return self.loop_with_invariant(node, env, ordinal, inv, kind="while")

    def s_For(self, node, env):
        ordinal = self.loop_ordinal(node)
        self.loop_counter += 1
        if node.orelse:
            self.err(node, "for/else")
        it = self.eval(node.iter, env)
        items = self.lib.try_iterate_concrete(self, it, node)
        if items is not None:
            for x in items:
                self.assign(node.target, x, env, node)
                try:
                    self.exec_block(node.body, env)
                except _Break:
                    break
                except _Continue:
                    continue
            return
        inv = self.loop_invariant(ordinal)
        n, getter = self.lib.symbolic_iter(self, it, node)
        if inv is None:
            if self.lib.try_summarize_loop(self, node, env, n, getter):
                return
            self.err(node, "for loop %d over a symbolic iterable needs an invariant" % ordinal)
        return self.loop_with_invariant(node, env, ordinal, inv, kind="for", n=n, getter=getter)

    def havoc_for_loop(self, body, env, node, extra_targets=()):
        names = assigned_names(body) + list(extra_targets)
        muts = mutated_exprs(body)
        # evaluate the mutated containers in the pre-state
        objs = []
        for m in muts:
            kind, expr = m[0], m[1]
            try:
                o = self.eval(expr, env)
            except (CheckerError, PyRaise, KeyError):
                continue   # depends on loop-local names; those objects are created inside the body
            objs.append((kind, o, expr, m[2] if len(m) > 2 else None))
        return names, objs

    def do_havoc(self, names, objs, env, node):
        for nme in names:
            if env.has(nme):
                old = env.lookup(nme)
                env.set_nonlocal(nme, self.ctx.havoc_value(old, nme, node)) if nme not in env.vars else env.set(nme, self.ctx.havoc_value(old, nme, node))
        done = set()
        for kind, o, expr, attr in objs:
            if id(o) in done:
                continue
            done.add(id(o))
            self.ctx.havoc_object(o, kind, attr, node)

    def snapshot(self, env):
        snap = Env(None)
        e = env
        chain = []
        while e is not None:
            chain.append(e)
            e = e.parent
        for e in reversed(chain):
            for k, v in e.vars.items():
                snap.vars[k] = self.ctx.clone_value(v)
        return View(snap)

    def loop_with_invariant(self, node, env, ordinal, inv, kind, n=None, getter=None):
        ctx = self.ctx
        pre = self.snapshot(env)
        tnames = [x for x in assigned_names([node.target])] if kind == "for" else []
        names, objs = self.havoc_for_loop(node.body, env, node)
        names = [x for x in names if x not in tnames]
        view = View(env, pre.pre if False else pre)

        def inv_at(k):
            f = inv(k, view) if kind == "for" else inv(view)
            return f

        label = "loop%d@L%d" % (ordinal, node.lineno)
        # 1. the invariant holds on entry
        for nm, f in _named(inv_at(0)):
            ctx.oblige("inv.init", "%s.%s" % (label, nm), f, node)
        # 2. decide: verify one arbitrary iteration, or continue after the loop
        step_path = ctx.choice("loopstep:%s" % label)
        self.do_havoc(names, objs, env, node)
        for t in tnames:
            env.set(t, Poison("loop target after/before the loop"))
        if step_path:
            if kind == "for":
                k = SInt(z3.Int(fresh("it")))
                ctx.assume(And(compare("<=", 0, k), compare("<", k, n)))
                for nm, f in _named(inv_at(k)):
                    ctx.assume(f)
                self.assign(node.target, getter(k), env, node)
            else:
                for nm, f in _named(inv_at(None)):
                    ctx.assume(f)
                c = self.truth(self.eval(node.test, env), node)
                if not c:
                    raise PathEnd("guard false in step path")
            try:
                self.exec_block(node.body, env)
            except _Continue:
                pass
            except _Break:
                # leaving the loop from an arbitrary iteration: state as it is
                return
            for nm, f in _named(inv_at(arith("+", k, 1)) if kind == "for" else inv_at(None)):
                ctx.oblige("inv.step", "%s.%s" % (label, nm), f, node)
            raise PathEnd("invariant step verified")
        else:
            if kind == "for":
                nn = Ite(compare(">", n, 0), n, 0) if not isinstance(n, int) else max(n, 0)
                for nm, f in _named(inv_at(nn)):
                    ctx.assume(f)
            else:
                for nm, f in _named(inv_at(None)):
                    ctx.assume(f)
                c = self.truth_term(self.eval(node.test, env), node)
                ctx.assume(Not(c))
            return


def _named(f):
    if isinstance(f, dict):
        return list(f.items())
    if isinstance(f, (list, tuple)):
        return [("c%d" % i, x) for i, x in enumerate(f)]
    return [("inv", f)]


class _NI:
    def __repr__(self):
        return "NotImplemented"


NOT_IMPLEMENTED = _NI()


class _NL:
    pass


_NonlocalMarker = _NL()


class RepoFn:
    def __init__(self, qual, node):
        self.qual = qual
        self.node = node


class RepoClass:
    def __init__(self, qual, node):
        self.qual = qual
        self.node = node
