"""Path exploration, obligations and verdicts.

verify_contract(C)  runs the symbolic executor over every path of the function
(or slice) C is attached to, for every `case` (assignment of value kinds to the
parameters), and returns the list of obligations with verdicts.
"""
import os
import sys
import time
import traceback
import z3

from .sym import (Sym, SInt, SReal, SBool, SSeq, CList, CDict, SRange, SOpt, SObj, SOpaque, CheckerError,
                  tb, tz, wrap, fresh, And, Or, Not, Implies, compare)
from .interp import Interp, PathEnd, PyRaise, Env, Poison, _named, exc_matches, _Return
from . import specs as S

Z3_QUICK_MS = 3000       # wall-clock safety net for feasibility checks (the deterministic limit below normally ends them)
Z3_QUICK_RL = int(os.environ.get("PYVC_QUICK_RL", "600000"))
Z3_OBL_RL = int(os.environ.get("PYVC_OBL_RL", "40000000"))    # z3 resource limit per obligation (deterministic)   # z3 resource limit for feasibility checks: deterministic across runs / loads
Z3_OBL_MS = 5000         # incremental check of an obligation
CVC5_MS = 15000          # cvc5 second opinion
Z3_ONESHOT_MS = 60000    # wall-clock safety net per obligation (the resource limit normally ends the query first)


class Obligation:
    __slots__ = ("oid", "kind", "name", "line", "verdict", "time", "paths", "backend", "detail", "formula_size")

    def __init__(self, oid, kind, name, line):
        self.oid = oid
        self.kind = kind
        self.name = name
        self.line = line
        self.verdict = "proved"
        self.time = 0.0
        self.paths = 0
        self.backend = {}
        self.detail = None
        self.formula_size = 0

    def as_dict(self):
        return {"id": self.oid, "kind": self.kind, "line": self.line, "verdict": self.verdict, "paths": self.paths,
                "solver_s": round(self.time, 4), "backend": self.backend, "detail": self.detail}


class Namespace:
    def __init__(self, d):
        self.__dict__.update(d)

    def __getattr__(self, name):
        raise CheckerError("contract refers to unknown parameter %r" % name)


class PathCtx:
    def __init__(self, run, decisions):
        self.run = run
        self.decisions = list(decisions)
        self.ndec = 0
        self.solver = z3.Solver()
        self.solver.set("timeout", Z3_QUICK_MS)
        self.solver.set("rlimit", Z3_QUICK_RL)
        self.qf = z3.Solver()           # quantifier-free part of the path condition (cheap pre-filter)
        self.qf.set("timeout", Z3_QUICK_MS)
        self.qf.set("rlimit", Z3_QUICK_RL)
        self.pc = []
        self.shape_mode = run.shape_mode
        self.fuel = run.fuel
        self.cur_line = None
        self.reads = []
        self.writes = []
        self.frozen_ok = True
        self.local = []       # stack of local decision frames (sub-exploration)
        self.nchecks = 0
        self.nofork = 0
        self.summary = []
        for ax in run.lib_axioms:
            self._add(ax)
        for ax in getattr(run, "lib_axioms_extra", []):
            self._add(ax)
        self.n_lib = len(self.pc)

    # ---- path condition
    def _drain(self):
        from . import sym as _sym
        while _sym.PENDING:
            ax = _sym.PENDING.pop(0)
            self.pc.append(ax)
            self.solver.add(ax)

    def _add(self, t):
        self._drain()
        self.pc.append(t)
        self.solver.add(t)
        if not _has_quantifier([t]):
            self.qf.add(t)

    def assume(self, f):
        if f is True:
            return
        if f is False:
            raise PathEnd("assumption false")
        for nm, g in _named(f) if isinstance(f, (dict, list, tuple)) else [("", f)]:
            if g is True:
                continue
            if g is False:
                raise PathEnd("assumption false")
            self._add(tb(g))

    def feasible(self, t):
        self.solver.push()
        self.solver.add(t)
        self.nchecks += 1
        r = self.solver.check()
        self.solver.pop()
        return r != z3.unsat

    def _qf_unsat(self, t):
        if _has_quantifier([t]):
            return False
        self.qf.push()
        self.qf.add(t)
        r = self.qf.check()
        self.qf.pop()
        return r == z3.unsat

    def feasible_pair(self, cond):
        """(cond feasible?, not cond feasible?) ; `unknown` counts as feasible"""
        nc = z3.Not(cond)
        if self._qf_unsat(cond):
            return False, True
        if self._qf_unsat(nc):
            return True, False
        ff = self.feasible(nc)
        if not ff:
            return True, False
        ft = self.feasible(cond)
        return ft, ff

    def _decide(self, ft_thunk, label):
        if self.local:
            frame = self.local[-1]
            decs, nd = frame["decisions"], frame["n"]
        else:
            decs, nd = self.decisions, self.ndec
        if nd < len(decs):
            choice = decs[nd]
        else:
            ft, ff = ft_thunk()
            if ft and ff:
                pending = decs[:nd] + [False]
                if self.local:
                    self.local[-1]["work"].append(pending)
                else:
                    self.run.work.append(pending)
                choice = True
            elif ft:
                choice = True
            elif ff:
                choice = False
            else:
                raise PathEnd("infeasible")
            decs.append(choice)
        if self.local:
            self.local[-1]["n"] += 1
        else:
            self.ndec += 1
        return choice

    def implied(self, t):
        self.solver.push()
        self.solver.add(z3.Not(t))
        self.nchecks += 1
        r = self.solver.check()
        self.solver.pop()
        return r == z3.unsat

    def scope(self):
        return _Scope(self)

    def explore_local(self, thunk):
        """enumerate the paths through `thunk` (a piece of code executed under the current path condition) without
        forking the enclosing path: returns [(extra conditions, outcome, value)]; state changes of thunk must be
        confined by the caller."""
        from .interp import _Continue, _Break, _Return
        results = []
        work = [[]]
        guard = 0
        while work:
            guard += 1
            if guard > 256:
                raise CheckerError("too many paths through a loop body / element expression")
            prefix = work.pop()
            frame = {"decisions": list(prefix), "n": 0, "work": work}
            self.local.append(frame)
            mark = len(self.pc)
            self.solver.push()
            self.qf.push()
            try:
                try:
                    v = thunk()
                    results.append((list(self.pc[mark:]), "normal", v))
                except _Continue:
                    results.append((list(self.pc[mark:]), "continue", None))
                except _Break:
                    results.append((list(self.pc[mark:]), "break", None))
                except _Return as r:
                    results.append((list(self.pc[mark:]), "return", r.value))
                except PyRaise as e:
                    results.append((list(self.pc[mark:]), "raise", e))
                except PathEnd:
                    pass
            finally:
                self.solver.pop()
                self.qf.pop()
                del self.pc[mark:]
                self.local.pop()
        return results

    def decide(self, cond, exc, node=None):
        """a safety condition guarding an implicit exception `exc`: True = holds on this path, False = the
        exceptional path.  When the exceptional side is infeasible the obligation safe.<exc>@L<line> is recorded as
        discharged here (so that the set of obligation ids does not depend on solver timing)."""
        name = "%s@L%s" % (exc, getattr(node, "lineno", "?"))
        if self.nofork:
            self.oblige("safe", name, wrap(cond), node)
            return True
        cond = z3.simplify(cond)
        if z3.is_true(cond):
            return True
        if z3.is_false(cond):
            return False
        if not self.local and self.ndec >= len(self.decisions):
            t0 = time.time()
            ft, ff = self.feasible_pair(cond)
            if not ff:
                ob = self.run.obligation("safe", name, getattr(node, "lineno", None) or self.cur_line)
                ob.paths += 1
                ob.time += time.time() - t0
                ob.backend["z3-inc"] = ob.backend.get("z3-inc", 0) + 1
                self.decisions.append(True)
                self.ndec += 1
                self._add(cond)
                return True
        return self.branch(cond)

    def branch(self, cond):
        cond = z3.simplify(cond)
        if z3.is_true(cond):
            return True
        if z3.is_false(cond):
            return False
        if self.nofork:
            if self.implied(cond):
                return True
            if self.implied(z3.Not(cond)):
                return False
            raise CheckerError("line %s: branch on %s inside a quantified body (comprehension / vectorised expression)" % (self.cur_line, cond))
        choice = self._decide(lambda: self.feasible_pair(cond), "br")
        self._add(cond if choice else z3.Not(cond))
        return choice

    def choice(self, label):
        return self._decide(lambda: (True, True), label)

    # ---- obligations
    def oblige(self, kind, name, f, node=None):
        line = getattr(node, "lineno", None) or self.cur_line
        ob = self.run.obligation(kind, name, line)
        ob.paths += 1
        self.cur_oid = ob.oid
        self._drain()
        if f is True:
            return
        t0 = time.time()
        if f is False:
            # must be unreachable
            t = z3.BoolVal(False)
        else:
            t = tb(f)
        path_facts_qf = not _has_quantifier(self.pc[self.n_lib:])
        if f is False and path_facts_qf:
            # constant False on a path whose own facts are quantifier free (the only quantified formulas are the library
            # axioms / lemmas): it fails iff the path is reachable, decided on the quantifier-free part
            self.qf.set("timeout", 2000)
            quick = self.qf.check()
            self.qf.set("timeout", Z3_QUICK_MS)
            verdict, backend, detail = ("refuted", "z3", {"reachable": True}) if quick == z3.sat else self.run.prove(self, t)
        elif f is False:
            # constant False on a path with quantified facts: the obligation is `this path is unreachable`; if the small budget
            # and cvc5 do not show that, the long budget will not either (and the native search decides what is reported)
            verdict, backend, detail = self.run.prove(self, t, small_only=True)
        else:
            verdict, backend, detail = self.run.prove(self, t)
        if f is False and verdict == "unknown" and path_facts_qf:
            self.qf.set("timeout", 2000)
            if self.qf.check() == z3.sat:
                verdict = "refuted"
            self.qf.set("timeout", Z3_QUICK_MS)
        dt = time.time() - t0
        ob.time += dt
        ob.backend[backend] = ob.backend.get(backend, 0) + 1
        if verdict != "proved" and os.environ.get("PYVC_DEBUG"):
            print("DEBUG unproved %s on path %s (line %s) %.1fs" % (ob.oid, "".join("T" if d else "F" for d in self.decisions), self.cur_line, dt))
        if verdict != "proved":
            if ob.verdict == "proved" or (ob.verdict == "unknown" and verdict == "refuted"):
                ob.verdict = verdict
                ob.detail = detail
        # assert-then-assume
        if f is False:
            raise PathEnd("after failed reachability obligation")
        self._add(t)

    # ---- havoc / clone
    def havoc_value(self, old, name, node=None):
        if isinstance(old, bool) or isinstance(old, SBool):
            return SBool(z3.Bool(fresh(name)))
        if isinstance(old, (int, SInt)):
            return SInt(z3.Int(fresh(name)))
        if isinstance(old, (S.Fraction, SReal)):
            return SReal(z3.Real(fresh(name)))
        if isinstance(old, SSeq):
            n = SSeq.fresh(name, old.kind, old.ekind, opt=old.none is not None)
            self._add(tz(n.length) >= 0)
            return n
        if isinstance(old, SOpt):
            return SOpt(SBool(z3.Bool(fresh(name + ".none"))), self.havoc_value(old.val, name, node) if old.val is not None else None)
        if isinstance(old, CList) and all(isinstance(x, (int, S.Fraction, SInt, SReal)) for x in old.items):
            ek = "int" if all(isinstance(x, (int, SInt)) for x in old.items) else "real"
            if not old.items:
                ek = old.ekind or "real"
            n = SSeq.fresh(name, old.kind, ek)
            self._add(tz(n.length) >= 0)
            return n
        if isinstance(old, str) or (isinstance(old, SOpaque) and old.tag == "str"):
            return SOpaque("str")      # strings are opaque: nothing is known about their content anyway
        if old is None or isinstance(old, Poison):
            return Poison("assigned inside a loop that was cut at its invariant")
        if isinstance(old, (str, tuple, CDict, CList, SObj, SOpaque, SRange)):
            return Poison("value of kind %s assigned inside a loop cut at its invariant" % type(old).__name__)
        return Poison("assigned inside a loop that was cut at its invariant")

    def havoc_object(self, o, kind, attr, node=None):
        if isinstance(o, SSeq):
            if getattr(o, "frozen", False):
                return
            n = fresh(o.name.split("!")[0])
            o.arr = z3.Const(n, o.arr.sort())
            if o.none is not None:
                o.none = z3.Const(n + ".none", o.none.sort())
            if kind in ("append", "extend", "pop", "insert"):
                o.length = SInt(z3.Int(n + ".len"))
                self._add(tz(o.length) >= 0)
            return
        if isinstance(o, SObj) and kind == "attr":
            old = o.attrs.get(attr)
            o.attrs[attr] = self.havoc_value(old, attr, node)
            return
        if isinstance(o, CList):
            if kind == "store":
                for i, x in enumerate(o.items):
                    o.items[i] = self.havoc_value(x, "el", node)
                return
            raise CheckerError("list of concrete length is appended to inside a loop cut at its invariant (line %s); bind it through a local name" % getattr(node, "lineno", "?"))
        if isinstance(o, CDict):
            for k in list(o.d):
                o.d[k] = self.havoc_value(o.d[k], "dv", node)
            return
        raise CheckerError("cannot havoc %r" % (o,))

    def clone_value(self, v, memo=None):
        memo = {} if memo is None else memo
        if id(v) in memo:
            return memo[id(v)]
        if isinstance(v, SSeq):
            c = SSeq(v.length, v.arr, v.kind, v.ekind, v.none, v.name)
        elif isinstance(v, CList):
            c = CList([], v.kind, v.ekind)
            memo[id(v)] = c
            c.items = [self.clone_value(x, memo) for x in v.items]
        elif isinstance(v, CDict):
            c = CDict()
            memo[id(v)] = c
            c.d = {k: self.clone_value(x, memo) for k, x in v.d.items()}
        elif isinstance(v, SObj):
            c = SObj(v.cls, {}, v.name)
            memo[id(v)] = c
            c.attrs = {k: self.clone_value(x, memo) for k, x in v.attrs.items()}
        elif isinstance(v, tuple):
            c = tuple(self.clone_value(x, memo) for x in v)
        else:
            c = v
        memo[id(v)] = c
        return c

    def note_read(self, obj, attr):
        self.reads.append((obj.name, obj.cls, attr))

    def note_write(self, obj, attr, node):
        self.writes.append((obj.name, obj.cls, attr))
        if getattr(obj, "frozen", False) and attr not in getattr(obj, "writable", ()):
            self.oblige("frame.write", "%s.%s" % (obj.cls, attr), False, node)

    def class_attr(self, interp, cls, attr, node):
        return self.run.class_attr(interp, self, cls, attr, node)

    # ---- callee replaced by its contract
    def call_contract(self, interp, C, fnode, args, kwargs, node):
        env = Env(None)
        interp.bind_args(fnode, args, kwargs, node, env)
        a = Namespace(env.vars)
        self.interp = interp          # result builders of stub contracts may evaluate closures passed as arguments
        self.call_node = node
        label = C.short + "@L%s" % getattr(node, "lineno", "?")
        self.run.relies_on.add(C.target)
        if C.requires is not None:
            for nm, f in _named(C.requires(a)):
                self.oblige("call.pre", "%s.%s" % (label, nm), f, node)
        for cls, when in C.raises:
            w = when(a)
            if w is True or (w is not False and self.branch(tb(w))):
                raise PyRaise(cls, None, node)
        res = C.make_result(a, self)
        if C.ensures is not None:
            for nm, f in _named(C.ensures(a, res)):
                self.assume(f)
        return res


class _Scope:
    def __init__(self, ctx):
        self.ctx = ctx

    def __enter__(self):
        self.n = len(self.ctx.pc)
        self.ctx.solver.push()
        self.ctx.qf.push()
        return self

    def __exit__(self, *a):
        self.ctx.solver.pop()
        self.ctx.qf.pop()
        del self.ctx.pc[self.n:]
        return False


class Run:
    """verification of one contract in one case"""

    def __init__(self, C, case, registry, contracts, lib, shape_mode=False, shape=None, fuel=64):
        self.C = C
        self.case = case
        self.registry = registry
        self.contracts = contracts
        self.lib = lib
        self.shape_mode = shape_mode
        self.shape = shape
        self.fuel = fuel
        self.work = [[]]
        self.obls = {}
        self.relies_on = set()
        self.npaths = 0
        self.outcomes = []
        self.solver_s = 0.0
        self.stats = {"z3-inc": 0, "z3-oneshot": 0, "trivial": 0}
        self.concrete_args = None
        self.inline_all = False
        self.on_refuted = None
        self.cur_args = None
        from .lib import FLOAT_AXIOMS
        from .sym import div_axioms, mul_axioms, ABSTRACT_NL
        from .sym import ABSTRACT_REAL
        ABSTRACT_NL[0] = (not shape_mode) and getattr(C, "abstract_nl", True)
        ABSTRACT_REAL[0] = (not shape_mode) and getattr(C, "abstract_real", False)
        if getattr(C, "sum_axioms", False) and not shape_mode:
            from .lib import SUM_AXIOMS, SUM_EXT
            self.lib_axioms_extra = (list(SUM_AXIOMS[:1]) if C.sum_axioms == "ext" else list(SUM_AXIOMS)) + [SUM_EXT]
        else:
            self.lib_axioms_extra = []
        if getattr(C, "axioms", None) is not None and not shape_mode:
            self.lib_axioms_extra = list(self.lib_axioms_extra) + list(C.axioms())
        from .sym import comm_axioms
        self.lib_axioms = list(FLOAT_AXIOMS) + (div_axioms() + mul_axioms() + comm_axioms(ABSTRACT_REAL[0]) if ABSTRACT_NL[0] else [])

    def obligation(self, kind, name, line):
        oid = "%s[%s]:%s.%s" % (self.C.short, self.case_label(), kind, name)
        ob = self.obls.get(oid)
        if ob is None:
            ob = self.obls[oid] = Obligation(oid, kind, name, line)
        return ob

    def case_label(self):
        return ",".join("%s=%s" % kv for kv in sorted(self.case.items())) if self.case else "-"

    def prove(self, ctx, t, small_only=False):
        """pc => t ?   returns (verdict, backend, detail).

        Every obligation is decided in a FRESH solver under a deterministic resource limit (z3 rlimit), so that the verdict
        does not depend on machine load or on what the incremental exploration solver has seen before; cvc5 (own process)
        gives a second opinion on `unknown`."""
        t0 = time.time()
        if self.shape_mode:
            s = ctx.solver
            s.push()
            s.set("timeout", Z3_OBL_MS)
            s.set("rlimit", 0)
            s.add(z3.Not(t))
            r = s.check()
            # (the library axioms are true facts; a model is only ever used as a candidate input that is replayed natively)
            if r == z3.sat and not _has_quantifier(ctx.pc[ctx.n_lib:] + [t]) and self.on_refuted is not None:
                self.on_refuted(ctx, s.model(), self.cur_args, ctx.cur_oid)
            s.pop()
            s.set("timeout", Z3_QUICK_MS)
            s.set("rlimit", Z3_QUICK_RL)
            self.solver_s += time.time() - t0
            if r == z3.unsat:
                return "proved", "z3-inc", None
            if r == z3.sat and not _has_quantifier(ctx.pc[ctx.n_lib:] + [t]):
                return "refuted", "z3-inc", None
            return "unknown", "z3-inc", {"z3": str(r)}
        def z3_fresh(rl):
            s2 = z3.Solver()
            s2.set("rlimit", rl)
            s2.set("timeout", Z3_ONESHOT_MS)
            for p in ctx.pc:
                s2.add(p)
            s2.add(z3.Not(t))
            return s2, s2.check()
        if getattr(self.C, "axioms", None) is not None:
            # equational theories (ring axioms): E-matching can diverge on a false goal and the in-process solver then ignores
            # its limits; such queries go to solver processes with a hard time limit only
            r3 = _cvc5_check(ctx.pc, t, CVC5_MS)
            self.solver_s += time.time() - t0
            if r3 == "unsat":
                return "proved", "cvc5", None
            t1 = time.time()
            r4 = _z3_binary_check(ctx.pc, t, 30)
            self.solver_s += time.time() - t1
            if r4 == "unsat":
                return "proved", "z3", None
            return "unknown", "z3+cvc5", {"z3": r4, "cvc5": r3}
        # 1. z3, small deterministic budget (most obligations end here in milliseconds)
        s2, r2 = z3_fresh(Z3_OBL_RL // 8)
        self.solver_s += time.time() - t0
        if r2 == z3.unsat:
            return "proved", "z3", None
        if r2 == z3.sat and not _has_quantifier(ctx.pc + [t]):
            return "refuted", "z3", {"z3": "sat"}
        # 2. cvc5 on the SMT-LIB text of the same query (own process)
        t0 = time.time()
        r3 = _cvc5_check(ctx.pc, t, CVC5_MS)
        self.solver_s += time.time() - t0
        if r3 == "unsat":
            return "proved", "cvc5", None
        if small_only:
            return "unknown", "z3+cvc5", {"z3": str(r2), "cvc5": r3, "budget": "small"}
        # 3. z3 again with the full budget
        t0 = time.time()
        s2, r2 = z3_fresh(Z3_OBL_RL)
        self.solver_s += time.time() - t0
        if r2 == z3.unsat:
            return "proved", "z3", None
        detail = {"z3": str(r2), "reason": s2.reason_unknown() if r2 == z3.unknown else "model", "cvc5": r3}
        if r2 == z3.sat and not _has_quantifier(ctx.pc + [t]):
            return "refuted", "z3", detail
        return "unknown", "z3+cvc5", detail

    def class_attr(self, interp, ctx, cls, attr, node):
        return self.C.class_attr(interp, ctx, cls, attr, node)


def _z3_binary_check(pc, goal, seconds):
    """the same query through the z3 command-line binary (own process, hard time limit)"""
    import subprocess
    import tempfile
    try:
        s = z3.Solver()
        for p in pc:
            s.add(p)
        s.add(z3.Not(goal))
        text = s.to_smt2()
        with tempfile.NamedTemporaryFile("w", suffix=".smt2", delete=False) as fh:
            fh.write(text)
            path = fh.name
        try:
            exe = "z3-new" if any(os.access(os.path.join(d, "z3-new"), os.X_OK) for d in os.environ.get("PATH", "").split(os.pathsep)) else "/usr/bin/z3"
            r = subprocess.run([exe, "-T:%d" % seconds, path], capture_output=True, text=True, timeout=seconds + 10)
            out = r.stdout.strip().splitlines()
            res = out[0].strip() if out else "error"
            return res if res in ("unsat", "sat", "unknown") else "unknown"
        except subprocess.TimeoutExpired:
            return "unknown"
        finally:
            os.unlink(path)
    except Exception:
        return "error"


def _cvc5_check(pc, goal, ms):
    """pc => goal ?  via the cvc5 binary on the SMT-LIB 2 dump of the query (own process: a hard time limit applies);
    'unsat' | 'sat' | 'unknown' | 'error'"""
    import subprocess
    import tempfile
    try:
        s = z3.Solver()
        for p in pc:
            s.add(p)
        s.add(z3.Not(goal))
        text = "(set-logic ALL)\n" + s.to_smt2()
        if "(lambda" in text:
            return "error"
        with tempfile.NamedTemporaryFile("w", suffix=".smt2", delete=False) as fh:
            fh.write(text)
            path = fh.name
        try:
            r = subprocess.run(["/usr/bin/cvc5", "--tlimit=%d" % ms, path], capture_output=True, text=True, timeout=ms / 1000.0 + 5)
            out = r.stdout.strip().splitlines()
            res = out[-1].strip() if out else "error"
            if res not in ("unsat", "sat", "unknown") and os.environ.get("PYVC_DEBUG"):
                print("DEBUG cvc5:", (r.stdout + r.stderr)[-300:])
            return res if res in ("unsat", "sat", "unknown") else "error"
        except subprocess.TimeoutExpired:
            return "unknown"
        finally:
            os.unlink(path)
    except Exception as e:
        if os.environ.get("PYVC_DEBUG"):
            print("DEBUG cvc5 exception:", e)
        return "error"


def _has_quantifier(ts):
    seen = set()

    def walk(e):
        if e.get_id() in seen:
            return False
        seen.add(e.get_id())
        if z3.is_quantifier(e):
            return True
        return any(walk(c) for c in e.children())
    return any(walk(t) for t in ts)


def explore(run, on_path=None, max_paths=4000):
    """run all paths; returns list of (ctx, outcome, args, result/exc)"""
    C = run.C
    mod, fnode = run.registry.function(C.target, C.locate)
    results = []
    while run.work:
        decisions = run.work.pop()
        run.npaths += 1
        if run.npaths > max_paths:
            raise CheckerError("path explosion in %s (> %d paths)" % (C.target, max_paths))
        ctx = PathCtx(run, decisions)
        try:
            args = C.make_args(run.case, ctx, run.shape) if run.concrete_args is None else \
                {k: ctx.clone_value(v) for k, v in run.concrete_args.items()}
            run.cur_args = args
            if C.pre_execute is not None:
                C.pre_execute(None, mod, fnode, args)      # binds closures / aliases between live-in variables
            a = Namespace(args)
            old = Namespace({k: ctx.clone_value(v) for k, v in args.items()})
            if C.requires is not None:
                ctx.assume(C.requires(a))
            if not getattr(run, "_vacuity_checked", False):
                # vacuity guard: parameter invariants + precondition must be satisfiable (a contradictory precondition would make
                # every obligation of the contract "proved"); decided on the quantifier-free part, unknown counts as satisfiable
                run._vacuity_checked = True
                if ctx._qf_unsat(z3.BoolVal(True)):
                    raise CheckerError("vacuous contract: the precondition of %s is unsatisfiable in case %s" % (C.name, run.case_label()))
                ob = run.obligation("vacuity", "precondition-satisfiable", getattr(fnode, "lineno", None))
                ob.paths += 1
                ob.backend["z3-qf"] = ob.backend.get("z3-qf", 0) + 1
            interp = Interp(ctx, mod, run.lib, run.contracts, target_contract=C, inline=C.inline)
            interp.self_qual = C.target if C.name == C.target else None
            interp.root_node = fnode
            C.freeze(args)
            outcome, value = None, None
            try:
                value = C.execute(interp, mod, fnode, args)
                outcome = "return"
            except PyRaise as e:
                outcome, value = "raise", e
            except _Return as r:
                outcome, value = "return", r.value
            # ---- obligations on the outcome
            if run.inline_all:
                pass      # differential run on concrete inputs: only the outcome is wanted
            elif outcome == "return":
                old.__dict__["post"] = a
                if C.ensures is not None:
                    for nm, f in _named(C.ensures(old, value)):
                        if isinstance(f, tuple) and f and f[0] in ("induct", "induct_down", "assert"):
                            # a ghost step between postcondition clauses (an induction z3 will not find by itself): proved, then assumed
                            interp.run_ghost(lambda v, f=f: [f], Env(None), fnode, "post")
                            continue
                        ctx.oblige("post", nm, f, fnode)
                for cls, when in C.raises:
                    ctx.oblige("raises.required", cls, Not(when(old)), fnode)
            else:
                e = value
                allowed = [when(old) for cls, when in C.raises if exc_matches(e.cls, cls)]
                if any(exc_matches(e.cls, m) for m in C.may_raise):
                    allowed.append(True)
                f = Or(*allowed) if allowed else False
                ctx.oblige("raises.allowed" if allowed else "safe", "%s@L%s" % (e.cls, getattr(e.node, "lineno", "?")), f, e.node)
            if C.reads_allowed and not run.inline_all:
                # frame.read: attribute reads observed on this path (every path of the function / slice is executed)
                for oname, cls, attr in ctx.reads:
                    allowed = C.reads_allowed.get(cls.split("::")[-1])
                    if allowed is not None:
                        ob = run.obligation("frame.read", "%s.%s" % (cls.split("::")[-1], attr), None)
                        ob.paths += 1
                        ob.backend["syntactic-frame"] = ob.backend.get("syntactic-frame", 0) + 1
                        if attr not in allowed:
                            ob.verdict = "refuted"
                            ob.detail = "attribute %s of %s is read" % (attr, cls)
            results.append((ctx, outcome, args, value))
            if on_path is not None:
                on_path(ctx, outcome, args, old, value)
        except PathEnd:
            continue
    return results


from . import lib_mat as _lib_mat      # 2-D arrays / object lists: models + havoc / clone support
_lib_mat.install(sys.modules[__name__])
from . import lib_fmt as _lib_fmt      # structured strings for number formatting
from . import lib_calc as _lib_calc    # jacobian / quad / fsolve models
from . import interp as _interp_mod
_lib_calc.install(_interp_mod)
from . import lib_filter as _lib_filter   # exact summaries of filter loops / filtered comprehensions
from . import lib_amat as _lib_amat     # abstract matrix algebra (uninterpreted ring of float matrices)
_lib_amat.install_calc(_lib_calc)
