"""Structured strings for number formatting (assumed model of str / format / f-strings on numbers; C19).

A string built from numbers is kept as a list of parts instead of characters:

    'text'                          literal text
    ('num', x, decimals, width, sign)   format(x, f'{sign}{width}.{decimals}f'): fixed-point rendering of the real x
    ('int', n)                      str(n) for an int n
    ('pystr', x)                    str(x) for a float x (repr-style shortest rendering)
    ('efmt', x, digits)             '%.<digits>e' % x  (scientific rendering of the real x)
    ('lead', x, ...)                text produced by a function under contract that starts with a rendering of x
    ('if', c, 'text')               'text' if c else ''

  SStr(parts)  -- value class;  + concatenates;  s[0] is a character whose only observable is whether it is '-';
  f-strings / str.format with format specs made of literal text and str(int) pieces are parsed into ('num', ...) parts.
What the model assumes about CPython: the first character of a fixed-point / str rendering of x is '-' exactly when x < 0
(x = -0.0 and NaN do not exist over the reals), and a rendering with width <= 1 and no sign flag has no padding.
Anything else (other format types, alignment, symbolic text) is a checker error or an opaque string, never a guess.
"""
import ast
import string as _string
from fractions import Fraction
import z3

from .sym import (Sym, SInt, SReal, SBool, SOpaque, SObj, CheckerError, arith, compare, tz, tb, treal, wrap, And, Or, Not, Ite, eq)
from .interp import PyRaise, Interp
from .lib import Lib, SCALAR


class SStr(Sym):
    def __init__(self, parts):
        flat = []
        for p in parts:
            if isinstance(p, str):
                if p == "":
                    continue
                if flat and isinstance(flat[-1], str):
                    flat[-1] = flat[-1] + p
                    continue
            flat.append(p)
        self.parts = flat

    def __repr__(self):
        return "SStr(%r)" % (self.parts,)


class SChar(Sym):
    """one character of which only `is it '-'` is known"""

    def __init__(self, is_minus, plus=False):
        self.is_minus, self.plus = is_minus, plus      # plus: the rendering had the '+' flag ('+' unless negative)


def parts_of(x):
    if isinstance(x, str):
        return [x] if x else []
    if isinstance(x, SStr):
        return list(x.parts)
    return None


def mk(parts):
    s = SStr(parts)
    if all(isinstance(p, str) for p in s.parts):
        return "".join(s.parts)
    return s


def to_str(x):
    """str(x)"""
    if isinstance(x, bool):
        return str(x)
    if isinstance(x, int):
        return str(x)
    if isinstance(x, SInt):
        return SStr([("int", x)])
    if isinstance(x, (Fraction, SReal)):
        return SStr([("pystr", x)])
    if isinstance(x, (str, SStr)):
        return x
    return None


def parse_spec(spec):
    """format spec (str or SStr of text and ('int', n) parts) -> (sign, width, decimals) for the 'f' type, or None"""
    toks = []
    for p in (parts_of(spec) or []):
        if isinstance(p, str):
            toks.extend(list(p))
        elif p[0] == "int":
            toks.append(p)
        else:
            return None
    i = 0
    sign = ""
    if i < len(toks) and toks[i] in ("+", "-", " "):
        sign = toks[i]
        i += 1

    def number(i):
        if i < len(toks) and isinstance(toks[i], tuple):
            return toks[i][1], i + 1
        j = i
        while j < len(toks) and isinstance(toks[j], str) and toks[j].isdigit():
            j += 1
        if j == i:
            return None, i
        return int("".join(toks[i:j])), j
    if i < len(toks) and toks[i] == "0":
        return None                       # zero padding: not modelled
    width, i = number(i)
    dec = None
    if i < len(toks) and toks[i] == ".":
        dec, i = number(i + 1)
        if dec is None:
            return None
    if i == len(toks) - 1 and toks[i] == "f":
        return sign, (0 if width is None else width), (6 if dec is None else dec)
    if i == len(toks) and dec is None:
        return ("general", sign, width)
    return None


def format_value(lib, interp, x, spec, node):
    """format(x, spec)"""
    if isinstance(x, SObj):
        sp = spec if isinstance(spec, str) else None
        if sp is None:
            interp.err(node, "format of an object with a symbolic format spec")
        r = lib.dunder(interp, x, "__format__", [sp], node)
        if r is NotImplemented:
            interp.err(node, "format() of %s" % x.cls)
        return r
    if spec == "" or spec is None:
        r = to_str(x)
        if r is None:
            interp.err(node, "str() of %r" % (x,))
        return r
    if isinstance(x, (str, SStr)):
        return SOpaque("str")
    if isinstance(x, SCALAR) and not isinstance(x, (bool, SBool)):
        ps = parse_spec(spec)
        if ps is None or ps[0] == "general":
            return SOpaque("str")
        sign, width, dec = ps
        # a negative precision is a ValueError in CPython
        neg = compare("<", dec, 0)
        if neg is not False and (neg is True or not interp.ctx.decide(tb(Not(neg)), "ValueError", node)):
            raise PyRaise("ValueError", "format spec: negative precision", node)
        return SStr([("num", x, dec, width, sign)])
    return SOpaque("str")


def first_char(s, interp, node):
    p = s.parts[0] if s.parts else None
    if p is None:
        raise PyRaise("IndexError", "string index out of range", node)
    if isinstance(p, str):
        return p[0]
    if p[0] == "pystr":
        return SChar(compare("<", p[1], 0))
    if p[0] == "int":
        return SChar(compare("<", p[1], 0))
    if p[0] == "lead":
        # a rendering that starts with the rendering of the number p[1] (contract of the function that produced it)
        return SChar(compare("<", p[1], 0))
    if p[0] == "num":
        _, x, dec, width, sign = p
        if isinstance(width, int) and width <= 1:
            if sign == "":
                return SChar(compare("<", x, 0))
            if sign == "+":
                return SChar(compare("<", x, 0), plus=True)
        interp.err(node, "first character of a padded number")
    interp.err(node, "first character of %r" % (p,))


def sstr_eq(a, b):
    """structural equality of two structured strings (spec helper; sound: equal structure => equal text)"""
    pa, pb = parts_of(a), parts_of(b)
    if pa is None or pb is None:
        return False
    pa, pb = SStr(pa).parts, SStr(pb).parts
    if len(pa) != len(pb):
        return False
    conds = []
    for x, y in zip(pa, pb):
        if isinstance(x, str) or isinstance(y, str):
            if x != y:
                return False
            continue
        if x[0] != y[0]:
            return False
        for u, v in zip(x[1:], y[1:]):
            if isinstance(u, str) or isinstance(v, str):
                if u != v:
                    return False
            else:
                conds.append(eq(u, v))
    return And(*conds) if conds else True


# ------------------------------------------------------------------------------------------------ hooks

def _e_JoinedStr(self, node, env):
    parts = []
    for v in node.values:
        if isinstance(v, ast.Constant):
            parts.append(v.value)
            continue
        x = self.eval(v.value, env)
        spec = ""
        if v.format_spec is not None:
            spec = _e_JoinedStr(self, v.format_spec, env)
        if v.conversion not in (-1, None) and v.conversion != -1:
            parts.append(SOpaque("str"))
            continue
        if isinstance(x, str) and spec == "":
            parts.append(x)
            continue
        r = format_value(self.lib, self, x, spec, node)
        parts.append(r)
    out = []
    for p in parts:
        pp = parts_of(p)
        if pp is None:
            return SOpaque("str")
        out.extend(pp)
    return mk(out)


Interp.e_JoinedStr = _e_JoinedStr
_old_f_str = Lib.f_str


def _f_str(self, interp, args, kwargs, node):
    (x,) = args
    if isinstance(x, SObj):
        r = self.dunder(interp, x, "__str__", [], node)
        if r is not NotImplemented:
            return r
    r = to_str(x)
    if r is not None:
        return r
    return _old_f_str(self, interp, args, kwargs, node)


Lib.f_str = _f_str
_old_m_format = Lib.m_format


def _m_format(self, interp, obj, args, kwargs, node):
    if not isinstance(obj, str):
        return _old_m_format(self, interp, obj, args, kwargs, node)
    out = []
    auto = 0
    try:
        fields = list(_string.Formatter().parse(obj))
    except ValueError:
        raise PyRaise("ValueError", "bad format string", node)

    def lookup(name):
        nonlocal auto
        if name == "":
            v = args[auto]
            auto += 1
            return v
        if name.isdigit():
            return args[int(name)]
        return kwargs[name]
    for lit, fname, fspec, conv in fields:
        if lit:
            out.append(lit)
        if fname is None:
            continue
        if conv:
            return SOpaque("str")
        x = lookup(fname)
        sp = []
        for l2, f2, s2, c2 in _string.Formatter().parse(fspec or ""):
            if l2:
                sp.append(l2)
            if f2 is not None:
                y = lookup(f2)
                ys = y if isinstance(y, (str, SStr)) else to_str(y)
                pp = parts_of(ys)
                if pp is None:
                    return SOpaque("str")
                sp.extend(pp)
        r = format_value(self, interp, x, mk(sp) if sp else "", node)
        pp = parts_of(r)
        if pp is None:
            return SOpaque("str")
        out.extend(pp)
    return mk(out)


Lib.m_format = _m_format
_old_binop = Lib.binop


def _binop(self, interp, op, a, b, node):
    if op == "+" and (isinstance(a, SStr) or isinstance(b, SStr)) and isinstance(a, (str, SStr)) and isinstance(b, (str, SStr)):
        return mk(parts_of(a) + parts_of(b))
    if op == "+" and (isinstance(a, SStr) or isinstance(b, SStr)) and any(isinstance(x, SOpaque) and x.tag == "str" for x in (a, b)):
        return SOpaque("str")
    if op == "*" and ((isinstance(a, str) and isinstance(b, SInt)) or (isinstance(b, str) and isinstance(a, SInt))):
        text, n = (a, b) if isinstance(a, str) else (b, a)
        t = tz(n)
        # int(<bool>) * 'text'
        if z3.is_app(t) and t.decl().kind() == z3.Z3_OP_ITE and z3.is_int_value(t.arg(1)) and z3.is_int_value(t.arg(2)) \
                and t.arg(1).as_long() == 1 and t.arg(2).as_long() == 0:
            return SStr([("if", wrap(t.arg(0)), text)])
    if op == "%" and isinstance(a, str):
        # 'text %1.16e text' % x  /  'text %d text' % n  with a single conversion
        import re
        m = re.fullmatch(r"([^%]*)%(?:(\d*)\.(\d+))?([ed])([^%]*)", a)
        x = b[0] if isinstance(b, tuple) and len(b) == 1 else b
        if m and isinstance(x, SCALAR) and not isinstance(x, (bool, SBool)):
            pre, width, prec, conv, post = m.groups()
            if conv == "d" and isinstance(x, (int, SInt)) and prec is None:
                return mk([pre] + parts_of(to_str(x)) + [post])
            if conv == "e":
                return mk([pre, ("efmt", x, int(prec) if prec is not None else 6), post])
    return _old_binop(self, interp, op, a, b, node)


Lib.binop = _binop
_old_getitem_ext = Lib.getitem_ext


def _getitem_ext(self, interp, obj, idx, node):
    if isinstance(obj, SStr):
        if idx == 0:
            return first_char(obj, interp, node)
        interp.err(node, "character %r of a formatted number" % (idx,))
    return _old_getitem_ext(self, interp, obj, idx, node)


Lib.getitem_ext = _getitem_ext
_old_equal = Lib.equal


def _equal(self, interp, a, b, node):
    if isinstance(a, SChar) or isinstance(b, SChar):
        c, o = (a, b) if isinstance(a, SChar) else (b, a)
        if o == "-":
            return c.is_minus
        if o == "+":
            return And(Not(c.is_minus), c.plus)
        if isinstance(o, str) and len(o) == 1 and not o.isdigit() and o != ".":
            return False      # a rendering starts with '-', '+' (flag) or a digit
        interp.err(node, "comparison of a character of a formatted number with %r" % (o,))
    if isinstance(a, SStr) or isinstance(b, SStr):
        interp.err(node, "== on formatted numbers")
    return _old_equal(self, interp, a, b, node)


Lib.equal = _equal
_old_startswith = Lib.m_startswith


def _m_startswith(self, interp, obj, args, kwargs, node):
    if isinstance(obj, SStr) and isinstance(args[0], str) and len(args[0]) == 1:
        return self.equal(interp, first_char(obj, interp, node), args[0], node)
    return _old_startswith(self, interp, obj, args, kwargs, node)


Lib.m_startswith = _m_startswith
_old_truth_ext = Lib.truth_ext


def _truth_ext(self, interp, v, node):
    if isinstance(v, SStr):
        return True
    return _old_truth_ext(self, interp, v, node)


Lib.truth_ext = _truth_ext
